//! Translator for the slice / `Vec` / iterator code of the grid (src/compute/grid/explicit_grid.rs, track_sizing.rs,
//! types/grid_track.rs, the track sizing functions of style/grid.rs)  →  Lean definitions over `{α} [Num α]`.
//!
//! Different from `expr.rs`/`stmt.rs` (pure fragment) in three ways:
//!  * EFFECTS. Machine integers are typed (`u16`, `usize`); `u16` `+ - *`, `usize` `- %` and `Option::unwrap` can panic and are
//!    translated as operations of `Except GridTracks.GErr` (`Slice.u16Add` …, `Model/SliceOps.lean`). An expression that contains such
//!    an operation is evaluated first and bound (`let t ← …`), in Rust's evaluation order; a function in which nothing can panic is
//!    emitted as a pure function, the others return `Except GErr _`.
//!  * ITERATORS. A slice / `Vec` / finite iterator is a `List`, `cycle()` / `core::iter::repeat` a `Slice.Stream`; the adaptors and
//!    consumers are a closed list (`iter copied map filter any all count sum find_map cycle skip take for_each next …`).
//!  * MUTATION. Assignments shadow; a `for` loop / `for_each` closure becomes a fold whose state is the tuple of the outer locals its
//!    body assigns; an `if` / `match` statement yields the tuple of the locals its branches assign; a `&mut` parameter is returned.
//! `f32` fields that can hold `f32::INFINITY` (`GridTrack::growth_limit`) have the type `GridTracks.Ext α` (registry), a finite value
//! stored there is wrapped in `.fin`.
//! The wrappers `MinTrackSizingFunction` / `MaxTrackSizingFunction` are translated against the abstract inductives
//! (`match x.0.tag() { TAG => … }` ↦ match on the constructor, `x.0.value()` ↦ the payload, `x.0.is_*()` ↦ the tag set read off
//! `CompactLength::is_*`, the `calc` arms and `is_calc()` dropped: calc() is not modelled).
//! Anything else is an error; for a required function the run fails (`EXTRACT-ERROR`).
use crate::lean::{ident, AdtKind, Ty, World};
use crate::util::CfgEnv;
use std::collections::HashMap;
use syn::{BinOp, Expr, Lit, Pat, Stmt, UnOp};

pub type R<T> = Result<T, String>;

/// widening for the rest of track_sizing.rs (`while`, `break` in the middle of a loop body, loops over `&mut` elements that also assign outer
/// locals, `min_by(total_cmp)`, decimal literals, nested `const`s, closure parameters whose result can be `f32::INFINITY`): a child module, so
/// that it sees the private parts of the translator
#[path = "tracks2.rs"]
pub mod tracks2;

// ------------------------------------------------------------------------------------------------ types

#[derive(Clone, PartialEq, Debug)]
pub enum T {
    F32,
    /// an `f32` that can be `f32::INFINITY`: `GridTracks.Ext α`
    Ext,
    Bool,
    U16,
    Usize,
    IntLit,
    Unit,
    Unknown,
    Opt(Box<T>),
    List(Box<T>),
    Stream(Box<T>),
    Tuple(Vec<T>),
    Adt(String, Vec<T>),
    Fn(Vec<T>, Box<T>),
    Var(String),
}

impl T {
    pub fn opt(t: T) -> T {
        T::Opt(Box::new(t))
    }
    pub fn list(t: T) -> T {
        T::List(Box::new(t))
    }
    pub fn adt(n: &str) -> T {
        T::Adt(n.to_string(), vec![])
    }
    fn is_int(&self) -> bool {
        matches!(self, T::U16 | T::Usize | T::IntLit)
    }
    fn head(&self) -> String {
        match self {
            T::F32 | T::Ext => "f32".into(),
            T::Bool => "bool".into(),
            T::U16 => "u16".into(),
            T::Usize => "usize".into(),
            T::Opt(_) => "Option".into(),
            T::List(_) => "List".into(),
            T::Stream(_) => "Stream".into(),
            T::Adt(n, _) => n.clone(),
            _ => "?".into(),
        }
    }
    pub fn compatible(&self, o: &T) -> bool {
        match (self, o) {
            (T::Unknown, _) | (_, T::Unknown) | (T::Var(_), _) | (_, T::Var(_)) => true,
            (T::IntLit, b) | (b, T::IntLit) => b.is_int(),
            (T::Opt(a), T::Opt(b)) | (T::List(a), T::List(b)) | (T::Stream(a), T::Stream(b)) => a.compatible(b),
            (T::Tuple(a), T::Tuple(b)) => a.len() == b.len() && a.iter().zip(b).all(|(x, y)| x.compatible(y)),
            (T::Adt(n, a), T::Adt(m, b)) => n == m && a.len() == b.len() && a.iter().zip(b).all(|(x, y)| x.compatible(y)),
            (T::Fn(a, r), T::Fn(b, q)) => a.len() == b.len() && a.iter().zip(b).all(|(x, y)| x.compatible(y)) && r.compatible(q),
            (a, b) => a == b,
        }
    }
    pub fn join(&self, o: &T) -> T {
        match (self, o) {
            (T::Unknown, b) | (T::Var(_), b) => b.clone(),
            (T::IntLit, b) if b.is_int() => b.clone(),
            (T::Opt(a), T::Opt(b)) => T::opt(a.join(b)),
            (T::List(a), T::List(b)) => T::list(a.join(b)),
            (T::Stream(a), T::Stream(b)) => T::Stream(Box::new(a.join(b))),
            (T::Tuple(a), T::Tuple(b)) if a.len() == b.len() => T::Tuple(a.iter().zip(b).map(|(x, y)| x.join(y)).collect()),
            (T::Adt(n, a), T::Adt(m, b)) if n == m && a.len() == b.len() => T::Adt(n.clone(), a.iter().zip(b).map(|(x, y)| x.join(y)).collect()),
            (a, _) => a.clone(),
        }
    }
    fn has_unknown(&self) -> bool {
        match self {
            T::Unknown | T::IntLit => true,
            T::Opt(t) | T::List(t) | T::Stream(t) => t.has_unknown(),
            T::Tuple(v) | T::Adt(_, v) => v.iter().any(|t| t.has_unknown()),
            T::Fn(a, r) => a.iter().any(|t| t.has_unknown()) || r.has_unknown(),
            _ => false,
        }
    }
    fn subst(&self, s: &HashMap<String, T>) -> T {
        match self {
            T::Var(v) => s.get(v).cloned().unwrap_or_else(|| self.clone()),
            T::Opt(t) => T::opt(t.subst(s)),
            T::List(t) => T::list(t.subst(s)),
            T::Stream(t) => T::Stream(Box::new(t.subst(s))),
            T::Tuple(v) => T::Tuple(v.iter().map(|t| t.subst(s)).collect()),
            T::Adt(n, v) => T::Adt(n.clone(), v.iter().map(|t| t.subst(s)).collect()),
            T::Fn(a, r) => T::Fn(a.iter().map(|t| t.subst(s)).collect(), Box::new(r.subst(s))),
            t => t.clone(),
        }
    }
    fn unify(&self, actual: &T, s: &mut HashMap<String, T>) -> bool {
        match (self, actual) {
            (T::Var(v), a) => match s.get(v).cloned() {
                Some(t) => t.compatible(a),
                None => {
                    s.insert(v.clone(), a.clone());
                    true
                }
            },
            (T::Opt(a), T::Opt(b)) | (T::List(a), T::List(b)) | (T::Stream(a), T::Stream(b)) => a.unify(b, s),
            (T::Tuple(a), T::Tuple(b)) => a.len() == b.len() && a.iter().zip(b).all(|(x, y)| x.unify(y, s)),
            (T::Adt(n, a), T::Adt(m, b)) => n == m && a.len() == b.len() && a.iter().zip(b).all(|(x, y)| x.unify(y, s)),
            (a, b) => a.compatible(b),
        }
    }
    fn vars(&self, out: &mut Vec<String>) {
        match self {
            T::Var(v) => {
                if !out.contains(v) {
                    out.push(v.clone())
                }
            }
            T::Opt(t) | T::List(t) | T::Stream(t) => t.vars(out),
            T::Tuple(v) | T::Adt(_, v) => v.iter().for_each(|t| t.vars(out)),
            T::Fn(a, r) => {
                a.iter().for_each(|t| t.vars(out));
                r.vars(out)
            }
            _ => {}
        }
    }
}

pub fn from_ty(t: &Ty) -> T {
    match t {
        Ty::F32 => T::F32,
        Ty::Bool => T::Bool,
        Ty::Nat => T::Usize,
        Ty::Unit => T::Unit,
        Ty::Unknown | Ty::Param(_) => T::Unknown,
        Ty::Opt(t) => T::opt(from_ty(t)),
        Ty::List(t) => T::list(from_ty(t)),
        Ty::Tuple(v) => T::Tuple(v.iter().map(from_ty).collect()),
        Ty::Adt(n, a) => T::Adt(n.clone(), a.iter().map(from_ty).collect()),
        Ty::Var(v) => T::Var(v.clone()),
        Ty::Fn(a, r) => T::Fn(a.iter().map(from_ty).collect(), Box::new(from_ty(r))),
    }
}

// ------------------------------------------------------------------------------------------------ registry

#[derive(Clone, Debug)]
pub struct SStruct {
    pub rust: String,
    pub lean: String,
    pub alpha: bool,
    /// (rust name, lean name, type)
    pub fields: Vec<(String, String, T)>,
}
#[derive(Clone, Debug)]
pub struct SEnum {
    pub rust: String,
    pub lean: String,
    pub alpha: bool,
    /// (rust name, lean constructor, argument types)
    pub variants: Vec<(String, String, Vec<T>)>,
}
/// a newtype around `CompactLength`, translated against an abstract inductive
#[derive(Clone, Debug)]
pub struct SWrap {
    pub rust: String,
    pub lean: String,
    /// (tag constant, Lean constructor, has payload)
    pub ctors: Vec<(String, String, bool)>,
}
#[derive(Clone, Debug)]
pub struct SFn {
    pub lean: String,
    pub self_ty: Option<T>,
    pub params: Vec<T>,
    pub ret: T,
    /// returns `Except GErr _`
    pub eff: bool,
    /// positions (0 = `self` for a method, parameters after it) of `&mut` arguments: their new values are returned before the value
    pub muts: Vec<usize>,
    /// trailing untranslated parameters (the `calc` resolver)
    pub dropped: usize,
    /// positions (among the non-receiver arguments of the Rust call) of untranslated parameters that are not trailing
    pub dropped_pos: Vec<usize>,
    pub alpha: bool,
    /// takes the instance `[GridTracks.NumCast α]`
    pub numcast: bool,
}

#[derive(Default)]
pub struct Reg {
    pub structs: Vec<SStruct>,
    pub enums: Vec<SEnum>,
    pub wraps: Vec<SWrap>,
    pub fns: HashMap<(String, String), Vec<SFn>>,
    /// (head, name) ↦ (Lean term, type)
    pub consts: HashMap<(String, String), (String, T)>,
    /// `CompactLength::is_*` ↦ the tag constants for which it answers true
    pub cl_preds: HashMap<String, Vec<String>>,
    /// type aliases (`NonRepeatedTrackSizingFunction` ↦ `MinMax<…>` is registered as a struct of that name directly)
    pub aliases: HashMap<String, String>,
}

impl Reg {
    pub fn strukt(&self, n: &str) -> Option<&SStruct> {
        self.structs.iter().find(|s| s.rust == n)
    }
    pub fn enm(&self, n: &str) -> Option<&SEnum> {
        self.enums.iter().find(|s| s.rust == n)
    }
    pub fn wrap(&self, n: &str) -> Option<&SWrap> {
        self.wraps.iter().find(|s| s.rust == n)
    }
    pub fn add_fn(&mut self, head: &str, name: &str, f: SFn) {
        self.fns.entry((head.to_string(), name.to_string())).or_default().push(f);
    }
}

pub struct Env<'a> {
    pub w: &'a World,
    pub reg: &'a Reg,
}

impl<'a> Env<'a> {
    pub fn mentions_alpha(&self, t: &T) -> bool {
        match t {
            T::F32 | T::Ext => true,
            T::Opt(t) | T::List(t) | T::Stream(t) => self.mentions_alpha(t),
            T::Tuple(v) => v.iter().any(|t| self.mentions_alpha(t)),
            T::Fn(a, r) => a.iter().any(|t| self.mentions_alpha(t)) || self.mentions_alpha(r),
            T::Adt(n, v) => {
                let own = self.reg.strukt(n).map(|s| s.alpha).or(self.reg.enm(n).map(|s| s.alpha)).or(self.reg.wrap(n).map(|_| true));
                own.or(self.w.adt(n).map(|a| a.alpha)).unwrap_or(false) || v.iter().any(|t| self.mentions_alpha(t))
            }
            _ => false,
        }
    }
    pub fn lean_ty(&self, t: &T) -> String {
        match t {
            T::F32 => "α".into(),
            T::Ext => "(GridTracks.Ext α)".into(),
            T::Bool => "Bool".into(),
            T::U16 | T::Usize | T::IntLit => "Nat".into(),
            T::Unit => "Unit".into(),
            T::Unknown => "_".into(),
            T::Var(v) => v.clone(),
            T::Opt(t) => format!("(Option {})", self.lean_ty(t)),
            T::List(t) => format!("(List {})", self.lean_ty(t)),
            T::Stream(t) => format!("(Slice.Stream {})", self.lean_ty(t)),
            T::Tuple(v) => format!("({})", v.iter().map(|t| self.lean_ty(t)).collect::<Vec<_>>().join(" × ")),
            T::Fn(a, r) => format!("({})", a.iter().chain(std::iter::once(&**r)).map(|t| self.lean_ty(t)).collect::<Vec<_>>().join(" → ")),
            T::Adt(n, args) => {
                let (lean, alpha) = if let Some(s) = self.reg.strukt(n) {
                    (s.lean.clone(), s.alpha)
                } else if let Some(s) = self.reg.enm(n) {
                    (s.lean.clone(), s.alpha)
                } else if let Some(s) = self.reg.wrap(n) {
                    (s.lean.clone(), true)
                } else if let Some(a) = self.w.adt(n) {
                    (a.lean.clone(), a.alpha)
                } else {
                    (format!("«unknown {n}»"), false)
                };
                let mut s = lean;
                if alpha {
                    s.push_str(" α");
                }
                for x in args {
                    s.push(' ');
                    s.push_str(&self.lean_ty(x));
                }
                if alpha || !args.is_empty() {
                    format!("({s})")
                } else {
                    s
                }
            }
        }
    }
    /// fields of a struct type: (lean field, type)
    fn field(&self, t: &T, name: &str) -> R<(String, T)> {
        if let T::Adt(n, args) = t {
            if let Some(s) = self.reg.strukt(n) {
                return s.fields.iter().find(|f| f.0 == name).map(|f| (f.1.clone(), f.2.clone())).ok_or(format!("struct {n} has no known field `{name}`"));
            }
            if let Some(a) = self.w.adt(n) {
                if let AdtKind::Struct(fs) = &a.kind {
                    let targs: Vec<Ty> = vec![];
                    let _ = targs;
                    if let Some(f) = fs.iter().find(|f| f.rust == name) {
                        // instantiate the parameters by hand (Param(i) ↦ args[i])
                        let ft = match &f.ty {
                            Ty::Param(i) => args.get(*i).cloned().unwrap_or(T::Unknown),
                            t => from_ty(t),
                        };
                        return Ok((f.lean.clone(), ft));
                    }
                }
            }
        }
        Err(format!("field `{name}` of a value of type {:?}", t))
    }
    /// every enum (own registry first, then the world's) that has the variant: (constructor, enum type, argument types)
    fn variant(&self, ty_name: Option<&str>, var: &str) -> Option<(String, T, Vec<T>)> {
        let mut found = vec![];
        for e in &self.reg.enums {
            if ty_name.map(|t| t == e.rust).unwrap_or(true) {
                if let Some(v) = e.variants.iter().find(|v| v.0 == var) {
                    found.push((format!("{}.{}", e.lean, v.1), T::adt(&e.rust), v.2.clone()));
                }
            }
        }
        if found.is_empty() {
            for a in &self.w.adts {
                if ty_name.map(|t| t == a.rust).unwrap_or(true) {
                    if let AdtKind::Enum(vs) = &a.kind {
                        if let Some(v) = vs.iter().find(|v| v.rust == var) {
                            found.push((format!("{}.{}", a.lean, v.lean), T::adt(&a.rust), v.args.iter().map(from_ty).collect()));
                        }
                    }
                }
            }
        }
        if found.len() == 1 {
            found.pop()
        } else {
            None
        }
    }
    /// translated functions under (head, name): own registry, then the world's pure ones
    fn fns(&self, head: &str, name: &str) -> Vec<SFn> {
        let mut v: Vec<SFn> = self.reg.fns.get(&(head.to_string(), name.to_string())).cloned().unwrap_or_default();
        if let Some(sigs) = self.w.fns.get(&(head.to_string(), name.to_string())) {
            for s in sigs {
                if s.prog || s.mut_self || s.mut_first {
                    continue;
                }
                v.push(SFn {
                    lean: s.lean.clone(),
                    self_ty: s.self_ty.as_ref().map(from_ty),
                    params: s.params.iter().map(|p| from_ty(&p.1)).collect(),
                    ret: from_ty(&s.ret),
                    eff: false,
                    muts: vec![],
                    dropped: s.dropped,
                    dropped_pos: vec![],
                    alpha: s.alpha,
                    numcast: false,
                });
            }
        }
        v
    }
}

// ------------------------------------------------------------------------------------------------ Lean IR

#[derive(Clone, Debug)]
pub enum X {
    A(String),
    App(String, Vec<X>),
    /// parameters, body, forced monadic
    Fun(Vec<String>, Box<Blk>, bool),
    Tuple(Vec<X>),
    Field(Box<X>, String),
    Bin(String, Box<X>, Box<X>),
    Not(Box<X>),
    With(Box<X>, Vec<(String, X)>),
    /// structure instance with type ascription
    Struct(String, Vec<(String, X)>),
    Block(Box<Blk>),
}
#[derive(Clone, Debug)]
pub enum St {
    Let(String, X),
    Bind(String, X),
}
#[derive(Clone, Debug)]
pub enum Tail {
    Val(X),
    /// an effectful term whose answer is the block's
    Eff(X),
    If(X, Box<Blk>, Box<Blk>),
    Match(Vec<X>, Vec<(Vec<String>, Blk)>),
}
#[derive(Clone, Debug)]
pub struct Blk {
    pub stmts: Vec<St>,
    pub tail: Tail,
}

impl X {
    pub fn a(s: &str) -> X {
        X::A(s.to_string())
    }
    pub fn app(f: &str, args: Vec<X>) -> X {
        X::App(f.to_string(), args)
    }
    fn effectful_inside(&self) -> bool {
        // effects only live in blocks / closures that are rendered monadically on their own
        false
    }
    fn atomic(&self) -> bool {
        match self {
            X::A(s) => !s.contains(' ') || (s.starts_with('(') && s.ends_with(')')),
            X::Tuple(_) | X::Struct(..) | X::With(..) | X::Bin(..) | X::Not(_) | X::Fun(..) | X::Block(_) => true,
            X::Field(b, _) => b.atomic(),
            X::App(_, a) => a.is_empty(),
        }
    }
    pub fn arg(&self, ind: usize) -> String {
        let s = self.render(ind);
        if self.atomic() {
            s
        } else {
            format!("({s})")
        }
    }
    pub fn render(&self, ind: usize) -> String {
        match self {
            X::A(s) => s.clone(),
            X::App(f, args) => {
                let mut s = f.clone();
                for a in args {
                    s.push(' ');
                    s.push_str(&a.arg(ind + 2));
                }
                s
            }
            X::Fun(ps, b, force) => {
                let m = *force || b.effectful();
                let body = b.render(ind + 2, m);
                let kw = if m && !b.is_simple() { " do" } else { "" };
                if b.is_simple() && !body.contains('\n') {
                    format!("(fun {} => {})", ps.join(" "), body)
                } else {
                    format!("(fun {} =>{kw}\n{}{})", ps.join(" "), " ".repeat(ind + 2), body)
                }
            }
            X::Tuple(v) => format!("({})", v.iter().map(|x| x.render(ind + 1)).collect::<Vec<_>>().join(", ")),
            X::Field(b, f) => format!("{}.{f}", b.arg(ind)),
            X::Bin(op, a, b) => format!("({} {op} {})", a.arg(ind + 1), b.arg(ind + 1)),
            X::Not(a) => format!("(!{})", a.arg(ind + 2)),
            X::With(b, fs) => format!("{{ {} with {} }}", b.render(ind + 2), fs.iter().map(|(f, v)| format!("{f} := {}", v.render(ind + 4))).collect::<Vec<_>>().join(", ")),
            X::Struct(ty, fs) => format!("({{ {} }} : {ty})", fs.iter().map(|(f, v)| format!("{f} := {}", v.render(ind + 4))).collect::<Vec<_>>().join(", ")),
            X::Block(b) => {
                let m = b.effectful();
                let body = b.render(ind + 2, m);
                if b.is_simple() && !body.contains('\n') {
                    format!("({body})")
                } else if m {
                    format!("(do\n{}{})", " ".repeat(ind + 2), body)
                } else {
                    format!("(\n{}{})", " ".repeat(ind + 2), body)
                }
            }
        }
    }
}

impl Blk {
    pub fn val(x: X) -> Blk {
        Blk { stmts: vec![], tail: Tail::Val(x) }
    }
    pub fn effectful(&self) -> bool {
        let _ = X::effectful_inside;
        self.stmts.iter().any(|s| matches!(s, St::Bind(..)))
            || match &self.tail {
                Tail::Val(_) => false,
                Tail::Eff(_) => true,
                Tail::If(_, a, b) => a.effectful() || b.effectful(),
                Tail::Match(_, arms) => arms.iter().any(|(_, b)| b.effectful()),
            }
    }
    fn is_simple(&self) -> bool {
        self.stmts.is_empty() && matches!(self.tail, Tail::Val(_) | Tail::Eff(_))
    }
    /// `m`: rendered inside a `do` block of `Except GErr`
    pub fn render(&self, ind: usize, m: bool) -> String {
        let pad = " ".repeat(ind);
        let mut s = String::new();
        for st in &self.stmts {
            match st {
                St::Let(p, x) => s.push_str(&format!("let {p} := {}\n{pad}", x.render(ind + 2))),
                St::Bind(p, x) => s.push_str(&format!("let {p} ← {}\n{pad}", x.render(ind + 2))),
            }
        }
        let sub = |b: &Blk, ind: usize| -> String {
            let body = b.render(ind, m);
            if b.is_simple() && !body.contains('\n') {
                format!(" {body}")
            } else if m {
                format!(" do\n{}{}", " ".repeat(ind), body)
            } else {
                format!("\n{}{}", " ".repeat(ind), body)
            }
        };
        match &self.tail {
            Tail::Val(x) => {
                if m {
                    s.push_str(&format!("pure {}", x.arg(ind + 2)))
                } else {
                    s.push_str(&x.render(ind))
                }
            }
            Tail::Eff(x) => s.push_str(&x.render(ind)),
            Tail::If(c, a, b) => {
                let else_part = match (&b.tail, b.stmts.is_empty()) {
                    (Tail::If(..), true) => format!("else {}", b.render(ind, m)),
                    _ => format!("else{}", sub(b, ind + 2)),
                };
                s.push_str(&format!("if {} then{}\n{pad}{else_part}", c.render(ind + 3), sub(a, ind + 2)));
            }
            Tail::Match(sc, arms) => {
                s.push_str(&format!("match {} with", sc.iter().map(|x| x.render(ind + 6)).collect::<Vec<_>>().join(", ")));
                for (ps, b) in arms {
                    s.push_str(&format!("\n{pad}| {} =>{}", ps.join(", "), sub(b, ind + 4)));
                }
            }
        }
        s
    }
}

// ------------------------------------------------------------------------------------------------ context

#[derive(Clone, Debug)]
pub struct Local {
    pub lean: String,
    pub ty: T,
    /// declaration order (the order of the components of a loop state / join tuple)
    pub seq: usize,
}

pub struct Cx<'a> {
    pub env: Env<'a>,
    pub cfg: CfgEnv,
    pub self_ty: Option<T>,
    pub generics: HashMap<String, T>,
    pub locals: HashMap<String, Local>,
    pub(crate) seq: usize,
    pub(crate) fresh: usize,
    /// the block under construction (hoisted effects are appended here, before the statement that uses them)
    pub(crate) cur: Vec<St>,
    pub dropped: Vec<String>,
    /// locals of type `Style` seen through a style trait
    pub views: HashMap<String, String>,
    pub ret_ty: T,
    /// `&mut` parameters (Rust names), returned with the value
    pub mut_params: Vec<String>,
    pub numcast: bool,
    /// nested `fn` items: registered under ("", name) for the rest of the body
    pub local_fns: HashMap<String, SFn>,
    /// the text of nested functions, emitted before the function
    pub nested_text: String,
    pub lean_name: String,
    /// variable ↦ (wrapper type, payload variable) while inside the arm of a tag match on that variable
    pub(crate) tag_payload: Vec<(String, Option<String>)>,
    /// the fuel (a Lean term over the parameters) of the function's `loop { … break }`, the one the hand-written model uses
    pub loop_fuel: Option<String>,
    /// see `tracks2::FnOpts`
    pub opts: tracks2::FnOpts,
}

fn path_segs(p: &syn::Path) -> Vec<String> {
    p.segments.iter().map(|s| s.ident.to_string()).collect()
}

fn strip(e: &Expr) -> &Expr {
    match e {
        Expr::Paren(p) => strip(&p.expr),
        Expr::Group(g) => strip(&g.expr),
        Expr::Reference(r) => strip(&r.expr),
        Expr::Unary(u) if matches!(u.op, UnOp::Deref(_)) => strip(&u.expr),
        _ => e,
    }
}

fn q<Tk: quote::ToTokens>(t: &Tk) -> String {
    let s = quote::quote!(#t).to_string();
    if s.len() > 160 {
        format!("{}…", s.chars().take(160).collect::<String>())
    } else {
        s
    }
}

/// the root local of a place / receiver chain (`x`, `x.f`, `x[i]`, `*x`, `x.first_mut().unwrap()`, `x.iter_mut()`)
fn root_local(e: &Expr) -> Option<String> {
    match e {
        Expr::Path(p) => p.path.get_ident().map(|i| i.to_string()),
        Expr::Paren(p) => root_local(&p.expr),
        Expr::Group(p) => root_local(&p.expr),
        Expr::Reference(r) => root_local(&r.expr),
        Expr::Unary(u) if matches!(u.op, UnOp::Deref(_)) => root_local(&u.expr),
        Expr::Field(f) => root_local(&f.base),
        Expr::Index(i) => root_local(&i.expr),
        Expr::MethodCall(m) if ["first_mut", "last_mut", "unwrap", "iter_mut", "as_mut", "filter"].contains(&m.method.to_string().as_str()) => root_local(&m.receiver),
        _ => None,
    }
}

/// methods of std types that mutate their receiver
const STD_MUT_METHODS: &[&str] = &["push", "clear", "next", "reserve", "truncate", "insert"];

struct AssignScan<'r> {
    reg: &'r Reg,
    local_mut_fns: Vec<(String, Vec<usize>)>,
    assigned: Vec<String>,
    declared: Vec<String>,
}
impl<'r> AssignScan<'r> {
    fn hit(&mut self, n: Option<String>) {
        if let Some(n) = n {
            if !self.assigned.contains(&n) {
                self.assigned.push(n);
            }
        }
    }
    fn is_mut_method(&self, name: &str) -> bool {
        STD_MUT_METHODS.contains(&name) || self.reg.fns.iter().any(|((_, n), v)| n == name && v.iter().any(|f| f.self_ty.is_some() && f.muts.contains(&0)))
    }
}
impl<'ast, 'r> syn::visit::Visit<'ast> for AssignScan<'r> {
    fn visit_expr(&mut self, e: &'ast Expr) {
        match e {
            Expr::Assign(a) => self.hit(root_local(&a.left)),
            Expr::Binary(b) if matches!(b.op, BinOp::AddAssign(_) | BinOp::SubAssign(_) | BinOp::MulAssign(_) | BinOp::DivAssign(_)) => self.hit(root_local(&b.left)),
            Expr::MethodCall(m) if self.is_mut_method(&m.method.to_string()) => self.hit(root_local(&m.receiver)),
            Expr::Reference(r) if r.mutability.is_some() => self.hit(root_local(&r.expr)),
            Expr::Call(c) => {
                if let Expr::Path(p) = &*c.func {
                    let name = p.path.segments.last().unwrap().ident.to_string();
                    let mut muts: Vec<usize> = vec![];
                    for ((_, n), v) in self.reg.fns.iter() {
                        if *n == name {
                            for f in v {
                                if f.self_ty.is_none() {
                                    muts.extend(f.muts.iter().cloned());
                                }
                            }
                        }
                    }
                    for (n, m) in &self.local_mut_fns {
                        if *n == name {
                            muts.extend(m.iter().cloned());
                        }
                    }
                    for i in muts {
                        if let Some(a) = c.args.iter().nth(i) {
                            self.hit(root_local(a));
                        }
                    }
                }
            }
            // `for x in v.iter_mut() { x.f = … }` / `for x in v { x.f = … }` (`v: &mut [T]`) assigns `v`
            Expr::ForLoop(f) => {
                if let Pat::Ident(i) = &*f.pat {
                    let mut sub = AssignScan { reg: self.reg, local_mut_fns: self.local_mut_fns.clone(), assigned: vec![], declared: vec![] };
                    syn::visit::visit_block(&mut sub, &f.body);
                    if sub.assigned.contains(&i.ident.to_string()) {
                        self.hit(root_local(&f.expr));
                    }
                }
            }
            // `v.iter_mut()….for_each(|x| x.f = …)` / `v.iter_mut()….map(|x| … x.update() …)`
            Expr::MethodCall(m) if (m.method == "for_each" || (m.method == "map" && tracks2::roots_in_iter_mut(&m.receiver))) && m.args.len() == 1 => {
                if let Expr::Closure(c) = strip(&m.args[0]) {
                    if let Some(Pat::Ident(i)) = c.inputs.first() {
                        let mut sub = AssignScan { reg: self.reg, local_mut_fns: self.local_mut_fns.clone(), assigned: vec![], declared: vec![] };
                        sub.visit_expr(&c.body);
                        if sub.assigned.contains(&i.ident.to_string()) {
                            self.hit(root_local(&m.receiver));
                        }
                    }
                }
            }
            _ => {}
        }
        syn::visit::visit_expr(self, e);
    }
    fn visit_local(&mut self, l: &'ast syn::Local) {
        fn names(p: &Pat, out: &mut Vec<String>) {
            match p {
                Pat::Ident(i) => out.push(i.ident.to_string()),
                Pat::Type(t) => names(&t.pat, out),
                Pat::Tuple(t) => t.elems.iter().for_each(|x| names(x, out)),
                _ => {}
            }
        }
        names(&l.pat, &mut self.declared);
        syn::visit::visit_local(self, l);
    }
}

impl<'a> Cx<'a> {
    pub fn new(w: &'a World, reg: &'a Reg, self_ty: Option<T>, generics: HashMap<String, T>) -> Cx<'a> {
        Cx {
            env: Env { w, reg },
            cfg: CfgEnv::default_build(),
            self_ty,
            generics,
            locals: HashMap::new(),
            seq: 0,
            fresh: 0,
            cur: vec![],
            dropped: vec![],
            views: HashMap::new(),
            ret_ty: T::Unknown,
            mut_params: vec![],
            numcast: false,
            local_fns: HashMap::new(),
            nested_text: String::new(),
            lean_name: String::new(),
            tag_payload: vec![],
            loop_fuel: None,
            opts: Default::default(),
        }
    }

    fn fresh_name(&mut self, base: &str) -> String {
        self.fresh += 1;
        format!("{base}{}", self.fresh)
    }
    pub fn declare(&mut self, rust: &str, ty: T) -> String {
        let lean = ident(rust);
        self.seq += 1;
        self.locals.insert(rust.to_string(), Local { lean: lean.clone(), ty, seq: self.seq });
        lean
    }
    fn emit(&mut self, s: St) {
        self.cur.push(s);
    }
    /// `let name := x`; when `x` is the temporary the last statement bound, that statement binds `name` instead
    fn emit_let(&mut self, name: String, x: X) {
        if let (X::A(tn), Some(St::Bind(p, _))) = (&x, self.cur.last()) {
            if tn == p && tn.starts_with('t') && tn.len() > 1 && tn[1..].chars().all(|c| c.is_ascii_digit()) {
                if let Some(St::Bind(_, m)) = self.cur.pop() {
                    self.emit(St::Bind(name, m));
                    return;
                }
            }
        }
        self.emit(St::Let(name, x));
    }
    /// bind an effectful term, answer the variable
    fn hoist(&mut self, x: X) -> X {
        let x = if self.opts.prog_mode { tracks2::lift_except_in(&self.opts, x) } else { x };
        let n = self.fresh_name("t");
        self.emit(St::Bind(n.clone(), x));
        X::A(n)
    }

    // -------------------------------------------------------------------------------------------- types
    pub fn rust_ty(&self, t: &syn::Type) -> R<T> {
        match t {
            syn::Type::Paren(p) => self.rust_ty(&p.elem),
            syn::Type::Group(p) => self.rust_ty(&p.elem),
            syn::Type::Reference(r) => self.rust_ty(&r.elem),
            syn::Type::Slice(s) => Ok(T::list(self.rust_ty(&s.elem)?)),
            syn::Type::Array(a) => Ok(T::list(self.rust_ty(&a.elem)?)),
            syn::Type::Tuple(t) => {
                if t.elems.is_empty() {
                    Ok(T::Unit)
                } else {
                    Ok(T::Tuple(t.elems.iter().map(|x| self.rust_ty(x)).collect::<R<Vec<_>>>()?))
                }
            }
            syn::Type::ImplTrait(it) => {
                // `impl Iterator<Item = X>`
                for b in &it.bounds {
                    if let syn::TypeParamBound::Trait(tb) = b {
                        let seg = tb.path.segments.last().unwrap();
                        if seg.ident == "Iterator" {
                            if let syn::PathArguments::AngleBracketed(ab) = &seg.arguments {
                                for g in &ab.args {
                                    if let syn::GenericArgument::AssocType(at) = g {
                                        if at.ident == "Item" {
                                            return Ok(T::Stream(Box::new(self.rust_ty(&at.ty)?)));
                                        }
                                    }
                                }
                            }
                        }
                    }
                }
                Err(format!("unsupported type `{}`", q(t)))
            }
            syn::Type::Path(p) if p.qself.is_none() => {
                let seg = p.path.segments.last().unwrap();
                let name = seg.ident.to_string();
                let args: Vec<T> = match &seg.arguments {
                    syn::PathArguments::None => vec![],
                    syn::PathArguments::AngleBracketed(a) => a
                        .args
                        .iter()
                        .map(|g| match g {
                            syn::GenericArgument::Type(t) => self.rust_ty(t),
                            _ => Err("unsupported generic argument".to_string()),
                        })
                        .collect::<R<Vec<_>>>()?,
                    _ => return Err("unsupported path arguments".into()),
                };
                if p.path.segments.len() == 1 {
                    if let Some(t) = self.generics.get(&name) {
                        return Ok(t.clone());
                    }
                }
                let name = self.env.reg.aliases.get(&name).cloned().unwrap_or(name);
                let name = self.env.w.aliases.get(&name).cloned().unwrap_or(name);
                match name.as_str() {
                    "f32" => Ok(T::F32),
                    "bool" => Ok(T::Bool),
                    "u16" => Ok(T::U16),
                    "usize" => Ok(T::Usize),
                    "Self" => self.self_ty.clone().ok_or("Self outside impl".to_string()),
                    "Option" if args.len() == 1 => Ok(T::opt(args[0].clone())),
                    "Vec" | "GridTrackVec" if args.len() == 1 => Ok(T::list(args[0].clone())),
                    // `Range<usize>`: the pair of its bounds
                    "Range" if args.len() == 1 && args[0] == T::Usize => Ok(T::Tuple(vec![T::Usize, T::Usize])),
                    _ => {
                        if self.env.reg.strukt(&name).is_some() || self.env.reg.enm(&name).is_some() || self.env.reg.wrap(&name).is_some() {
                            return Ok(T::Adt(name, args));
                        }
                        match self.env.w.adt(&name) {
                            Some(a) if a.nparams == args.len() => Ok(T::Adt(name, args)),
                            Some(a) if args.is_empty() => Ok(T::Adt(name, vec![T::Unknown; a.nparams])),
                            _ => Err(format!("unsupported type `{}`", q(t))),
                        }
                    }
                }
            }
            _ => Err(format!("unsupported type `{}`", q(t))),
        }
    }

    fn type_of_segment(&self, s: &str) -> Option<T> {
        if s == "Self" {
            return self.self_ty.clone();
        }
        if let Some(t) = self.generics.get(s) {
            return Some(t.clone());
        }
        let s = self.env.reg.aliases.get(s).map(|x| x.as_str()).unwrap_or(s);
        match s {
            "f32" => Some(T::F32),
            "u16" => Some(T::U16),
            "usize" => Some(T::Usize),
            _ => {
                if self.env.reg.strukt(s).is_some() || self.env.reg.enm(s).is_some() || self.env.reg.wrap(s).is_some() {
                    Some(T::adt(s))
                } else {
                    self.env.w.adt(s).map(|a| T::Adt(a.rust.clone(), vec![T::Unknown; a.nparams]))
                }
            }
        }
    }

    /// adapt a value to the type a context expects (`f32` stored where an infinity is possible ↦ `.fin`)
    fn coerce(&self, x: X, from: &T, to: &T) -> R<X> {
        match (from, to) {
            (T::F32, T::Ext) => Ok(X::app("GridTracks.Ext.fin", vec![x])),
            (a, b) if b.compatible(a) => Ok(x),
            (a, b) => Err(format!("a value of type {:?} where {:?} is expected", a, b)),
        }
    }

    /// as `coerce`; an extended value where a plain `f32` is expected must be finite (`Slice.Ext.toFinite`, an explicit outcome)
    fn coerce_m(&mut self, x: X, from: &T, to: &T) -> R<X> {
        match (from, to) {
            (T::Ext, T::F32) => Ok(self.hoist(X::app("Slice.Ext.toFinite", vec![x]))),
            _ => self.coerce(x, from, to),
        }
    }

    // -------------------------------------------------------------------------------------------- expressions
    pub fn expr(&mut self, e: &Expr, expect: &T) -> R<(X, T)> {
        match e {
            Expr::Paren(p) => self.expr(&p.expr, expect),
            Expr::Group(g) => self.expr(&g.expr, expect),
            Expr::Reference(r) => self.expr(&r.expr, expect),
            Expr::Unary(u) if matches!(u.op, UnOp::Deref(_)) => self.expr(&u.expr, expect),
            Expr::Lit(l) => match &l.lit {
                Lit::Float(f) => {
                    let v: f64 = f.base10_parse().map_err(|e: syn::Error| e.to_string())?;
                    if v == 0.0 {
                        Ok((X::a("0"), T::F32))
                    } else if v == 1.0 {
                        Ok((X::a("1"), T::F32))
                    } else if v == 2.0 {
                        Ok((X::a("Num.two"), T::F32))
                    } else if v.fract() == 0.0 && v > 0.0 && v < 1e6 {
                        Ok((X::app("Num.ofNat", vec![X::A(format!("{}", v as u64))]), T::F32))
                    } else if let Some(x) = tracks2::decimal_literal(f.base10_digits()) {
                        Ok((x, T::F32))
                    } else {
                        Err(format!("float literal {v} has no exact counterpart in `Num`"))
                    }
                }
                Lit::Int(i) => {
                    let v: u128 = i.base10_parse().map_err(|e: syn::Error| e.to_string())?;
                    let t = match i.suffix() {
                        "" => match expect {
                            T::U16 => T::U16,
                            T::Usize => T::Usize,
                            _ => T::IntLit,
                        },
                        "u16" => T::U16,
                        "usize" => T::Usize,
                        s => return Err(format!("integer literal suffix {s}")),
                    };
                    Ok((X::A(format!("{v}")), t))
                }
                Lit::Bool(b) => Ok((X::A(b.value.to_string()), T::Bool)),
                _ => Err("unsupported literal".into()),
            },
            Expr::Path(p) => self.path_expr(p, expect),
            Expr::Field(f) => {
                let name = match &f.member {
                    syn::Member::Named(n) => n.to_string(),
                    syn::Member::Unnamed(i) => {
                        let (b, bt) = self.expr(&f.base, &T::Unknown)?;
                        if let T::Tuple(ts) = &bt {
                            let k = i.index as usize;
                            if k < ts.len() {
                                return Ok((tuple_proj(b, k, ts.len()), ts[k].clone()));
                            }
                        }
                        return Err(format!("unsupported tuple field access `{}`", q(f)));
                    }
                };
                let (b, bt) = self.expr(&f.base, &T::Unknown)?;
                let (lf, ft) = self.env.field(&bt, &name)?;
                Ok((X::Field(Box::new(b), lf), ft))
            }
            Expr::Struct(s) => self.struct_lit(s, expect),
            Expr::Tuple(t) => {
                if t.elems.is_empty() {
                    return Ok((X::a("()"), T::Unit));
                }
                let mut ls = vec![];
                let mut ts = vec![];
                for (i, x) in t.elems.iter().enumerate() {
                    let ex = match expect {
                        T::Tuple(v) if v.len() == t.elems.len() => v[i].clone(),
                        _ => T::Unknown,
                    };
                    let (l, ty) = self.expr(x, &ex)?;
                    ls.push(l);
                    ts.push(ty);
                }
                Ok((X::Tuple(ls), T::Tuple(ts)))
            }
            Expr::Cast(c) if matches!(&*c.ty, syn::Type::BareFn(_)) => self.fn_pointer_cast(c, expect),
            Expr::Cast(c) => {
                let to = self.rust_ty(&c.ty)?;
                let (v, vt) = self.expr(&c.expr, &T::Unknown)?;
                match (&vt, &to) {
                    (T::Usize, T::U16) => Ok((X::app("Slice.usizeAsU16", vec![v]), T::U16)),
                    (T::U16 | T::IntLit, T::U16) => Ok((v, T::U16)),
                    (T::U16 | T::Usize | T::IntLit, T::Usize) => Ok((v, T::Usize)),
                    (T::U16 | T::Usize | T::IntLit, T::F32) => Ok((X::app("Num.ofNat", vec![v]), T::F32)),
                    (T::F32, T::U16) => {
                        self.numcast = true;
                        Ok((X::app("GridTracks.NumCast.toU16Sat", vec![v]), T::U16))
                    }
                    _ => Err(format!("unsupported cast `{}` ({:?} as {:?})", q(c), vt, to)),
                }
            }
            Expr::Unary(u) => match u.op {
                UnOp::Not(_) => {
                    let (v, t) = self.expr(&u.expr, &T::Bool)?;
                    if t != T::Bool {
                        return Err("`!` on a non-bool".into());
                    }
                    Ok((X::Not(Box::new(v)), T::Bool))
                }
                UnOp::Neg(_) => {
                    let (v, t) = self.expr(&u.expr, &T::F32)?;
                    if t != T::F32 {
                        return Err("unary minus on a non-f32".into());
                    }
                    Ok((X::A(format!("(-{})", v.arg(0))), T::F32))
                }
                _ => Err("unsupported unary operator".into()),
            },
            Expr::Binary(b) => self.binary(b, expect),
            Expr::If(i) => {
                if matches!(&*i.cond, Expr::Let(_)) {
                    return Err("`if let` used as a value".into());
                }
                if let Some(r) = self.finite_or(i)? {
                    return Ok(r);
                }
                let (c, ct) = self.expr(&i.cond, &T::Bool)?;
                if ct != T::Bool {
                    return Err("`if` condition is not a bool".into());
                }
                let (a, at) = self.sub_block(&i.then_branch.stmts, expect)?;
                let eb = i.else_branch.as_ref().ok_or("`if` without `else` used as a value")?;
                let (b, bt) = self.sub_expr_block(&eb.1, &at.join(expect))?;
                if !at.compatible(&bt) {
                    return Err(format!("branches of `if` have different types {:?} / {:?}", at, bt));
                }
                let ty = at.join(&bt);
                Ok((self.embed(Blk { stmts: vec![], tail: Tail::If(c, Box::new(a), Box::new(b)) }), ty))
            }
            Expr::Block(b) => {
                let (blk, t) = self.sub_block(&b.block.stmts, expect)?;
                Ok((self.embed(blk), t))
            }
            Expr::Match(m) => {
                let (tail, t) = self.match_tail(m, expect, &mut |s: &mut Self, body: &Expr, ex: &T| s.sub_expr_block(body, ex))?;
                Ok((self.embed(Blk { stmts: vec![], tail }), t))
            }
            Expr::Call(c) => self.call(c, expect),
            Expr::MethodCall(m) => self.method_call(m, expect),
            Expr::Macro(m) if m.mac.path.is_ident("matches") => self.matches_macro(&m.mac),
            Expr::Index(ix) => {
                // `v[i]` as a value: panics out of range
                let (b, bt) = self.expr(&ix.expr, &T::Unknown)?;
                let et = match bt {
                    T::List(t) => *t,
                    _ => return Err(format!("indexing a value of type {:?}", bt)),
                };
                let (i, it) = self.expr(&ix.index, &T::Usize)?;
                if it == T::Tuple(vec![T::Usize, T::Usize]) {
                    // `&v[a..b]` with the range held in a value: panics out of range
                    let x = self.hoist(X::app("Slice.indexRange", vec![b, i]));
                    return Ok((x, T::list(et)));
                }
                if !it.is_int() {
                    return Err("index is not an integer".into());
                }
                let x = self.hoist(X::app("Slice.index", vec![b, i]));
                Ok((x, et))
            }
            Expr::Closure(_) => self.closure_value(e, expect),
            // `a..b` as a value (`Range<usize>`): the pair of its bounds
            Expr::Range(r) if matches!(r.limits, syn::RangeLimits::HalfOpen(_)) && r.start.is_some() && r.end.is_some() => {
                let (a, at) = self.expr(r.start.as_ref().unwrap(), &T::Usize)?;
                let (b, bt) = self.expr(r.end.as_ref().unwrap(), &T::Usize)?;
                if !at.is_int() || !bt.is_int() {
                    return Err("range bound is not an integer".into());
                }
                Ok((X::Tuple(vec![a, b]), T::Tuple(vec![T::Usize, T::Usize])))
            }
            _ => Err(format!("unsupported expression `{}`", q(e))),
        }
    }

    /// a nested block in value position, translated with its own statement list
    fn sub_block(&mut self, stmts: &[Stmt], expect: &T) -> R<(Blk, T)> {
        let saved_locals = self.locals.clone();
        let saved_cur = std::mem::take(&mut self.cur);
        let r = self.block_value(stmts, expect);
        let stmts_out = std::mem::replace(&mut self.cur, saved_cur);
        self.locals = saved_locals;
        let (tail, t) = r?;
        Ok((Blk { stmts: stmts_out, tail }, t))
    }
    /// an expression as a block of its own (arm body, else branch, closure body)
    fn sub_expr_block(&mut self, e: &Expr, expect: &T) -> R<(Blk, T)> {
        if let Expr::Block(b) = e {
            if b.label.is_none() {
                return self.sub_block(&b.block.stmts, expect);
            }
        }
        let saved_locals = self.locals.clone();
        let saved_cur = std::mem::take(&mut self.cur);
        let r = self.tail_of(e, expect);
        let stmts_out = std::mem::replace(&mut self.cur, saved_cur);
        self.locals = saved_locals;
        let (tail, t) = r?;
        Ok((Blk { stmts: stmts_out, tail }, t))
    }
    /// the tail of a block: `if` / `match` stay structured, anything else is a value
    fn tail_of(&mut self, e: &Expr, expect: &T) -> R<(Tail, T)> {
        match e {
            Expr::Paren(p) => self.tail_of(&p.expr, expect),
            Expr::If(i) if !matches!(&*i.cond, Expr::Let(_)) && i.else_branch.is_some() => {
                if let Some((x, t)) = self.finite_or(i)? {
                    return Ok((Tail::Val(x), t));
                }
                let (c, ct) = self.expr(&i.cond, &T::Bool)?;
                if ct != T::Bool {
                    return Err("`if` condition is not a bool".into());
                }
                let (a, at) = self.sub_block(&i.then_branch.stmts, expect)?;
                let (b, bt) = self.sub_expr_block(&i.else_branch.as_ref().unwrap().1, &at.join(expect))?;
                if !at.compatible(&bt) {
                    return Err(format!("branches of `if` have different types {:?} / {:?}", at, bt));
                }
                Ok((Tail::If(c, Box::new(a), Box::new(b)), at.join(&bt)))
            }
            Expr::Match(m) => self.match_tail(m, expect, &mut |s: &mut Self, body: &Expr, ex: &T| s.sub_expr_block(body, ex)),
            // `o.unwrap_or_else(|| { …; v })` as the tail of a block: `match o with | some v => v | none => (…; v)`; the closure's statements
            // (which may assign outer places: `self.cache = Some(v)`) run only in the `none` arm
            Expr::MethodCall(m) if m.method == "unwrap_or_else" && m.args.len() == 1 && matches!(strip(&m.args[0]), Expr::Closure(c) if c.inputs.is_empty()) => {
                let c = match strip(&m.args[0]) {
                    Expr::Closure(c) => c,
                    _ => unreachable!(),
                };
                let (recv, rt) = self.expr(&m.receiver, &T::Unknown)?;
                let it = match &rt {
                    T::Opt(t) => (**t).clone(),
                    t => return Err(format!("`unwrap_or_else` on a value of type {:?}", t)),
                };
                let body: Vec<Stmt> = match &*c.body {
                    Expr::Block(b) if b.label.is_none() => b.block.stmts.clone(),
                    other => vec![Stmt::Expr(other.clone(), None)],
                };
                let v = self.fresh_name("v");
                let (blk, bt) = self.sub_block(&body, &it.join(expect))?;
                if !it.compatible(&bt) {
                    return Err(format!("`unwrap_or_else` closure of type {:?} on an option of {:?}", bt, it));
                }
                Ok((Tail::Match(vec![recv], vec![(vec![format!("(some {v})")], Blk::val(X::A(v))), (vec!["none".to_string()], blk)]), it.join(&bt)))
            }
            _ => {
                let (x, t) = self.expr(e, expect)?;
                // a structured value (`matches!`, a tag test) that is the whole tail: its block is the tail
                if let X::Block(b) = &x {
                    if !(matches!((&t, expect), (T::F32, T::Ext))) {
                        let b = (**b).clone();
                        for st in b.stmts {
                            self.emit(st);
                        }
                        return Ok((b.tail, t));
                    }
                }
                let x = if expect.has_unknown() || matches!(expect, T::Var(_)) { x } else { self.coerce_m(x, &t, expect)? };
                let t = if matches!((&t, expect), (T::F32, T::Ext)) { T::Ext } else if matches!((&t, expect), (T::Ext, T::F32)) { T::F32 } else { t };
                // `let t ← m; pure t`  ⇒  `m`
                if let (X::A(n), Some(St::Bind(p, _))) = (&x, self.cur.last()) {
                    if n == p && n.starts_with('t') && n[1..].chars().all(|c| c.is_ascii_digit()) {
                        if let Some(St::Bind(_, m)) = self.cur.pop() {
                            return Ok((Tail::Eff(m), t));
                        }
                    }
                }
                Ok((Tail::Val(x), t))
            }
        }
    }
    /// a block as an expression: inline when it is a plain value, bound first when it can panic
    fn embed(&mut self, b: Blk) -> X {
        if b.stmts.is_empty() {
            if let Tail::Val(x) = &b.tail {
                return x.clone();
            }
        }
        if b.effectful() {
            self.hoist(X::Block(Box::new(b)))
        } else {
            X::Block(Box::new(b))
        }
    }

    fn const_ref(&self, head: &str, name: &str) -> Option<(X, T)> {
        if let Some((l, t)) = self.env.reg.consts.get(&(head.to_string(), name.to_string())) {
            let x = if self.env.mentions_alpha(t) { X::A(format!("({l} (α := α))")) } else { X::A(l.clone()) };
            return Some((x, t.clone()));
        }
        None
    }

    fn path_expr(&mut self, p: &syn::ExprPath, expect: &T) -> R<(X, T)> {
        let segs = path_segs(&p.path);
        if segs.len() == 1 {
            let n = &segs[0];
            if let Some(l) = self.locals.get(n) {
                return Ok((X::A(l.lean.clone()), l.ty.clone()));
            }
            if self.dropped.contains(n) {
                return Err(format!("use of the untranslated parameter `{n}`"));
            }
            if n == "None" {
                let t = match expect {
                    T::Opt(_) => expect.clone(),
                    _ => T::opt(T::Unknown),
                };
                return Ok((X::a("none"), t));
            }
            if let Some((l, t, args)) = self.env.variant(None, n) {
                if args.is_empty() {
                    return Ok((X::A(l), t));
                }
            }
            return Err(format!("unresolved name `{n}`"));
        }
        let tname = &segs[segs.len() - 2];
        let name = &segs[segs.len() - 1];
        if tname == "f32" {
            return match name.as_str() {
                "INFINITY" => Ok((X::a("GridTracks.Ext.inf"), T::Ext)),
                "EPSILON" => Ok((X::a("Num.eps"), T::F32)),
                _ => Err(format!("`f32::{name}` has no counterpart")),
            };
        }
        if let Some(t) = self.type_of_segment(tname) {
            let head = t.head();
            if let Some((l, vt, args)) = self.env.variant(Some(&head), name) {
                if args.is_empty() {
                    return Ok((X::A(l), vt));
                }
            }
            if let Some(c) = self.const_ref(&head, name) {
                return Ok(c);
            }
        }
        Err(format!("unresolved path `{}`", segs.join("::")))
    }

    fn struct_lit(&mut self, s: &syn::ExprStruct, expect: &T) -> R<(X, T)> {
        if s.rest.is_some() {
            return Err("struct update syntax".into());
        }
        let tname = path_segs(&s.path).last().unwrap().clone();
        let ty = self.type_of_segment(&tname).ok_or(format!("struct literal of unknown type {tname}"))?.join(expect);
        let an = match &ty {
            T::Adt(n, _) => n.clone(),
            _ => return Err("struct literal of a non-struct".into()),
        };
        if self.env.reg.strukt(&an).is_none() {
            // a struct of the first translator's registry (`Rect { left, right, top, bottom }`, `Size { width, height }`): its type arguments
            // are read off the field values
            if let Some(a) = self.env.w.adt(&an).cloned() {
                if let AdtKind::Struct(fs) = &a.kind {
                    let mut args: Vec<T> = match &ty {
                        T::Adt(_, args) if args.len() == a.nparams => args.clone(),
                        _ => vec![T::Unknown; a.nparams],
                    };
                    let mut given = vec![];
                    for fv in &s.fields {
                        if !self.cfg.enabled(&fv.attrs)? {
                            continue;
                        }
                        let name = match &fv.member {
                            syn::Member::Named(n) => n.to_string(),
                            _ => return Err("positional struct literal".into()),
                        };
                        let fd = fs.iter().find(|f| f.rust == name).ok_or(format!("struct {an} has no known field `{name}`"))?;
                        let ex = match &fd.ty {
                            Ty::Param(i) => args.get(*i).cloned().unwrap_or(T::Unknown),
                            t => from_ty(t),
                        };
                        let (v, vt) = self.expr(&fv.expr, &ex)?;
                        if !ex.compatible(&vt) {
                            return Err(format!("struct literal of {an}: field `{name}` of type {:?}, expected {:?}", vt, ex));
                        }
                        if let Ty::Param(i) = &fd.ty {
                            if *i < args.len() {
                                args[*i] = args[*i].join(&vt);
                            }
                        }
                        given.push((fd.lean.clone(), v));
                    }
                    for f in fs {
                        if !given.iter().any(|(n, _)| *n == f.lean) {
                            return Err(format!("struct literal of {an} lacks field `{}`", f.rust));
                        }
                    }
                    let ty = T::Adt(an.clone(), args);
                    if ty.has_unknown() {
                        return Err(format!("struct literal of {an}: type arguments not determined"));
                    }
                    return Ok((X::Struct(crate::emit::strip_parens(&self.env.lean_ty(&ty)), given), ty));
                }
            }
        }
        let st = self.env.reg.strukt(&an).ok_or(format!("struct literal of {an}: not a registered struct of this translator"))?.clone();
        let mut given = vec![];
        for fv in &s.fields {
            if !self.cfg.enabled(&fv.attrs)? {
                continue;
            }
            let name = match &fv.member {
                syn::Member::Named(n) => n.to_string(),
                _ => return Err("positional struct literal".into()),
            };
            let fd = st.fields.iter().find(|f| f.0 == name).ok_or(format!("struct {an} has no known field `{name}`"))?;
            let (v, vt) = self.expr(&fv.expr, &fd.2)?;
            let v = self.coerce(v, &vt, &fd.2)?;
            given.push((fd.1.clone(), v));
        }
        for f in &st.fields {
            if !given.iter().any(|(n, _)| *n == f.1) {
                return Err(format!("struct literal of {an} lacks field `{}`", f.0));
            }
        }
        Ok((X::Struct(crate::emit::strip_parens(&self.env.lean_ty(&ty)), given), ty))
    }

    fn binary(&mut self, b: &syn::ExprBinary, _expect: &T) -> R<(X, T)> {
        let bx = |x: X| Box::new(x);
        if let BinOp::And(_) | BinOp::Or(_) = b.op {
            let (l, lt) = self.expr(&b.left, &T::Bool)?;
            // the right operand is evaluated only when the left does not decide: its effects stay in its own block
            let (rb, rt) = self.sub_expr_block(&b.right, &T::Bool)?;
            if lt != T::Bool || rt != T::Bool {
                return Err("`&&`/`||` on non-bools".into());
            }
            let is_and = matches!(b.op, BinOp::And(_));
            if rb.stmts.is_empty() {
                if let Tail::Val(r) = &rb.tail {
                    return Ok((X::Bin(if is_and { "&&" } else { "||" }.into(), bx(l), bx(r.clone())), T::Bool));
                }
            }
            let blk = if is_and {
                Blk { stmts: vec![], tail: Tail::If(l, Box::new(rb), Box::new(Blk::val(X::a("false")))) }
            } else {
                Blk { stmts: vec![], tail: Tail::If(l, Box::new(Blk::val(X::a("true"))), Box::new(rb)) }
            };
            return Ok((self.embed(blk), T::Bool));
        }
        // `a * e >= c` / `a * e < c` with `e` possibly infinite: `x·∞` is ±∞ by the sign of `x` (NaN for 0): `Slice.Ext.mulGe` / `mulLt`
        if matches!(b.op, BinOp::Lt(_) | BinOp::Gt(_) | BinOp::Le(_) | BinOp::Ge(_)) {
            for (prod_e, other_e, prod_left) in [(&*b.left, &*b.right, true), (&*b.right, &*b.left, false)] {
                if let Expr::Binary(m) = strip(prod_e) {
                    if matches!(m.op, BinOp::Mul(_)) {
                        let (tl, tr) = (self.peek_type(&m.left), self.peek_type(&m.right));
                        let (fin_e, ext_e) = match (tl, tr) {
                            (Some(T::F32), Some(T::Ext)) => (&*m.left, &*m.right),
                            (Some(T::Ext), Some(T::F32)) => (&*m.right, &*m.left),
                            _ => continue,
                        };
                        // evaluation order: the operands of the comparison left to right
                        let go = |s: &mut Self| -> R<(X, X)> {
                            let (a, _) = s.expr(fin_e, &T::F32)?;
                            let (e, _) = s.expr(ext_e, &T::Ext)?;
                            Ok((a, e))
                        };
                        let (a, e, c) = if prod_left {
                            let (a, e) = go(self)?;
                            let (c, ct) = self.expr(other_e, &T::F32)?;
                            if ct != T::F32 {
                                return Err("comparison of an extended product with a non-f32".into());
                            }
                            (a, e, c)
                        } else {
                            let (c, ct) = self.expr(other_e, &T::F32)?;
                            if ct != T::F32 {
                                return Err("comparison of an extended product with a non-f32".into());
                            }
                            let (a, e) = go(self)?;
                            (a, e, c)
                        };
                        // normalise to `prod OP c`
                        let f = match (&b.op, prod_left) {
                            (BinOp::Ge(_), true) | (BinOp::Le(_), false) => "Slice.Ext.mulGe",
                            (BinOp::Lt(_), true) | (BinOp::Gt(_), false) => "Slice.Ext.mulLt",
                            _ => return Err(format!("comparison `{}` of a product with a possibly infinite factor", q(b))),
                        };
                        return Ok((X::app(f, vec![a, e, c]), T::Bool));
                    }
                }
            }
        }
        let (mut l, mut lt) = self.expr(&b.left, &T::Unknown)?;
        let (mut r, rt) = self.expr(&b.right, &lt)?;
        if lt == T::IntLit && rt.is_int() {
            lt = rt.clone();
        }
        let rt = if rt == T::IntLit && lt.is_int() { lt.clone() } else { rt };
        // extended floats (`f32` places that can hold `f32::INFINITY`): `+`, `e - x` and the comparisons are closed on `Ext`;
        // `∞·x`, `∞/x`, `x/∞`, `x − ∞` are not (NaN / −∞ / the sign of x): their extended operands must be finite
        // (`Slice.Ext.toFinite`, an explicit outcome)
        if lt == T::Ext || rt == T::Ext {
            let demote_both = matches!(b.op, BinOp::Mul(_) | BinOp::Div(_));
            if self.opts.ext_div && matches!(b.op, BinOp::Div(_)) && lt == T::Ext && rt == T::F32 {
                // `(limit − x) / p` with a possibly infinite limit stays extended (see `Slice.Ext.divF` for the convention)
                return Ok((X::app("Slice.Ext.divF", vec![l, r]), T::Ext));
            }
            if demote_both {
                if lt == T::Ext {
                    l = self.hoist(X::app("Slice.Ext.toFinite", vec![l]));
                    lt = T::F32;
                }
                if rt == T::Ext {
                    r = self.hoist(X::app("Slice.Ext.toFinite", vec![r]));
                }
            } else if matches!(b.op, BinOp::Sub(_)) {
                if rt == T::Ext {
                    r = self.hoist(X::app("Slice.Ext.toFinite", vec![r]));
                }
                if lt == T::Ext {
                    return Ok((X::app("Slice.Ext.subF", vec![l, r]), T::Ext));
                }
            } else if lt == T::F32 {
                l = X::app("GridTracks.Ext.fin", vec![l]);
                lt = T::Ext;
            } else if rt == T::F32 {
                r = X::app("GridTracks.Ext.fin", vec![r]);
            }
        }
        let rt = if lt == T::Ext { T::Ext } else if rt == T::Ext { T::F32 } else { rt };
        if !lt.compatible(&rt) {
            return Err(format!("operands of `{}` have different types {:?} / {:?}", q(b), lt, rt));
        }
        let cmp_int = |op: &str, l: X, r: X| X::app("decide", vec![X::Bin(op.into(), bx(l), bx(r))]);
        // `impl Add for Rect<f32>` / `Size<f32>` as translated in Generated/Geometry.lean
        if let (BinOp::Add(_), T::Adt(n, _)) = (&b.op, &lt) {
            if let Some(f) = self.env.fns(n, "add").into_iter().find(|f| f.self_ty.as_ref() == Some(&lt) && f.params.len() == 1 && f.params[0] == rt) {
                let ret = f.ret.clone();
                return Ok((self.apply(&f, vec![l, r]), ret));
            }
        }
        match (&b.op, &lt) {
            (BinOp::Add(_), T::F32) => Ok((X::Bin("+".into(), bx(l), bx(r)), lt)),
            (BinOp::Sub(_), T::F32) => Ok((X::Bin("-".into(), bx(l), bx(r)), lt)),
            (BinOp::Mul(_), T::F32) => Ok((X::Bin("*".into(), bx(l), bx(r)), lt)),
            (BinOp::Div(_), T::F32) => Ok((X::Bin("/".into(), bx(l), bx(r)), lt)),
            (BinOp::Add(_), T::Ext) => Ok((X::app("Slice.Ext.add", vec![l, r]), lt)),
            (BinOp::Lt(_), T::Ext) => Ok((X::app("Slice.Ext.lt", vec![l, r]), T::Bool)),
            (BinOp::Gt(_), T::Ext) => Ok((X::app("Slice.Ext.lt", vec![r, l]), T::Bool)),
            (BinOp::Le(_), T::Ext) => Ok((X::app("Slice.Ext.le", vec![l, r]), T::Bool)),
            (BinOp::Ge(_), T::Ext) => Ok((X::app("Slice.Ext.le", vec![r, l]), T::Bool)),
            (BinOp::Eq(_), T::Ext) => Ok((X::app("Slice.Ext.feq", vec![l, r]), T::Bool)),
            (BinOp::Ne(_), T::Ext) => Ok((X::Not(bx(X::app("Slice.Ext.feq", vec![l, r]))), T::Bool)),
            (BinOp::Add(_), T::U16) => Ok((self.hoist(X::app("Slice.u16Add", vec![l, r])), lt)),
            (BinOp::Sub(_), T::U16) => Ok((self.hoist(X::app("Slice.u16Sub", vec![l, r])), lt)),
            (BinOp::Mul(_), T::U16) => Ok((self.hoist(X::app("Slice.u16Mul", vec![l, r])), lt)),
            (BinOp::Add(_), T::Usize) => Ok((X::Bin("+".into(), bx(l), bx(r)), lt)),
            (BinOp::Mul(_), T::Usize) => Ok((X::Bin("*".into(), bx(l), bx(r)), lt)),
            (BinOp::Sub(_), T::Usize) => Ok((self.hoist(X::app("Slice.usizeSub", vec![l, r])), lt)),
            // `x % n` with a positive integer literal `n` cannot panic (absmod.rs)
            (BinOp::Rem(_), T::Usize) if matches!(&r, X::A(lit) if lit.parse::<u64>().map(|v| v > 0).unwrap_or(false)) => Ok((X::Bin("%".into(), bx(l), bx(r)), lt)),
            (BinOp::Rem(_), T::Usize) => Ok((self.hoist(X::app("Slice.usizeRem", vec![l, r])), lt)),
            (BinOp::Lt(_), T::F32) => Ok((X::app("Num.flt", vec![l, r]), T::Bool)),
            (BinOp::Gt(_), T::F32) => Ok((X::app("Num.fgt", vec![l, r]), T::Bool)),
            (BinOp::Le(_), T::F32) => Ok((X::app("Num.fle", vec![l, r]), T::Bool)),
            (BinOp::Ge(_), T::F32) => Ok((X::app("Num.fge", vec![l, r]), T::Bool)),
            (BinOp::Lt(_), T::U16 | T::Usize | T::IntLit) => Ok((cmp_int("<", l, r), T::Bool)),
            (BinOp::Gt(_), T::U16 | T::Usize | T::IntLit) => Ok((cmp_int(">", l, r), T::Bool)),
            (BinOp::Le(_), T::U16 | T::Usize | T::IntLit) => Ok((cmp_int("≤", l, r), T::Bool)),
            (BinOp::Ge(_), T::U16 | T::Usize | T::IntLit) => Ok((cmp_int("≥", l, r), T::Bool)),
            // `a | b` on bools: both operands are evaluated (they already are)
            (BinOp::BitOr(_), T::Bool) => Ok((X::Bin("||".into(), bx(l), bx(r)), T::Bool)),
            (BinOp::BitAnd(_), T::Bool) => Ok((X::Bin("&&".into(), bx(l), bx(r)), T::Bool)),
            (BinOp::Eq(_) | BinOp::Ne(_), t) => {
                let eq = match t {
                    T::F32 => X::app("Num.feq", vec![l, r]),
                    T::Bool | T::U16 | T::Usize | T::IntLit => X::Bin("==".into(), bx(l), bx(r)),
                    T::Adt(n, _) => {
                        // derived `PartialEq` on an enum without float payloads (checked when the enum is registered)
                        let ok = self.env.reg.enm(n).map(|e| e.variants.iter().all(|v| v.2.iter().all(|t| !self.env.mentions_alpha(t)))).unwrap_or(false)
                            || self.env.w.adt(n).map(|a| matches!(&a.kind, AdtKind::Enum(vs) if vs.iter().all(|v| v.args.is_empty()))).unwrap_or(false);
                        if !ok {
                            return Err(format!("`==` at type {n} is not modelled"));
                        }
                        X::Bin("==".into(), bx(l), bx(r))
                    }
                    _ => return Err(format!("`==` at type {:?} is not modelled", t)),
                };
                if matches!(b.op, BinOp::Eq(_)) {
                    Ok((eq, T::Bool))
                } else {
                    Ok((X::Not(bx(eq)), T::Bool))
                }
            }
            _ => Err(format!("unsupported operator in `{}` at type {:?}", q(b), lt)),
        }
    }

    fn matches_macro(&mut self, mac: &syn::Macro) -> R<(X, T)> {
        let (scrut, pat, guard) = mac
            .parse_body_with(|input: syn::parse::ParseStream| {
                let e: Expr = input.parse()?;
                let _: syn::Token![,] = input.parse()?;
                let p = Pat::parse_multi_with_leading_vert(input)?;
                let g: Option<Expr> = if input.peek(syn::Token![if]) {
                    let _: syn::Token![if] = input.parse()?;
                    Some(input.parse()?)
                } else {
                    None
                };
                let _: Option<syn::Token![,]> = input.parse()?;
                Ok((e, p, g))
            })
            .map_err(|e| e.to_string())?;
        if guard.is_some() {
            return Err("`matches!` with a guard".into());
        }
        // `matches!(x.0.tag(), TAGS)`
        if let Some(wv) = self.tag_scrutinee(&scrut)? {
            let tags = tag_names(&pat)?;
            return Ok((self.tag_set_test(&wv.0, &wv.1, &tags)?, T::Bool));
        }
        let (s, st) = self.expr(&scrut, &T::Unknown)?;
        let saved = self.locals.clone();
        let alts = self.pat(&pat, &st);
        self.locals = saved;
        let alts = alts?;
        let mut arms: Vec<(Vec<String>, Blk)> = vec![];
        for (p, lets) in alts {
            if !lets.is_empty() {
                return Err("`matches!` with an `@` pattern".into());
            }
            arms.push((vec![p], Blk::val(X::a("true"))));
        }
        arms.push((vec!["_".into()], Blk::val(X::a("false"))));
        Ok((X::Block(Box::new(Blk { stmts: vec![], tail: Tail::Match(vec![s], arms) })), T::Bool))
    }

    // -------------------------------------------------------------------------------------------- the `CompactLength` wrappers
    /// `<x>.0.tag()` with `<x>` of a wrapper type: (the value, its wrapper type name)
    fn tag_scrutinee(&mut self, e: &Expr) -> R<Option<(X, String)>> {
        if let Expr::MethodCall(m) = strip(e) {
            if m.method == "tag" && m.args.is_empty() {
                if let Some(r) = self.wrapper_inner(&m.receiver)? {
                    return Ok(Some(r));
                }
            }
        }
        Ok(None)
    }
    /// `<x>.0` with `<x>` of a wrapper type
    fn wrapper_inner(&mut self, e: &Expr) -> R<Option<(X, String)>> {
        if let Expr::Field(f) = strip(e) {
            if let syn::Member::Unnamed(i) = &f.member {
                if i.index == 0 {
                    let saved = self.cur.len();
                    if let Ok((x, T::Adt(n, _))) = self.expr(&f.base, &T::Unknown) {
                        if self.env.reg.wrap(&n).is_some() {
                            return Ok(Some((x, n)));
                        }
                    }
                    self.cur.truncate(saved);
                }
            }
        }
        Ok(None)
    }
    /// `match x with | <constructors of the tags> => true | _ => false`
    fn tag_set_test(&self, x: &X, wrap: &str, tags: &[String]) -> R<X> {
        let w = self.env.reg.wrap(wrap).unwrap();
        let mut arms = vec![];
        for t in tags {
            if let Some((_, c, payload)) = w.ctors.iter().find(|c| c.0 == *t) {
                arms.push((vec![if *payload { format!("{}.{c} _", w.lean) } else { format!("{}.{c}", w.lean) }], Blk::val(X::a("true"))));
            }
            // a tag that is not a constructor of this wrapper cannot occur (the wrapper's constructors)
        }
        if arms.len() < w.ctors.len() {
            arms.push((vec!["_".into()], Blk::val(X::a("false"))));
        }
        if arms.iter().all(|(_, b)| matches!(&b.tail, Tail::Val(X::A(s)) if s == "false")) {
            return Ok(X::a("false"));
        }
        Ok(X::Block(Box::new(Blk { stmts: vec![], tail: Tail::Match(vec![x.clone()], arms) })))
    }

    // -------------------------------------------------------------------------------------------- match
    /// `match`; `body` translates an arm body into a block
    fn match_tail(&mut self, m: &syn::ExprMatch, expect: &T, body: &mut dyn FnMut(&mut Self, &Expr, &T) -> R<(Blk, T)>) -> R<(Tail, T)> {
        let mut result_ty = expect.clone();
        // tag match on a wrapper
        if let Some((x, wn)) = self.tag_scrutinee(&m.expr)? {
            let w = self.env.reg.wrap(&wn).unwrap().clone();
            let key = x.render(0);
            let mut arms = vec![];
            let mut seen: Vec<String> = vec![];
            for arm in &m.arms {
                if !self.cfg.enabled(&arm.attrs)? {
                    continue;
                }
                match &arm.pat {
                    Pat::Path(pp) => {
                        let name = pp.path.segments.last().unwrap().ident.to_string();
                        if arm.guard.is_some() {
                            return Err("guard on a tag arm".into());
                        }
                        let c = match w.ctors.iter().find(|c| c.0 == name) {
                            Some(c) => c.clone(),
                            None => continue, // a tag this wrapper never carries
                        };
                        let pv = if c.2 { Some("v".to_string()) } else { None };
                        self.tag_payload.push((key.clone(), pv));
                        let r = body(self, &arm.body, &result_ty);
                        self.tag_payload.pop();
                        let (b, bt) = r?;
                        if !result_ty.compatible(&bt) {
                            return Err(format!("tag arms have different types {:?} / {:?}", result_ty, bt));
                        }
                        result_ty = result_ty.join(&bt);
                        arms.push((vec![if c.2 { format!("{}.{} v", w.lean, c.1) } else { format!("{}.{}", w.lean, c.1) }], b));
                        seen.push(c.1);
                    }
                    Pat::Wild(_) => {
                        if let Some((_, g)) = &arm.guard {
                            // `_ if x.0.is_calc()`: calc() is not modelled
                            let is_calc = matches!(strip(g), Expr::MethodCall(mm) if mm.method == "is_calc");
                            if is_calc {
                                continue;
                            }
                            return Err("guarded wildcard arm in a tag match".into());
                        }
                        if matches!(&*arm.body, Expr::Macro(mm) if mm.mac.path.is_ident("unreachable")) {
                            continue;
                        }
                        if seen.len() == w.ctors.len() {
                            continue;
                        }
                        let (b, bt) = body(self, &arm.body, &result_ty)?;
                        if !result_ty.compatible(&bt) {
                            return Err(format!("tag arms have different types {:?} / {:?}", result_ty, bt));
                        }
                        result_ty = result_ty.join(&bt);
                        arms.push((vec!["_".into()], b));
                        seen = w.ctors.iter().map(|c| c.1.clone()).collect();
                    }
                    _ => return Err("unrecognised arm in a tag match".into()),
                }
            }
            for c in &w.ctors {
                if !seen.contains(&c.1) {
                    return Err(format!("tag match does not cover {}", c.0));
                }
            }
            return Ok((Tail::Match(vec![x], arms), result_ty));
        }
        let (sc, st) = self.expr(&m.expr, &T::Unknown)?;
        let mut arms: Vec<(Vec<String>, Blk)> = vec![];
        for arm in &m.arms {
            if !self.cfg.enabled(&arm.attrs)? {
                continue;
            }
            if arm.guard.is_some() {
                return Err("match guard".into());
            }
            let saved = self.locals.clone();
            let alts = self.pat(&arm.pat, &st)?;
            let after_pat = self.locals.clone();
            for (p, lets) in alts {
                self.locals = after_pat.clone();
                let (mut b, bt) = body(self, &arm.body, &result_ty)?;
                if !result_ty.compatible(&bt) {
                    return Err(format!("match arms have different types {:?} / {:?}", result_ty, bt));
                }
                result_ty = result_ty.join(&bt);
                let mut pre: Vec<St> = lets.into_iter().map(|(n, v)| St::Let(n, X::A(v))).collect();
                pre.extend(b.stmts);
                b.stmts = pre;
                arms.push((vec![p], b));
            }
            self.locals = saved;
        }
        Ok((Tail::Match(vec![sc], arms), result_ty))
    }

    // -------------------------------------------------------------------------------------------- patterns
    /// alternatives: (Lean pattern, `@`-bindings as (variable, value)); binders are declared in `self.locals`
    pub fn pat(&mut self, p: &Pat, t: &T) -> R<Vec<(String, Vec<(String, String)>)>> {
        match p {
            Pat::Wild(_) => Ok(vec![("_".into(), vec![])]),
            Pat::Paren(x) => self.pat(&x.pat, t),
            Pat::Reference(r) => self.pat(&r.pat, t),
            Pat::Or(o) => {
                let mut out = vec![];
                for c in &o.cases {
                    out.extend(self.pat(c, t)?);
                }
                Ok(out)
            }
            Pat::Ident(i) => {
                let n = i.ident.to_string();
                if let Some((_, sub)) = &i.subpat {
                    // `x @ (A | B)`: one alternative per constant sub-pattern, `x` bound to it
                    let subs = self.pat(sub, t)?;
                    let ln = self.declare(&n, t.clone());
                    let mut out = vec![];
                    for (sp, lets) in subs {
                        if sp.contains('_') || sp.split(|c: char| !(c.is_alphanumeric() || c == '.' || c == '_')).any(|w| !w.is_empty() && w.chars().next().unwrap().is_lowercase() && !w.contains('.')) {
                            return Err("`@` pattern whose sub-pattern is not a constant".into());
                        }
                        let mut l = lets;
                        l.push((ln.clone(), sp.clone()));
                        out.push((sp, l));
                    }
                    return Ok(out);
                }
                if n == "None" {
                    return Ok(vec![("none".into(), vec![])]);
                }
                if n.chars().next().unwrap().is_uppercase() {
                    if let Some((l, _, args)) = self.env.variant(None, &n) {
                        if args.is_empty() {
                            return Ok(vec![(l, vec![])]);
                        }
                    }
                    return Err(format!("unresolved constant pattern `{n}`"));
                }
                let ln = self.declare(&n, t.clone());
                Ok(vec![(ln, vec![])])
            }
            Pat::Path(pp) => {
                let segs = path_segs(&pp.path);
                let name = segs.last().unwrap();
                let tn = if segs.len() >= 2 { self.type_of_segment(&segs[segs.len() - 2]).map(|t| t.head()) } else { None };
                if let Some((l, _, args)) = self.env.variant(tn.as_deref(), name) {
                    if args.is_empty() {
                        return Ok(vec![(l, vec![])]);
                    }
                }
                Err(format!("unsupported path pattern `{}`", q(pp)))
            }
            Pat::TupleStruct(ts) => {
                let segs = path_segs(&ts.path);
                let name = segs.last().unwrap().clone();
                let (ctor, argtys): (String, Vec<T>) = if name == "Some" && segs.len() == 1 {
                    let inner = match t {
                        T::Opt(x) => (**x).clone(),
                        _ => T::Unknown,
                    };
                    ("some".into(), vec![inner])
                } else {
                    let tn = if segs.len() >= 2 { self.type_of_segment(&segs[segs.len() - 2]).map(|t| t.head()) } else { None };
                    let (l, _, args) = self.env.variant(tn.as_deref(), &name).ok_or(format!("unknown constructor pattern {name}"))?;
                    (l, args)
                };
                if argtys.len() != ts.elems.len() {
                    return Err("constructor pattern arity".into());
                }
                let mut alts: Vec<(String, Vec<(String, String)>)> = vec![(ctor, vec![])];
                for (sp, st) in ts.elems.iter().zip(&argtys) {
                    let subs = self.pat(sp, st)?;
                    let mut next = vec![];
                    for (a, al) in &alts {
                        for (s, sl) in &subs {
                            let mut l = al.clone();
                            l.extend(sl.clone());
                            next.push((format!("{a} {s}"), l));
                        }
                    }
                    alts = next;
                }
                Ok(alts.into_iter().map(|(a, l)| (format!("({a})"), l)).collect())
            }
            Pat::Tuple(tp) => {
                let n = tp.elems.len();
                let tys: Vec<T> = match t {
                    T::Tuple(v) if v.len() == n => v.clone(),
                    _ => vec![T::Unknown; n],
                };
                let mut alts: Vec<(Vec<String>, Vec<(String, String)>)> = vec![(vec![], vec![])];
                for (sp, st) in tp.elems.iter().zip(&tys) {
                    let subs = self.pat(sp, st)?;
                    let mut next = vec![];
                    for (a, al) in &alts {
                        for (s, sl) in &subs {
                            let mut x = a.clone();
                            x.push(s.clone());
                            let mut l = al.clone();
                            l.extend(sl.clone());
                            next.push((x, l));
                        }
                    }
                    alts = next;
                }
                Ok(alts.into_iter().map(|(v, l)| (format!("({})", v.join(", ")), l)).collect())
            }
            Pat::Lit(l) => {
                let s = q(&l.lit);
                if s.chars().all(|c| c.is_ascii_digit()) || s == "true" || s == "false" {
                    Ok(vec![(s, vec![])])
                } else {
                    Err("unsupported literal pattern".into())
                }
            }
            _ => Err(format!("unsupported pattern `{}`", q(p))),
        }
    }
}

/// `let st ← m; let v1 := st.1; …; let vn := st.2…; pure (v1, …, vn)`  ⇒  `m`   (and `let v ← m; pure v` ⇒ `m`):
/// a statement whose assigned locals are exactly what the enclosing block hands on is that block's tail
pub fn fuse_tail(mut b: Blk) -> Blk {
    let names: Vec<String> = match &b.tail {
        Tail::Val(X::Tuple(v)) => v.iter().map(|x| if let X::A(s) = x { s.clone() } else { String::new() }).collect(),
        Tail::Val(X::A(s)) if !s.contains(' ') && !s.contains('.') && !s.contains('(') => vec![s.clone()],
        _ => return b,
    };
    if names.iter().any(|n| n.is_empty()) {
        return b;
    }
    let n = names.len();
    let take = |b: &mut Blk, k: usize| {
        let st = b.stmts.remove(k);
        b.stmts.truncate(k);
        let (m, eff) = match st {
            St::Bind(_, m) => (m, true),
            St::Let(_, m) => (m, false),
        };
        match m {
            X::Block(inner) => {
                b.stmts.extend(inner.stmts);
                b.tail = inner.tail;
            }
            m => b.tail = if eff { Tail::Eff(m) } else { Tail::Val(m) },
        }
    };
    if n == 1 {
        let hit = match b.stmts.last() {
            Some(St::Bind(p, _)) | Some(St::Let(p, _)) => *p == names[0],
            None => false,
        };
        if hit {
            let k = b.stmts.len() - 1;
            take(&mut b, k);
        }
        return b;
    }
    if b.stmts.len() < n + 1 {
        return b;
    }
    let k = b.stmts.len() - n - 1;
    let st_name = match &b.stmts[k] {
        St::Bind(p, _) | St::Let(p, _) => p.clone(),
    };
    for (i, nm) in names.iter().enumerate() {
        match &b.stmts[k + 1 + i] {
            St::Let(p, x) if p == nm && x.render(0) == tuple_proj(X::A(st_name.clone()), i, n).render(0) => {}
            _ => return b,
        }
    }
    take(&mut b, k);
    b
}

/// `.1`, `.2.1`, `.2.2` … of a right-nested tuple
pub fn tuple_proj(x: X, k: usize, n: usize) -> X {
    let mut cur = x;
    for _ in 0..k {
        cur = X::Field(Box::new(cur), "2".into());
    }
    if k + 1 < n {
        cur = X::Field(Box::new(cur), "1".into());
    }
    cur
}

/// the tag constants of a pattern `A_TAG | Self::B_TAG | CompactLength::C_TAG`
fn tag_names(p: &Pat) -> R<Vec<String>> {
    match p {
        Pat::Or(o) => {
            let mut out = vec![];
            for c in &o.cases {
                out.extend(tag_names(c)?);
            }
            Ok(out)
        }
        Pat::Paren(x) => tag_names(&x.pat),
        Pat::Path(pp) => Ok(vec![pp.path.segments.last().unwrap().ident.to_string()]),
        Pat::Ident(i) if i.subpat.is_none() => Ok(vec![i.ident.to_string()]),
        _ => Err(format!("unrecognised tag pattern `{}`", q(p))),
    }
}

/// read `CompactLength::is_*` off the source: `matches!(self.tag(), TAGS)` or `self.tag() == Self::TAG`
pub fn compact_length_predicates(repo: &str) -> R<HashMap<String, Vec<String>>> {
    let file = crate::util::parse_file(&format!("{repo}/src/style/compact_length.rs"))?;
    let env = CfgEnv::default_build();
    let mut out = HashMap::new();
    for it in &file.items {
        if let syn::Item::Impl(im) = it {
            if im.trait_.is_some() || crate::emit::norm(&im.self_ty) != "CompactLength" || !env.enabled(&im.attrs)? {
                continue;
            }
            for ii in &im.items {
                if let syn::ImplItem::Fn(f) = ii {
                    let name = f.sig.ident.to_string();
                    if !name.starts_with("is_") && name != "uses_percentage" {
                        continue;
                    }
                    if !env.enabled(&f.attrs)? {
                        continue;
                    }
                    // the body: one expression, possibly inside cfg-gated blocks; `|| self.is_calc()` is dropped (calc() is not modelled)
                    let mut body: Option<&Expr> = None;
                    for st in &f.block.stmts {
                        match st {
                            Stmt::Expr(Expr::Block(b), _) => {
                                if env.enabled(&b.attrs)? {
                                    if let [Stmt::Expr(e, None)] = b.block.stmts.as_slice() {
                                        body = Some(e);
                                    }
                                }
                            }
                            Stmt::Expr(e, None) => body = Some(e),
                            _ => {}
                        }
                    }
                    let mut e = match body {
                        Some(e) => e,
                        None => continue,
                    };
                    if let Expr::Binary(b) = e {
                        if matches!(b.op, BinOp::Or(_)) && crate::emit::norm(&b.right) == "self.is_calc()" {
                            e = &b.left;
                        }
                    }
                    let tags = match e {
                        Expr::Macro(m) if m.mac.path.is_ident("matches") => {
                            let r = m.mac.parse_body_with(|input: syn::parse::ParseStream| {
                                let e: Expr = input.parse()?;
                                let _: syn::Token![,] = input.parse()?;
                                let p = Pat::parse_multi_with_leading_vert(input)?;
                                let _: Option<syn::Token![,]> = input.parse()?;
                                Ok((e, p))
                            });
                            match r {
                                Ok((s, p)) if crate::emit::norm(&s) == "self.tag()" => tag_names(&p).ok(),
                                _ => None,
                            }
                        }
                        Expr::Binary(b) if matches!(b.op, BinOp::Eq(_)) && crate::emit::norm(&b.left) == "self.tag()" => match &*b.right {
                            Expr::Path(p) => Some(vec![p.path.segments.last().unwrap().ident.to_string()]),
                            _ => None,
                        },
                        _ => None,
                    };
                    if let Some(t) = tags {
                        out.insert(name, t);
                    }
                }
            }
        }
    }
    Ok(out)
}

// ================================================================================================ calls, methods, iterators

impl<'a> Cx<'a> {
    /// the type of an expression, without keeping what translating it emitted
    fn peek_type(&mut self, e: &Expr) -> Option<T> {
        let n = self.cur.len();
        let (f, nc, loc) = (self.fresh, self.numcast, self.locals.clone());
        let r = self.expr(e, &T::Unknown).ok().map(|x| x.1);
        self.cur.truncate(n);
        self.fresh = f;
        self.numcast = nc;
        self.locals = loc;
        r
    }

    /// an untranslated parameter passed on, or the calc resolver of an untranslated tree: `|val, basis| tree.calc(val, basis)`
    fn is_dropped_arg(&self, e: &Expr) -> bool {
        match strip(e) {
            Expr::Path(p) => p.path.get_ident().map(|i| self.dropped.contains(&i.to_string())).unwrap_or(false),
            Expr::Closure(c) => {
                let ps: Vec<String> = c.inputs.iter().map(|p| crate::emit::norm(p)).collect();
                let body = crate::emit::norm(&c.body);
                // `|val, basis| { tree.resolve_calc_value(val, basis) }`: a block of one expression
                let body = if body.starts_with('{') && body.ends_with('}') && !body.contains(';') { body[1..body.len() - 1].to_string() } else { body };
                ps.len() == 2 && self.dropped.iter().any(|d| body == format!("{d}.calc({},{})", ps[0], ps[1]) || body == format!("{d}.resolve_calc_value({},{})", ps[0], ps[1]))
            }
            _ => false,
        }
    }

    /// arguments of a call of a translated function (the trailing `calc` resolver is passed on untranslated)
    fn args_of(&mut self, f: &SFn, args: &[&Expr], what: &str, sub: &mut HashMap<String, T>) -> R<Vec<X>> {
        let mut args: Vec<&Expr> = args.to_vec();
        for i in f.dropped_pos.iter().rev() {
            if *i < args.len() && self.is_dropped_arg(args[*i]) {
                args.remove(*i);
            } else {
                return Err(format!("call of {what}: the untranslated argument is not passed through unchanged"));
            }
        }
        for _ in 0..f.dropped {
            match args.pop() {
                Some(e) if self.is_dropped_arg(e) => {}
                _ => return Err(format!("call of {what}: the untranslated trailing argument is not passed through unchanged")),
            }
        }
        if args.len() != f.params.len() {
            return Err(format!("arity mismatch calling {what}"));
        }
        let mut out = vec![];
        for (a, pt) in args.iter().zip(f.params.iter()) {
            let pt_i = pt.subst(sub);
            if let T::Fn(ps, r) = &pt_i {
                let (l, _, eff) = self.fn_value(a, ps, r)?;
                if eff {
                    return Err(format!("call of {what}: a closure argument that can panic"));
                }
                out.push(l);
                continue;
            }
            let (l, t) = self.expr(a, &pt_i)?;
            let (l, t) = if matches!((&t, &pt_i), (T::Ext, T::F32)) { (self.hoist(X::app("Slice.Ext.toFinite", vec![l])), T::F32) } else { (l, t) };
            if !pt.unify(&t, sub) && !matches!((&t, &pt_i), (T::F32, T::Ext)) {
                return Err(format!("argument of type {:?} where {what} expects {:?}", t, pt));
            }
            let l = if matches!((&t, &pt_i), (T::F32, T::Ext)) { X::app("GridTracks.Ext.fin", vec![l]) } else { l };
            out.push(l);
        }
        Ok(out)
    }

    /// the application; bound first when the callee can panic
    fn apply(&mut self, f: &SFn, args: Vec<X>) -> X {
        if f.numcast {
            self.numcast = true;
        }
        let term = if args.is_empty() && f.alpha { X::A(format!("({} (α := α))", f.lean)) } else { X::App(f.lean.clone(), args) };
        if f.eff {
            self.hoist(term)
        } else {
            term
        }
    }

    /// a function-valued argument: a closure literal or a function-typed local
    fn fn_value(&mut self, e: &Expr, ptys: &[T], expect_ret: &T) -> R<(X, T, bool)> {
        match strip(e) {
            Expr::Closure(_) => self.closure(e, ptys, expect_ret, false),
            Expr::Path(p) if p.path.get_ident().is_some() => {
                let n = p.path.get_ident().unwrap().to_string();
                if let Some(Local { lean, ty: T::Fn(ps, r), .. }) = self.locals.get(&n).cloned() {
                    if ps.len() == ptys.len() {
                        return Ok((X::A(lean), *r, false));
                    }
                }
                Err(format!("unresolved function argument `{n}`"))
            }
            _ => Err(format!("unsupported function argument `{}`", q(e))),
        }
    }

    /// a closure literal: (the Lean function, its result type, whether its body can panic)
    pub(crate) fn closure(&mut self, e: &Expr, ptys: &[T], expect_ret: &T, force_m: bool) -> R<(X, T, bool)> {
        let c = match strip(e) {
            Expr::Closure(c) => c,
            _ => return Err("a closure literal is required here".into()),
        };
        if c.inputs.len() != ptys.len() {
            return Err("closure arity".into());
        }
        let saved = self.locals.clone();
        let saved_cur = std::mem::take(&mut self.cur);
        let mut ps = vec![];
        let mut pre: Vec<St> = vec![];
        let r = (|| -> R<(Blk, T)> {
            for (p, t) in c.inputs.iter().zip(ptys) {
                let mut p = match p {
                    Pat::Type(pt) => &*pt.pat,
                    p => p,
                };
                while let Pat::Reference(r) = p {
                    p = &*r.pat;
                }
                match p {
                    Pat::Ident(i) => {
                        let n = self.declare(&i.ident.to_string(), t.clone());
                        if t.has_unknown() {
                            ps.push(n);
                        } else {
                            ps.push(format!("({n} : {})", crate::emit::strip_parens(&self.env.lean_ty(t))));
                        }
                    }
                    Pat::Wild(_) => ps.push("_".into()),
                    Pat::Tuple(tp) => {
                        let tys = match t {
                            T::Tuple(v) if v.len() == tp.elems.len() => v.clone(),
                            _ => return Err("closure tuple parameter against a non-tuple".into()),
                        };
                        let pn = self.fresh_name("p");
                        ps.push(pn.clone());
                        for (k, (sp, st)) in tp.elems.iter().zip(&tys).enumerate() {
                            match sp {
                                Pat::Ident(i) => {
                                    let n = self.declare(&i.ident.to_string(), st.clone());
                                    pre.push(St::Let(n, tuple_proj(X::A(pn.clone()), k, tys.len())));
                                }
                                Pat::Wild(_) => {}
                                _ => return Err("nested closure parameter pattern".into()),
                            }
                        }
                    }
                    _ => return Err("closure parameter pattern".into()),
                }
            }
            self.sub_expr_block(&c.body, expect_ret)
        })();
        self.locals = saved;
        let extra = std::mem::replace(&mut self.cur, saved_cur);
        let (mut b, bt) = r?;
        if !extra.is_empty() {
            return Err("internal: statements escaped a closure".into());
        }
        pre.extend(b.stmts);
        b.stmts = pre;
        let eff = b.effectful();
        Ok((X::Fun(ps, Box::new(b), force_m), bt, eff))
    }

    /// `Self(<payload>)` for a wrapper of `CompactLength`
    fn wrapper_ctor(&mut self, wn: &str, arg: &Expr) -> R<(X, T)> {
        let w = self.env.reg.wrap(wn).unwrap().clone();
        let ty = T::adt(wn);
        let by_tag = |tag: &str, payload: Option<X>| -> R<(X, T)> {
            let c = w.ctors.iter().find(|c| c.0 == tag).ok_or(format!("{wn} has no value with {tag}"))?;
            Ok((X::App(format!("{}.{}", w.lean, c.1), payload.into_iter().collect()), ty.clone()))
        };
        match strip(arg) {
            Expr::Path(p) => match path_segs(&p.path).iter().map(|s| s.as_str()).collect::<Vec<_>>().as_slice() {
                ["CompactLength", "ZERO"] if self.env.w.length_ctors_checked => by_tag("LENGTH_TAG", Some(X::a("0"))),
                ["CompactLength", "AUTO"] if self.env.w.length_ctors_checked => by_tag("AUTO_TAG", None),
                ["CompactLength", c] if self.env.reg.consts.contains_key(&("CompactLength".to_string(), c.to_string())) => {
                    let tag = self.env.reg.consts[&("CompactLength".to_string(), c.to_string())].0.clone();
                    by_tag(&tag, None)
                }
                _ => Err(format!("unrecognised length payload `{}`", q(arg))),
            },
            // `Self(x.0)`: the same tag and payload in another wrapper
            Expr::Field(_) => {
                if let Some((x, from)) = self.wrapper_inner(arg)? {
                    let fw = self.env.reg.wrap(&from).unwrap().clone();
                    let mut arms = vec![];
                    for c in &fw.ctors {
                        let to = w.ctors.iter().find(|d| d.0 == c.0).ok_or(format!("{wn} has no value with {} (conversion from {from})", c.0))?;
                        if c.2 {
                            arms.push((vec![format!("{}.{} v", fw.lean, c.1)], Blk::val(X::App(format!("{}.{}", w.lean, to.1), vec![X::a("v")]))));
                        } else {
                            arms.push((vec![format!("{}.{}", fw.lean, c.1)], Blk::val(X::A(format!("{}.{}", w.lean, to.1)))));
                        }
                    }
                    return Ok((X::Block(Box::new(Blk { stmts: vec![], tail: Tail::Match(vec![x], arms) })), ty));
                }
                // `Self(x.0)` where `x` is one of the world's lengths (LengthPercentage …)
                if let Expr::Field(f) = strip(arg) {
                    if matches!(&f.member, syn::Member::Unnamed(i) if i.index == 0) {
                        let (x, xt) = self.expr(&f.base, &T::Unknown)?;
                        if let T::Adt(n, _) = &xt {
                            if let Some(a) = self.env.w.adt(n) {
                                if let AdtKind::Length(vs) = &a.kind {
                                    let mut arms = vec![];
                                    for (tag, ctor, payload) in vs {
                                        let to = w.ctors.iter().find(|d| d.0 == *tag).ok_or(format!("{wn} has no value with {tag} (conversion from {n})"))?;
                                        if *payload {
                                            arms.push((vec![format!("{}.{ctor} v", a.lean)], Blk::val(X::App(format!("{}.{}", w.lean, to.1), vec![X::a("v")]))));
                                        } else {
                                            arms.push((vec![format!("{}.{ctor}", a.lean)], Blk::val(X::A(format!("{}.{}", w.lean, to.1)))));
                                        }
                                    }
                                    return Ok((X::Block(Box::new(Blk { stmts: vec![], tail: Tail::Match(vec![x], arms) })), ty));
                                }
                            }
                        }
                    }
                }
                Err(format!("unrecognised length payload `{}`", q(arg)))
            }
            _ => Err(format!("unrecognised length payload `{}`", q(arg))),
        }
    }

    fn call(&mut self, c: &syn::ExprCall, expect: &T) -> R<(X, T)> {
        let p = match &*c.func {
            Expr::Path(p) => p,
            _ => return Err("call of a non-path".into()),
        };
        let segs = path_segs(&p.path);
        let name = segs.last().unwrap().clone();
        let args: Vec<&Expr> = c.args.iter().collect();
        if segs.len() == 1 {
            if let Some(Local { lean, ty: T::Fn(ps, r), .. }) = self.locals.get(&name).cloned() {
                if ps.len() != args.len() {
                    return Err(format!("arity mismatch calling the closure `{name}`"));
                }
                let mut ls = vec![];
                for (a, pt) in args.iter().zip(&ps) {
                    let (al, at) = self.expr(a, pt)?;
                    if !pt.compatible(&at) {
                        return Err(format!("argument of type {:?} where the closure `{name}` expects {:?}", at, pt));
                    }
                    ls.push(al);
                }
                return Ok((X::App(lean, ls), *r));
            }
            if name == "Some" && args.len() == 1 {
                let inner = match expect {
                    T::Opt(t) => (**t).clone(),
                    _ => T::Unknown,
                };
                let (v, vt) = self.expr(args[0], &inner)?;
                return Ok((X::app("some", vec![v]), T::opt(vt)));
            }
            if args.len() == 1 {
                let wt = if name == "Self" { self.self_ty.clone() } else { self.type_of_segment(&name) };
                if let Some(T::Adt(wn, _)) = &wt {
                    if self.env.reg.wrap(wn).is_some() {
                        return self.wrapper_ctor(&wn.clone(), args[0]);
                    }
                }
            }
            if let Some(f) = self.local_fns.get(&name).cloned() {
                if !f.muts.is_empty() {
                    return Err(format!("`{name}` updates an argument: only usable as a call statement"));
                }
                let ls = self.args_of(&f, &args, &name, &mut HashMap::new())?;
                return Ok((self.apply(&f, ls), f.ret.clone()));
            }
            if let Some((l, t, vargs)) = self.env.variant(None, &name) {
                if vargs.len() == args.len() && !vargs.is_empty() {
                    return self.variant_app(l, t, &vargs, &args);
                }
            }
            // `f32_min` with an operand that can be infinite
            if name == "f32_min" && args.len() == 2 {
                let ts: Vec<Option<T>> = args.iter().map(|a| self.peek_type(a)).collect();
                if ts[0] == Some(T::Ext) && ts[1] == Some(T::F32) {
                    // the minimum with a finite value is finite
                    let (e, _) = self.expr(args[0], &T::Ext)?;
                    let (x, _) = self.expr(args[1], &T::F32)?;
                    return Ok((X::app("Slice.Ext.minF", vec![e, x]), T::F32));
                }
                if ts.iter().any(|t| *t == Some(T::Ext)) {
                    let mut ls = vec![];
                    for a in &args {
                        let (x, t) = self.expr(a, &T::Ext)?;
                        ls.push(self.coerce(x, &t, &T::Ext)?);
                    }
                    return Ok((X::app("Slice.Ext.min", ls), T::Ext));
                }
            }
            let fs = self.env.fns("", &name);
            if let Some(f) = fs.first().cloned() {
                if !f.muts.is_empty() {
                    return Err(format!("`{name}` updates an argument: only usable as a call statement"));
                }
                let mut sub = HashMap::new();
                let ls = self.args_of(&f, &args, &name, &mut sub)?;
                return Ok((self.apply(&f, ls), f.ret.subst(&sub)));
            }
            return Err(format!("call of unknown function `{name}`"));
        }
        let tname = &segs[segs.len() - 2];
        if tname == "iter" && name == "repeat" && args.len() == 1 {
            let inner = match expect {
                T::Stream(t) => (**t).clone(),
                _ => T::Unknown,
            };
            let (v, vt) = self.expr(args[0], &inner)?;
            return Ok((X::app("Slice.Stream.repeat", vec![v]), T::Stream(Box::new(vt))));
        }
        let t = self.type_of_segment(tname).ok_or(format!("call into unknown type `{tname}`"))?;
        let head = t.head();
        if let Some((l, vt, vargs)) = self.env.variant(Some(&head), &name) {
            if vargs.len() == args.len() && !vargs.is_empty() {
                return self.variant_app(l, vt, &vargs, &args);
            }
        }
        let fs = self.env.fns(&head, &name);
        let first_ty = if fs.len() > 1 && !args.is_empty() { self.peek_type(args[0]) } else { None };
        for f in fs {
            match &f.self_ty {
                None => {
                    if f.params.len() + f.dropped + f.dropped_pos.len() != args.len() || !f.ret.compatible(expect) {
                        continue;
                    }
                    if let (Some(ft), Some(p0)) = (&first_ty, f.params.first()) {
                        if !p0.compatible(ft) {
                            continue;
                        }
                    }
                    if !f.muts.is_empty() {
                        return Err(format!("`{head}::{name}` updates an argument: only usable as a call statement"));
                    }
                    let mut sub = HashMap::new();
                    let ls = self.args_of(&f, &args, &format!("{head}::{name}"), &mut sub)?;
                    return Ok((self.apply(&f, ls), f.ret.subst(&sub)));
                }
                Some(st) => {
                    // `Type::method(receiver, args…)`
                    if !f.muts.is_empty() || f.params.len() + f.dropped + f.dropped_pos.len() + 1 != args.len() {
                        continue;
                    }
                    let (s, sty) = self.expr(args[0], st)?;
                    let mut sub = HashMap::new();
                    if !st.unify(&sty, &mut sub) {
                        continue;
                    }
                    let mut ls = vec![s];
                    ls.extend(self.args_of(&f, &args[1..], &format!("{head}::{name}"), &mut sub)?);
                    return Ok((self.apply(&f, ls), f.ret.subst(&sub)));
                }
            }
        }
        Err(format!("call of untranslated function `{}`", segs.join("::")))
    }

    fn variant_app(&mut self, ctor: String, t: T, vargs: &[T], args: &[&Expr]) -> R<(X, T)> {
        let mut ls = vec![];
        for (a, vt) in args.iter().zip(vargs) {
            let (l, at) = self.expr(a, vt)?;
            if !vt.compatible(&at) {
                return Err(format!("constructor {ctor} applied to a value of type {:?}", at));
            }
            ls.push(l);
        }
        Ok((X::App(ctor, ls), t))
    }

    /// an iterator expression consumed by a loop: a `List`
    fn iter_list(&mut self, e: &Expr) -> R<(X, T)> {
        if let Expr::Range(r) = strip(e) {
            if matches!(r.limits, syn::RangeLimits::HalfOpen(_)) {
                let hi = r.end.as_ref().ok_or("open range")?;
                let (h, ht) = self.expr(hi, &T::Unknown)?;
                if !ht.is_int() {
                    return Err("range bound is not an integer".into());
                }
                let lo = match &r.start {
                    None => None,
                    Some(s) => {
                        let (l, lt) = self.expr(s, &ht)?;
                        if !lt.is_int() {
                            return Err("range bound is not an integer".into());
                        }
                        if matches!(&l, X::A(z) if z == "0") {
                            None
                        } else {
                            Some(l)
                        }
                    }
                };
                let et = if ht == T::IntLit { T::Usize } else { ht };
                return Ok(match lo {
                    None => (X::app("List.range", vec![h]), et),
                    Some(l) => (X::app("List.range'", vec![l.clone(), X::Bin("-".into(), Box::new(h), Box::new(l))]), et),
                });
            }
            return Err("inclusive range".into());
        }
        let (x, t) = self.expr(e, &T::Unknown)?;
        match t {
            T::List(et) => Ok((x, *et)),
            T::Stream(_) => Err("loop over an iterator that may be infinite".into()),
            t => Err(format!("loop over a value of type {:?}", t)),
        }
    }

    fn method_call(&mut self, m: &syn::ExprMethodCall, expect: &T) -> R<(X, T)> {
        let name = m.method.to_string();
        let args: Vec<&Expr> = m.args.iter().collect();
        // the wrappers of `CompactLength`
        if let Some((x, wn)) = self.wrapper_inner(&m.receiver)? {
            let key = x.render(0);
            if name == "value" && args.is_empty() {
                if let Some((_, pv)) = self.tag_payload.iter().rev().find(|(k, _)| *k == key) {
                    return match pv {
                        Some(v) => Ok((X::A(v.clone()), T::F32)),
                        None => Err("`.0.value()` in the arm of a tag without payload".into()),
                    };
                }
                // outside a tag match: the payload (0 for a value without one: the upper bits of those constants are zero)
                let w = self.env.reg.wrap(&wn).unwrap().clone();
                return Ok((X::App(format!("Slice.{}.payload", w.lean.rsplit('.').next().unwrap()), vec![x]), T::F32));
            }
            if name == "is_calc" && args.is_empty() {
                return Ok((X::a("false"), T::Bool));
            }
            if args.is_empty() {
                if let Some(tags) = self.env.reg.cl_preds.get(&name).cloned() {
                    return Ok((self.tag_set_test(&x, &wn, &tags)?, T::Bool));
                }
            }
            return Err(format!("`{}`: method `{name}` of CompactLength is not translated", q(m)));
        }
        if name == "map" && args.len() == 1 && tracks2::roots_in_iter_mut(&m.receiver) {
            return self.iter_mut_filter_map(m);
        }
        // `.map(f).sum()`: the closure may panic
        if name == "sum" && args.is_empty() {
            return self.sum(m, expect);
        }
        // `it.next()` of an iterator held in a local
        if name == "next" && args.is_empty() {
            if let Expr::Path(p) = strip(&m.receiver) {
                if let Some(n) = p.path.get_ident().map(|i| i.to_string()) {
                    if let Some(Local { lean, ty: T::Stream(et), .. }) = self.locals.get(&n).cloned() {
                        let tmp = self.fresh_name("nx");
                        self.emit(St::Let(tmp.clone(), X::app("Slice.Stream.next", vec![X::A(lean.clone())])));
                        self.emit(St::Let(lean, X::Field(Box::new(X::A(tmp.clone())), "2".into())));
                        return Ok((X::Field(Box::new(X::A(tmp)), "1".into()), T::Opt(et)));
                    }
                }
            }
            return Err("`next()` on something that is not an iterator held in a local".into());
        }
        // a method of the untranslated `tree` parameter that is a program node (interaction form): `tree.measure_child_size(…)`
        if self.opts.prog_mode {
            if let Expr::Path(p) = strip(&m.receiver) {
                if p.path.get_ident().map(|i| self.dropped.contains(&i.to_string())).unwrap_or(false) {
                    if let Some((_, op)) = self.opts.tree_calls.iter().find(|(n, _)| *n == name).cloned() {
                        let mut ls = vec![];
                        for a in &args {
                            let (x, t) = self.expr(a, &T::Unknown)?;
                            if t.has_unknown() {
                                return Err(format!("argument `{}` of `{name}`: type not determined", q(a)));
                            }
                            ls.push(x);
                        }
                        return Ok((self.hoist(X::App(op, ls)), T::F32));
                    }
                }
            }
        }
        let (recv, rt) = self.expr(&m.receiver, &T::Unknown)?;
        let view: Option<String> = match strip(&m.receiver) {
            Expr::Path(p) => p.path.get_ident().and_then(|i| self.views.get(&i.to_string()).cloned()),
            _ => None,
        };
        // translated methods
        let fs = self.env.fns(&rt.head(), &name);
        let fs: Vec<SFn> = fs
            .into_iter()
            .filter(|s| match &view {
                // a style seen through `GridContainerStyle` also has the getters of its supertrait `CoreStyle`
                Some(v) => s.lean.contains(&format!(".{v}.")) || s.lean.contains(".CoreStyle."),
                None => true,
            })
            .collect();
        let first_ty = if fs.len() > 1 && !args.is_empty() { self.peek_type(args[0]) } else { None };
        for f in fs.iter() {
            if let Some(st) = &f.self_ty {
                let mut sub = HashMap::new();
                if st.unify(&rt, &mut sub) && f.params.len() + f.dropped + f.dropped_pos.len() == args.len() {
                    if let (Some(ft), Some(p0)) = (&first_ty, f.params.first()) {
                        if !matches!(p0, T::Fn(..)) && !p0.subst(&sub).compatible(ft) {
                            continue;
                        }
                    }
                    if !f.muts.is_empty() {
                        return Err(format!("`{name}` updates its receiver: only usable as a statement"));
                    }
                    let mut ls = vec![recv];
                    ls.extend(self.args_of(f, &args, &format!("{}::{name}", rt.head()), &mut sub)?);
                    return Ok((self.apply(f, ls), f.ret.subst(&sub)));
                }
            }
        }
        let one = |s: &mut Self, pt: &T| -> R<(X, T)> {
            if args.len() != 1 {
                return Err(format!("method `{name}` takes one argument"));
            }
            let (l, t) = s.expr(args[0], pt)?;
            if !pt.compatible(&t) {
                return Err(format!("argument of `{name}` has type {:?}", t));
            }
            Ok((l, t))
        };
        let none = args.is_empty();
        match (&rt, name.as_str()) {
            (T::F32, "min") => Ok((X::app("Num.fmin", vec![recv, one(self, &T::F32)?.0]), T::F32)),
            (T::F32, "max") => Ok((X::app("Num.fmax", vec![recv, one(self, &T::F32)?.0]), T::F32)),
            (T::F32, "abs" | "round" | "floor" | "ceil") if none => Ok((X::app(&format!("Num.{name}"), vec![recv]), T::F32)),
            (T::U16, "saturating_sub") => Ok((X::app("Slice.u16SatSub", vec![recv, one(self, &T::U16)?.0]), T::U16)),
            (T::U16, "saturating_add") => Ok((X::app("Slice.u16SatAdd", vec![recv, one(self, &T::U16)?.0]), T::U16)),
            (T::Opt(_), "is_some") if none => Ok((X::app("Option.isSome", vec![recv]), T::Bool)),
            (T::Opt(_), "is_none") if none => Ok((X::app("Option.isNone", vec![recv]), T::Bool)),
            (T::Opt(t), "unwrap") if none => Ok((self.hoist(X::app("Slice.unwrap", vec![recv])), (**t).clone())),
            (T::Opt(t), "unwrap_or") => {
                if args.len() == 1 && **t == T::F32 {
                    if let Some(T::Ext) = self.peek_type(args[0]) {
                        // `x.unwrap_or(f32::INFINITY)`
                        let (d, _) = self.expr(args[0], &T::Ext)?;
                        return Ok((X::app("Option.getD", vec![X::app("Option.map", vec![X::a("GridTracks.Ext.fin"), recv]), d]), T::Ext));
                    }
                }
                let (d, dt) = one(self, t)?;
                Ok((X::app("Option.getD", vec![recv, d]), t.join(&dt)))
            }
            // `o.or_else(|| { …; if c { return e; } …; e' })`: the closure's block runs only when `o` is `None` (a `return` inside it leaves the closure)
            (T::Opt(_), "or_else") if args.len() == 1 => {
                let c = match strip(args[0]) {
                    Expr::Closure(c) if c.inputs.is_empty() => c,
                    _ => return Err("`or_else` without a closure literal".into()),
                };
                let body: Vec<Stmt> = match &*c.body {
                    Expr::Block(b) if b.label.is_none() => b.block.stmts.clone(),
                    other => vec![Stmt::Expr(other.clone(), None)],
                };
                let o = self.fresh_name("o");
                self.emit(St::Let(o.clone(), recv));
                let (blk, bt) = self.sub_block(&body, &rt)?;
                if !rt.compatible(&bt) {
                    return Err(format!("`or_else` closure of type {:?} on a value of type {:?}", bt, rt));
                }
                let keep = Blk::val(X::A(o.clone()));
                Ok((self.embed(Blk { stmts: vec![], tail: Tail::If(X::app("Option.isSome", vec![X::A(o)]), Box::new(keep), Box::new(blk)) }), rt.join(&bt)))
            }
            (T::Opt(_), "or") => {
                let (d, dt) = one(self, &rt)?;
                Ok((X::app("Option.or", vec![recv, d]), rt.join(&dt)))
            }
            (T::Opt(t), "map") if args.len() == 1 => {
                let exp_ret = match expect {
                    T::Opt(x) => (**x).clone(),
                    _ => T::Unknown,
                };
                let (f, ft, eff) = self.fn_value(args[0], &[(**t).clone()], &exp_ret)?;
                if eff {
                    return Err("`Option::map` with a closure that can panic".into());
                }
                Ok((X::app("Option.map", vec![f, recv]), T::opt(ft)))
            }
            (T::List(_) | T::Stream(_), "iter" | "copied" | "cloned" | "into_iter") if none => Ok((recv, rt.clone())),
            (T::List(_), "is_empty") if none => Ok((X::app("List.isEmpty", vec![recv]), T::Bool)),
            (T::List(_), "len" | "count") if none => Ok((X::app("List.length", vec![recv]), T::Usize)),
            (T::List(_), "rev") if none => Ok((X::app("List.reverse", vec![recv]), rt.clone())),
            (T::List(t), "min_by") if args.len() == 1 => self.min_by(recv, t, args[0]),
            (T::List(t), "max_by") if args.len() == 1 => self.max_by(recv, t, args[0]),
            (T::List(t), "map") if args.len() == 1 => {
                let (f, ft, eff) = self.fn_value(args[0], &[(**t).clone()], &T::Unknown)?;
                if eff {
                    return Err("`map` with a closure that can panic is only translated when `sum()` consumes it directly".into());
                }
                Ok((X::app("List.map", vec![f, recv]), T::list(ft)))
            }
            (T::List(t), "filter") if args.len() == 1 => {
                let (f, ft, eff) = self.closure(args[0], &[(**t).clone()], &T::Bool, false)?;
                if ft != T::Bool || eff {
                    return Err("`filter` closure: not a pure predicate".into());
                }
                Ok((X::app("List.filter", vec![f, recv]), rt.clone()))
            }
            // `(a..b).any(|i| p(i))` on a `Range<usize>` held as the pair of its bounds: the indexes front to back, stopping at the first `true`
            // (a panic of `p` at a later index does not happen): `Slice.rangeAnyM`; pure `p`: `List.any (List.range' a (b - a))`
            (T::Tuple(ts), "any") if args.len() == 1 && ts.len() == 2 && ts[0] == T::Usize && ts[1] == T::Usize => {
                let (f, ft, eff) = self.closure(args[0], &[T::Usize], &T::Bool, true)?;
                if ft != T::Bool {
                    return Err("`any` closure: not a predicate".into());
                }
                let _ = eff;
                Ok((self.hoist(X::app("Slice.rangeAnyM", vec![recv, f])), T::Bool))
            }
            (T::List(t), "any" | "all") if args.len() == 1 => {
                let (f, ft, eff) = self.fn_value(args[0], &[(**t).clone()], &T::Bool)?;
                if ft != T::Bool || eff {
                    return Err(format!("`{name}` closure: not a pure predicate"));
                }
                Ok((X::app(if name == "any" { "List.any" } else { "List.all" }, vec![recv, f]), T::Bool))
            }
            (T::List(t), "find_map") if args.len() == 1 => {
                let (f, ft, eff) = self.closure(args[0], &[(**t).clone()], &T::Unknown, false)?;
                let inner = match ft {
                    T::Opt(x) if !eff => *x,
                    _ => return Err("`find_map` closure: not a pure function into `Option`".into()),
                };
                Ok((X::app("List.findSome?", vec![f, recv]), T::opt(inner)))
            }
            (T::List(t), "cycle") if none => Ok((X::app("Slice.Stream.cycle", vec![recv]), T::Stream(t.clone()))),
            // `it.step_by(n)` with a positive integer literal `n` (`step_by(0)` panics): the elements at positions 0, n, 2n, … (absmod.rs)
            (T::List(_), "step_by") => {
                let (n, _) = one(self, &T::Usize)?;
                match &n {
                    X::A(lit) if lit.parse::<u64>().map(|v| v > 0).unwrap_or(false) => Ok((X::app("Slice.stepBy", vec![n, recv]), rt.clone())),
                    _ => Err("`step_by` with a step that is not a positive integer literal".into()),
                }
            }
            (T::List(_), "take") => Ok((X::app("List.take", vec![one(self, &T::Usize)?.0, recv]), rt.clone())),
            (T::List(_), "skip") => Ok((X::app("List.drop", vec![one(self, &T::Usize)?.0, recv]), rt.clone())),
            (T::Stream(_), "skip") => Ok((X::app("Slice.Stream.skip", vec![one(self, &T::Usize)?.0, recv]), rt.clone())),
            (T::Stream(t), "take") => Ok((X::app("Slice.Stream.take", vec![one(self, &T::Usize)?.0, recv]), T::List(t.clone()))),
            _ => Err(format!("method `{name}` on {:?} is not in the whitelist", rt)),
        }
    }

    /// `l.sum()` / `l.map(f).sum()`
    fn sum(&mut self, m: &syn::ExprMethodCall, expect: &T) -> R<(X, T)> {
        // the element type named by a turbofish
        let mut want = match expect {
            T::F32 | T::U16 => expect.clone(),
            _ => T::Unknown,
        };
        if let Some(tf) = &m.turbofish {
            if let Some(syn::GenericArgument::Type(t)) = tf.args.first() {
                want = self.rust_ty(t)?;
            }
        }
        let (list, f, ft, eff): (X, Option<X>, T, bool) = match strip(&m.receiver) {
            Expr::MethodCall(mm) if mm.method == "map" && mm.args.len() == 1 => {
                let (l, lt) = self.expr(&mm.receiver, &T::Unknown)?;
                let et = match lt {
                    T::List(t) => *t,
                    t => return Err(format!("`map(..).sum()` over a value of type {:?}", t)),
                };
                let (f, ft, eff) = if matches!(strip(&mm.args[0]), Expr::Closure(_)) { self.closure(&mm.args[0], &[et], &want, want == T::U16)? } else { self.fn_value(&mm.args[0], &[et], &want)? };
                (l, Some(f), ft, eff)
            }
            r => {
                let (l, lt) = self.expr(r, &T::Unknown)?;
                match lt {
                    T::List(t) => (l, None, *t, false),
                    t => return Err(format!("`sum()` over a value of type {:?}", t)),
                }
            }
        };
        let et = ft.join(&want);
        match et {
            T::U16 => {
                let f = f.unwrap_or(X::a("(fun x => pure x)"));
                Ok((self.hoist(X::app("Slice.sumU16M", vec![f, list])), T::U16))
            }
            T::F32 => match (f, eff) {
                (None, _) => Ok((X::app("Slice.sumF32", vec![list]), T::F32)),
                (Some(f), false) => Ok((X::app("Slice.sumF32", vec![X::app("List.map", vec![f, list])]), T::F32)),
                (Some(f), true) => Ok((self.hoist(X::app("Slice.sumF32M", vec![f, list])), T::F32)),
            },
            // `impl Sum<Option<f32>> for Option<f32>`: `None` at the first `None`, otherwise the `f32` sum of the payloads
            T::Opt(ref it) if **it == T::F32 => match (f, eff) {
                (None, _) => Ok((X::app("Slice.sumOptF32", vec![list]), T::opt(T::F32))),
                (Some(f), false) => Ok((X::app("Slice.sumOptF32", vec![X::app("List.map", vec![f, list])]), T::opt(T::F32))),
                (Some(_), true) => Err("`sum::<Option<f32>>()` of a closure that can panic".into()),
            },
            t => Err(format!("`sum()` at element type {:?}", t)),
        }
    }
}

// ================================================================================================ statements

impl<'a> Cx<'a> {
    fn local_mut_fns(&self) -> Vec<(String, Vec<usize>)> {
        self.local_fns.iter().filter(|(_, f)| !f.muts.is_empty()).map(|(n, f)| (n.clone(), f.muts.clone())).collect()
    }

    /// the locals declared outside `stmts` that `stmts` assign, in declaration order
    fn assigned_outer_stmts(&self, stmts: &[&Stmt], exprs: &[&Expr]) -> R<Vec<String>> {
        use syn::visit::Visit;
        let mut sc = AssignScan { reg: self.env.reg, local_mut_fns: self.local_mut_fns(), assigned: vec![], declared: vec![] };
        for s in stmts {
            sc.visit_stmt(s);
        }
        for e in exprs {
            sc.visit_expr(e);
        }
        let mut v: Vec<String> = sc.assigned.iter().filter(|n| self.locals.contains_key(*n)).cloned().collect();
        for n in &v {
            if sc.declared.contains(n) {
                return Err(format!("`{n}` is assigned and also re-declared inside a nested block"));
            }
        }
        v.sort_by_key(|n| self.locals[n].seq);
        Ok(v)
    }

    fn vars_tuple(&self, vars: &[String]) -> X {
        let xs: Vec<X> = vars.iter().map(|v| X::A(self.locals[v].lean.clone())).collect();
        match xs.len() {
            0 => X::a("()"),
            1 => xs.into_iter().next().unwrap(),
            _ => X::Tuple(xs),
        }
    }

    /// bind the new values of `vars` computed by `blk`
    fn rebind(&mut self, vars: &[String], blk: Blk) {
        let eff = blk.effectful();
        let x = match (&blk.tail, blk.stmts.is_empty()) {
            (Tail::Val(x), true) | (Tail::Eff(x), true) => x.clone(),
            _ => X::Block(Box::new(blk)),
        };
        let mk = |p: String, x: X| if eff { St::Bind(p, x) } else { St::Let(p, x) };
        match vars.len() {
            0 => {
                if eff {
                    self.emit(mk("_".into(), x));
                }
            }
            1 => {
                let l = self.locals[&vars[0]].lean.clone();
                self.emit(mk(l, x));
            }
            n => {
                let st = self.fresh_name("st");
                self.emit(mk(st.clone(), x));
                for (k, v) in vars.iter().enumerate() {
                    let l = self.locals[v].lean.clone();
                    self.emit(St::Let(l, tuple_proj(X::A(st.clone()), k, n)));
                }
            }
        }
    }

    /// statements executed for their assignments; the block's value is the tuple of `vars`
    fn stmt_block(&mut self, stmts: &[Stmt], vars: &[String]) -> R<Blk> {
        let saved_locals = self.locals.clone();
        let saved_cur = std::mem::take(&mut self.cur);
        let r = (|| -> R<X> {
            for st in stmts {
                self.stmt(st)?;
            }
            Ok(self.vars_tuple(vars))
        })();
        let out = std::mem::replace(&mut self.cur, saved_cur);
        self.locals = saved_locals;
        Ok(fuse_tail(Blk { stmts: out, tail: Tail::Val(r?) }))
    }

    /// one statement in statement position
    fn stmt(&mut self, st: &Stmt) -> R<()> {
        match st {
            Stmt::Item(syn::Item::Use(_)) => Ok(()),
            Stmt::Item(syn::Item::Fn(f)) if self.local_fns.contains_key(&f.sig.ident.to_string()) => Ok(()),
            Stmt::Item(syn::Item::Fn(f)) => self.nested_fn(f),
            Stmt::Item(syn::Item::Const(c)) => self.nested_const(c),
            Stmt::Item(_) => Err("nested item".into()),
            Stmt::Macro(m) if is_skipped_macro(&m.mac) => Ok(()),
            Stmt::Macro(m) => Err(format!("unsupported statement macro `{}`", q(m))),
            Stmt::Local(l) => {
                if !self.cfg.enabled(&l.attrs)? {
                    return Ok(());
                }
                self.local(l)
            }
            Stmt::Expr(e, _) => {
                if !self.cfg.enabled(crate::expr::expr_attrs_pub(e))? {
                    return Ok(());
                }
                self.stmt_expr(e)
            }
        }
    }

    fn nested_fn(&mut self, f: &syn::ItemFn) -> R<()> {
        let name = f.sig.ident.to_string();
        let plan = FnPlan { head: String::new(), rust_name: name.clone(), lean_name: format!("{}.{}", self.lean_name, ident(&name)), self_ty: None, generics: HashMap::new(), sig: &f.sig, block: &f.block, doc: Some(format!(" (nested in `{}`)", self.lean_name)), ext_ret: false, loop_fuel: self.opts.nested_fuel.clone(), opts: self.opts.clone() };
        let (text, sig) = translate_fn(self.env.w, self.env.reg, &plan)?;
        self.nested_text.push_str(&text);
        self.local_fns.insert(name, sig);
        Ok(())
    }

    fn local(&mut self, l: &syn::Local) -> R<()> {
        let (pat, ann) = match &l.pat {
            Pat::Type(pt) => (&*pt.pat, Some(self.rust_ty(&pt.ty)?)),
            p => (p, None),
        };
        let init = match l.init.as_ref() {
            Some(i) => i,
            None => {
                // `let mut x;`: no value yet (Rust's definite-assignment check: never read before the first assignment)
                return match pat {
                    Pat::Ident(i) if i.subpat.is_none() => {
                        self.declare(&i.ident.to_string(), ann.unwrap_or(T::Unknown));
                        Ok(())
                    }
                    _ => Err("`let` without initialiser".into()),
                };
            }
        };
        if init.diverge.is_some() {
            return Err("let-else".into());
        }
        if self.let_mut_call(pat, &init.expr)? || self.let_item_call(pat, &init.expr)? || self.let_match_assigning(pat, &init.expr)? || self.let_mut_method(pat, &init.expr)? || self.let_unwrap_or_else(pat, &init.expr)? {
            return Ok(());
        }
        let ex = ann.clone().unwrap_or(T::Unknown);
        let (v, vt) = self.expr(&init.expr, &ex)?;
        let (v, vt) = match &ann {
            Some(a) => (self.coerce(v, &vt, a)?, if matches!((&vt, a), (T::F32, T::Ext)) { T::Ext } else { vt.join(a) }),
            None => (v, vt),
        };
        match pat {
            Pat::Ident(i) if i.subpat.is_none() => {
                let rn = i.ident.to_string();
                self.views.remove(&rn);
                let n = self.declare(&rn, vt);
                self.emit_let(n, v);
                Ok(())
            }
            Pat::Wild(_) => {
                self.emit(St::Let("_".into(), v));
                Ok(())
            }
            Pat::Tuple(tp) => {
                let tys = match &vt {
                    T::Tuple(ts) if ts.len() == tp.elems.len() => ts.clone(),
                    _ => return Err("tuple pattern against a non-tuple".into()),
                };
                let base = match &v {
                    X::A(s) if !s.contains(' ') => v.clone(),
                    _ => {
                        let tmp = self.fresh_name("tmp");
                        self.emit(St::Let(tmp.clone(), v));
                        X::A(tmp)
                    }
                };
                for (k, (sp, st)) in tp.elems.iter().zip(&tys).enumerate() {
                    match sp {
                        Pat::Ident(i) if i.subpat.is_none() => {
                            let n = self.declare(&i.ident.to_string(), st.clone());
                            self.emit(St::Let(n, tuple_proj(base.clone(), k, tys.len())));
                        }
                        Pat::Wild(_) => {}
                        _ => return Err("nested pattern in a tuple `let`".into()),
                    }
                }
                Ok(())
            }
            // `let Size { width, height } = e;` (shorthand fields of a struct): one projection per field
            Pat::Struct(ps) if ps.rest.is_none() && ps.qself.is_none() => {
                let base = match &v {
                    X::A(s) if !s.contains(' ') => v.clone(),
                    _ => {
                        let tmp = self.fresh_name("tmp");
                        self.emit(St::Let(tmp.clone(), v));
                        X::A(tmp)
                    }
                };
                let tn = path_segs(&ps.path).last().cloned().unwrap_or_default();
                match &vt {
                    T::Adt(n, _) if *n == tn => {}
                    _ => return Err(format!("struct pattern `{tn}` against a value of type {:?}", vt)),
                }
                for fp in &ps.fields {
                    let fname = match &fp.member {
                        syn::Member::Named(n) => n.to_string(),
                        _ => return Err("positional struct pattern".into()),
                    };
                    let (lf, ft) = self.env.field(&vt, &fname)?;
                    match &*fp.pat {
                        Pat::Ident(i) if i.subpat.is_none() && i.by_ref.is_none() => {
                            let n = self.declare(&i.ident.to_string(), ft);
                            self.emit(St::Let(n, X::Field(Box::new(base.clone()), lf)));
                        }
                        Pat::Wild(_) => {}
                        _ => return Err("nested pattern in a struct `let`".into()),
                    }
                }
                Ok(())
            }
            _ => Err("unsupported `let` pattern".into()),
        }
    }

    /// the new value of the root local of a place after `v` is stored in it
    fn assign_into(&mut self, lhs: &Expr, v: X) -> R<(String, X)> {
        match lhs {
            Expr::Paren(p) => self.assign_into(&p.expr, v),
            Expr::Unary(u) if matches!(u.op, UnOp::Deref(_)) => self.assign_into(&u.expr, v),
            Expr::Reference(r) => self.assign_into(&r.expr, v),
            Expr::Path(p) => {
                let n = p.path.get_ident().ok_or("assignment to a path")?.to_string();
                let l = self.locals.get(&n).cloned().ok_or(format!("assignment to non-local `{n}`"))?;
                Ok((l.lean, v))
            }
            Expr::Field(f) => {
                let (b, bt) = self.expr(&f.base, &T::Unknown)?;
                let fname = match &f.member {
                    syn::Member::Named(n) => n.to_string(),
                    _ => return Err("assignment to a tuple field".into()),
                };
                let (lf, _) = self.env.field(&bt, &fname)?;
                self.assign_into(&f.base, X::With(Box::new(b), vec![(lf, v)]))
            }
            _ => Err(format!("unsupported assignment target `{}`", q(lhs))),
        }
    }

    fn assign(&mut self, lhs: &Expr, rhs: &Expr) -> R<()> {
        // the first assignment of a local declared without initialiser gives it its type
        if let Expr::Path(p) = strip(lhs) {
            if let Some(n) = p.path.get_ident().map(|i| i.to_string()) {
                if matches!(self.locals.get(&n), Some(Local { ty: T::Unknown, .. })) {
                    let (v, vt) = self.expr(rhs, &T::Unknown)?;
                    let l = self.locals.get_mut(&n).unwrap();
                    l.ty = vt;
                    let lean = l.lean.clone();
                    self.emit_let(lean, v);
                    return Ok(());
                }
            }
        }
        let (_, lt) = self.expr(lhs, &T::Unknown)?;
        let (v, vt) = self.expr(rhs, &lt)?;
        let v = self.coerce_m(v, &vt, &lt)?;
        let (n, x) = self.assign_into(lhs, v)?;
        self.emit(St::Let(n, x));
        Ok(())
    }

    fn stmt_expr(&mut self, e: &Expr) -> R<()> {
        match e {
            Expr::Paren(p) => self.stmt_expr(&p.expr),
            Expr::Tuple(t) if t.elems.is_empty() => Ok(()),
            Expr::Assign(a) => self.assign(&a.left, &a.right),
            Expr::Binary(b) if compound_op(&b.op).is_some() => {
                let rhs = Expr::Binary(syn::ExprBinary { attrs: vec![], left: b.left.clone(), op: compound_op(&b.op).unwrap(), right: b.right.clone() });
                self.assign(&b.left, &rhs)
            }
            Expr::Block(b) => {
                let st: Vec<&Stmt> = b.block.stmts.iter().collect();
                let vars = self.assigned_outer_stmts(&st, &[])?;
                let blk = self.stmt_block(&b.block.stmts, &vars)?;
                self.rebind(&vars, blk);
                Ok(())
            }
            Expr::If(i) => {
                if matches!(&*i.cond, Expr::Let(_)) {
                    return Err("`if let` statement".into());
                }
                let vars = self.assigned_outer_stmts(&[], &[e])?;
                let blk = self.if_blk(i, &vars)?;
                self.rebind(&vars, blk);
                Ok(())
            }
            Expr::Match(m) => {
                let vars = self.assigned_outer_stmts(&[], &[e])?;
                let vs = vars.clone();
                let (tail, _) = self.match_tail(m, &T::Unknown, &mut |s: &mut Self, body: &Expr, _ex: &T| {
                    let b = match body {
                        Expr::Block(b) => s.stmt_block(&b.block.stmts, &vs)?,
                        other => {
                            let st = Stmt::Expr(other.clone(), None);
                            s.stmt_block(std::slice::from_ref(&st), &vs)?
                        }
                    };
                    Ok((b, T::Unknown))
                })?;
                self.rebind(&vars, Blk { stmts: vec![], tail });
                Ok(())
            }
            Expr::ForLoop(f) => {
                if f.label.is_some() {
                    return Err("labelled loop".into());
                }
                self.fold_loop(&f.pat, &f.expr, &f.body.stmts)
            }
            Expr::Loop(l) => {
                if l.label.is_some() {
                    return Err("labelled loop".into());
                }
                self.fuel_loop(&l.body.stmts)
            }
            Expr::While(w) => self.while_loop(w),
            Expr::MethodCall(m) => self.stmt_method(m),
            Expr::Call(c) => self.stmt_call(c),
            Expr::Macro(m) if is_skipped_macro(&m.mac) => Ok(()),
            _ => Err(format!("expression statement `{}` is outside the fragment", q(e))),
        }
    }

    fn if_blk(&mut self, i: &syn::ExprIf, vars: &[String]) -> R<Blk> {
        let (c, ct) = self.expr(&i.cond, &T::Bool)?;
        if ct != T::Bool {
            return Err("`if` condition is not a bool".into());
        }
        let a = self.stmt_block(&i.then_branch.stmts, vars)?;
        let b = match &i.else_branch {
            None => Blk::val(self.vars_tuple(vars)),
            Some((_, eb)) => match &**eb {
                Expr::Block(b) => self.stmt_block(&b.block.stmts, vars)?,
                Expr::If(j) if !matches!(&*j.cond, Expr::Let(_)) => {
                    // the condition of the `else if` is evaluated inside the else branch
                    let saved_locals = self.locals.clone();
                    let saved_cur = std::mem::take(&mut self.cur);
                    let r = self.if_blk(j, vars);
                    let pre = std::mem::replace(&mut self.cur, saved_cur);
                    self.locals = saved_locals;
                    let mut inner = r?;
                    let mut stmts = pre;
                    stmts.extend(inner.stmts);
                    inner.stmts = stmts;
                    inner
                }
                _ => return Err("unsupported `else` branch".into()),
            },
        };
        Ok(Blk { stmts: vec![], tail: Tail::If(c, Box::new(a), Box::new(b)) })
    }

    /// `for x in v.iter_mut()[.filter(p)] { body assigning x }` (also `for x in v` for a `&mut [T]` parameter `v`, and the `for_each`
    /// form): `v := v.map (fun x => if p x then (body; x) else x)`; the body may assign nothing but `x`
    fn map_loop(&mut self, pat: &Pat, it: &Expr, body: &[Stmt]) -> R<()> {
        // peel `.filter(p)`* and `.iter_mut()`
        let mut filters: Vec<&Expr> = vec![];
        let mut cur = strip(it);
        loop {
            match cur {
                Expr::MethodCall(m) if m.method == "filter" && m.args.len() == 1 => {
                    filters.push(&m.args[0]);
                    cur = strip(&m.receiver);
                }
                Expr::MethodCall(m) if m.method == "iter_mut" && m.args.is_empty() => {
                    cur = strip(&m.receiver);
                    break;
                }
                _ => break,
            }
        }
        filters.reverse();
        let place = cur;
        let (list, lt) = self.expr(place, &T::Unknown)?;
        let et = match lt {
            T::List(t) => *t,
            t => return Err(format!("mutable iteration over a value of type {:?}", t)),
        };
        let var = match pat {
            Pat::Ident(i) if i.subpat.is_none() => i.ident.to_string(),
            _ => return Err("loop pattern".into()),
        };
        let st: Vec<&Stmt> = body.iter().collect();
        let outer = self.assigned_outer_stmts(&st, &[])?;
        if !outer.is_empty() {
            return self.map_accum_loop(&var, place, &filters, body, &outer);
        }
        let saved_locals = self.locals.clone();
        let saved_cur = std::mem::take(&mut self.cur);
        let r = (|| -> R<(String, Vec<X>)> {
            let x = self.declare(&var, et.clone());
            let mut preds = vec![];
            for f in &filters {
                let c = match strip(f) {
                    Expr::Closure(c) if c.inputs.len() == 1 => c,
                    _ => return Err("`filter` without a closure literal".into()),
                };
                let pn = match &c.inputs[0] {
                    Pat::Ident(i) => i.ident.to_string(),
                    Pat::Type(pt) => match &*pt.pat {
                        Pat::Ident(i) => i.ident.to_string(),
                        _ => return Err("`filter` closure parameter".into()),
                    },
                    _ => return Err("`filter` closure parameter".into()),
                };
                let keep = self.locals.get(&pn).cloned();
                self.locals.insert(pn.clone(), Local { lean: x.clone(), ty: et.clone(), seq: 0 });
                let n0 = self.cur.len();
                let r = self.expr(&c.body, &T::Bool);
                match keep {
                    Some(k) => self.locals.insert(pn, k),
                    None => self.locals.remove(&pn),
                };
                let (px, pt) = r?;
                if pt != T::Bool || self.cur.len() != n0 {
                    return Err("`filter` closure: not a pure predicate".into());
                }
                preds.push(px);
            }
            Ok((x, preds))
        })();
        let (x, preds) = match r {
            Ok(v) => v,
            Err(e) => {
                self.cur = saved_cur;
                self.locals = saved_locals;
                return Err(e);
            }
        };
        let r2 = (|| -> R<()> {
            for s in body {
                self.stmt(s)?;
            }
            Ok(())
        })();
        let out = std::mem::replace(&mut self.cur, saved_cur);
        let xl = self.locals.get(&var).map(|l| l.lean.clone()).unwrap_or(x.clone());
        self.locals = saved_locals;
        r2?;
        let mut blk = fuse_tail(Blk { stmts: out, tail: Tail::Val(X::A(xl)) });
        let eff = blk.effectful();
        if !preds.is_empty() {
            let mut c = preds[0].clone();
            for p in &preds[1..] {
                c = X::Bin("&&".into(), Box::new(c), Box::new(p.clone()));
            }
            blk = Blk { stmts: vec![], tail: Tail::If(c, Box::new(blk), Box::new(Blk::val(X::A(x.clone())))) };
        }
        let f = X::Fun(vec![x], Box::new(blk), false);
        let term = X::app(if eff { "List.mapM" } else { "List.map" }, vec![f, list]);
        let v = if eff { self.hoist(term) } else { term };
        let (n, nv) = self.assign_into(place, v)?;
        self.emit_let(n, nv);
        Ok(())
    }

    /// `loop { body; if c { break; } }`: `Slice.loop fuel state (fun state => (state', c))` — at most `fuel` iterations; running out of fuel
    /// leaves the loop like a `break` (the convention of the hand-written models, which prove which fuel is never exhausted)
    fn fuel_loop(&mut self, body: &[Stmt]) -> R<()> {
        let fuel = self.loop_fuel.clone().ok_or("`loop` in a function for which no fuel is given")?;
        let (last, init) = body.split_last().ok_or("empty `loop`")?;
        let cond = match last {
            Stmt::Expr(Expr::If(i), _) if i.else_branch.is_none() && matches!(i.then_branch.stmts.as_slice(), [Stmt::Expr(Expr::Break(b), _)] if b.label.is_none() && b.expr.is_none()) => &*i.cond,
            _ => return Err("`loop` whose body does not end in `if c { break; }`".into()),
        };
        {
            use syn::visit::Visit;
            struct Brk(bool);
            impl<'ast> Visit<'ast> for Brk {
                fn visit_expr_break(&mut self, _: &'ast syn::ExprBreak) {
                    self.0 = true;
                }
                fn visit_expr_continue(&mut self, _: &'ast syn::ExprContinue) {
                    self.0 = true;
                }
                fn visit_expr_return(&mut self, _: &'ast syn::ExprReturn) {
                    self.0 = true;
                }
            }
            let mut v = Brk(false);
            for s in init {
                v.visit_stmt(s);
            }
            if v.0 {
                return Err("`break` / `continue` / `return` inside a `loop` other than the final `if c { break; }`".into());
            }
        }
        let st: Vec<&Stmt> = init.iter().collect();
        let vars = self.assigned_outer_stmts(&st, &[])?;
        // a state variable declared without initialiser: its type is that of its first assignment in the body; its value before is never read
        for v in &vars {
            if self.locals[v].ty == T::Unknown {
                let (n, f, nc, loc) = (self.cur.len(), self.fresh, self.numcast, self.locals.clone());
                let mut found = T::Unknown;
                for s in init {
                    if self.stmt(s).is_err() {
                        break;
                    }
                    if let Some(l) = self.locals.get(v) {
                        if l.ty != T::Unknown {
                            found = l.ty.clone();
                            break;
                        }
                    }
                }
                self.cur.truncate(n);
                self.fresh = f;
                self.numcast = nc;
                self.locals = loc;
                if found == T::Unknown {
                    return Err(format!("`{v}` is declared without initialiser and its type cannot be determined"));
                }
                let lean = self.locals[v].lean.clone();
                self.emit(St::Let(lean, X::A(format!("(default : {})", crate::emit::strip_parens(&self.env.lean_ty(&found))))));
                self.locals.get_mut(v).unwrap().ty = found;
            }
        }
        let saved_locals = self.locals.clone();
        let saved_cur = std::mem::take(&mut self.cur);
        let mut params: Vec<String> = vec![];
        let r = (|| -> R<X> {
            match vars.len() {
                0 => params.push("_".into()),
                1 => params.push(self.locals[&vars[0]].lean.clone()),
                n => {
                    let stn = self.fresh_name("st");
                    params.push(stn.clone());
                    for (k, v) in vars.iter().enumerate() {
                        let l = self.locals[v].lean.clone();
                        self.emit(St::Let(l, tuple_proj(X::A(stn.clone()), k, n)));
                    }
                }
            }
            for s in init {
                self.stmt(s)?;
            }
            let (c, ct) = self.expr(cond, &T::Bool)?;
            if ct != T::Bool {
                return Err("`if` condition is not a bool".into());
            }
            Ok(X::Tuple(vec![self.vars_tuple(&vars), c]))
        })();
        let out = std::mem::replace(&mut self.cur, saved_cur);
        self.locals = saved_locals;
        let blk = Blk { stmts: out, tail: Tail::Val(r?) };
        let eff = blk.effectful();
        let f = X::Fun(params, Box::new(blk), false);
        let init_x = self.vars_tuple(&vars);
        let term = X::app(if eff { "Slice.loopM" } else { "Slice.loop" }, vec![X::A(fuel), init_x, f]);
        self.rebind(&vars, Blk { stmts: vec![], tail: if eff { Tail::Eff(term) } else { Tail::Val(term) } });
        Ok(())
    }

    /// does the loop body assign (fields of) the loop variable?
    fn assigns_loop_var(&self, pat: &Pat, body: &[Stmt]) -> bool {
        use syn::visit::Visit;
        let var = match pat {
            Pat::Ident(i) => i.ident.to_string(),
            _ => return false,
        };
        let mut sc = AssignScan { reg: self.env.reg, local_mut_fns: self.local_mut_fns(), assigned: vec![], declared: vec![] };
        for s in body {
            sc.visit_stmt(s);
        }
        sc.assigned.contains(&var)
    }

    /// `for pat in it { body }` / `it.for_each(|pat| body)`: a fold over the list, the state = the outer locals the body assigns
    fn fold_loop(&mut self, pat: &Pat, it: &Expr, body: &[Stmt]) -> R<()> {
        if self.assigns_loop_var(pat, body) {
            return self.map_loop(pat, it, body);
        }
        // `for x in v.iter_mut() { x.f = … }`  ⇒  `v := v.map (fun x => …; x)` when the body assigns nothing else
        let (list, et) = self.iter_list(it)?;
        let st: Vec<&Stmt> = body.iter().collect();
        let vars = self.assigned_outer_stmts(&st, &[])?;
        let saved_locals = self.locals.clone();
        let saved_cur = std::mem::take(&mut self.cur);
        let mut params: Vec<String> = vec![];
        let r = (|| -> R<X> {
            match vars.len() {
                0 => params.push("_".into()),
                1 => params.push(self.locals[&vars[0]].lean.clone()),
                n => {
                    let stn = self.fresh_name("st");
                    params.push(stn.clone());
                    for (k, v) in vars.iter().enumerate() {
                        let l = self.locals[v].lean.clone();
                        self.emit(St::Let(l, tuple_proj(X::A(stn.clone()), k, n)));
                    }
                }
            }
            let mut p = pat;
            while let Pat::Reference(r) = p {
                p = &*r.pat;
            }
            match p {
                Pat::Ident(i) if i.subpat.is_none() => {
                    let n = self.declare(&i.ident.to_string(), et.clone());
                    params.push(n);
                }
                Pat::Wild(_) => params.push("_".into()),
                _ => return Err("loop pattern".into()),
            }
            for s in body {
                self.stmt(s)?;
            }
            Ok(self.vars_tuple(&vars))
        })();
        let out = std::mem::replace(&mut self.cur, saved_cur);
        self.locals = saved_locals;
        let blk = fuse_tail(Blk { stmts: out, tail: Tail::Val(r?) });
        let eff = blk.effectful();
        let f = X::Fun(params, Box::new(blk), false);
        let init = self.vars_tuple(&vars);
        let term = X::app(if eff { "List.foldlM" } else { "List.foldl" }, vec![f, init, list]);
        self.rebind(&vars, Blk { stmts: vec![], tail: if eff { Tail::Eff(term) } else { Tail::Val(term) } });
        Ok(())
    }

    /// `v.iter_mut().enumerate().for_each(|(i, x)| { body })` where the body may assign the element `x` and outer locals:
    /// `Slice.mapIdxAccum (fun i st x => body; (x, st)) v st` — the new list and the final state (Model/SliceOps.lean). The body
    /// must not be able to panic. (absmod.rs: `align_tracks`)
    fn enum_accum_loop(&mut self, ipat: &Pat, xpat: &Pat, place: &Expr, body: &[Stmt]) -> R<()> {
        let (list, lt) = self.expr(place, &T::Unknown)?;
        let et = match lt {
            T::List(t) => *t,
            t => return Err(format!("mutable iteration over a value of type {:?}", t)),
        };
        let name_of = |p: &Pat| -> R<String> {
            match p {
                Pat::Ident(i) if i.subpat.is_none() => Ok(i.ident.to_string()),
                _ => Err("loop pattern".to_string()),
            }
        };
        let (ivar, xvar) = (name_of(ipat)?, name_of(xpat)?);
        let st: Vec<&Stmt> = body.iter().collect();
        let vars: Vec<String> = self.assigned_outer_stmts(&st, &[])?.into_iter().filter(|v| *v != ivar && *v != xvar).collect();
        let saved_locals = self.locals.clone();
        let saved_cur = std::mem::take(&mut self.cur);
        let mut params: Vec<String> = vec![];
        let r = (|| -> R<X> {
            params.push(self.declare(&ivar, T::Usize));
            match vars.len() {
                0 => params.push("_".into()),
                1 => params.push(self.locals[&vars[0]].lean.clone()),
                n => {
                    let stn = self.fresh_name("st");
                    params.push(stn.clone());
                    for (k, v) in vars.iter().enumerate() {
                        let l = self.locals[v].lean.clone();
                        self.emit(St::Let(l, tuple_proj(X::A(stn.clone()), k, n)));
                    }
                }
            }
            params.push(self.declare(&xvar, et.clone()));
            for s in body {
                self.stmt(s)?;
            }
            let xl = self.locals[&xvar].lean.clone();
            Ok(X::Tuple(vec![X::A(xl), self.vars_tuple(&vars)]))
        })();
        let out = std::mem::replace(&mut self.cur, saved_cur);
        self.locals = saved_locals;
        let blk = fuse_tail(Blk { stmts: out, tail: Tail::Val(r?) });
        if blk.effectful() {
            return Err("a loop over enumerated `&mut` elements whose body can panic".into());
        }
        let f = X::Fun(params, Box::new(blk), false);
        let init = self.vars_tuple(&vars);
        let rn = self.fresh_name("r");
        self.emit(St::Let(rn.clone(), X::app("Slice.mapIdxAccum", vec![f, list, init])));
        let (n, nv) = self.assign_into(place, X::Field(Box::new(X::A(rn.clone())), "1".into()))?;
        self.emit(St::Let(n, nv));
        self.rebind(&vars, Blk { stmts: vec![], tail: Tail::Val(X::Field(Box::new(X::A(rn)), "2".into())) });
        Ok(())
    }

    fn stmt_method(&mut self, m: &syn::ExprMethodCall) -> R<()> {
        let name = m.method.to_string();
        let args: Vec<&Expr> = m.args.iter().collect();
        if name == "for_each" && args.len() == 1 {
            if let Expr::Closure(c) = strip(args[0]) {
                if c.inputs.len() != 1 {
                    return Err("`for_each` closure arity".into());
                }
                let body: Vec<Stmt> = match &*c.body {
                    Expr::Block(b) => b.block.stmts.clone(),
                    other => vec![Stmt::Expr(other.clone(), Some(Default::default()))],
                };
                let pat = match &c.inputs[0] {
                    Pat::Type(pt) => (*pt.pat).clone(),
                    p => p.clone(),
                };
                // `v.iter_mut().enumerate().for_each(|(i, x)| …)` (absmod.rs)
                if let (Pat::Tuple(tp), Expr::MethodCall(en)) = (&pat, strip(&m.receiver)) {
                    if en.method == "enumerate" && en.args.is_empty() && tp.elems.len() == 2 {
                        if let Expr::MethodCall(im) = strip(&en.receiver) {
                            if im.method == "iter_mut" && im.args.is_empty() {
                                return self.enum_accum_loop(&tp.elems[0], &tp.elems[1], &im.receiver, &body);
                            }
                        }
                    }
                }
                return self.fold_loop(&pat, &m.receiver, &body);
            }
            return Err("`for_each` without a closure literal".into());
        }
        // `v.first_mut().unwrap().m(args)` / `v.last_mut().unwrap().m(args)`
        if let Expr::MethodCall(u) = strip(&m.receiver) {
            if u.method == "unwrap" && u.args.is_empty() {
                if let Expr::MethodCall(fm) = strip(&u.receiver) {
                    let which = fm.method.to_string();
                    if (which == "first_mut" || which == "last_mut") && fm.args.is_empty() {
                        let (v, vt) = self.expr(&fm.receiver, &T::Unknown)?;
                        let et = match vt {
                            T::List(t) => *t,
                            t => return Err(format!("`{which}()` on a value of type {:?}", t)),
                        };
                        let fs = self.env.fns(&et.head(), &name);
                        let f = fs.iter().find(|f| f.self_ty.is_some() && f.muts == vec![0] && f.ret == T::Unit && !f.eff && f.params.len() == args.len()).cloned().ok_or(format!("`{name}` is not a translated `&mut self` method of {:?}", et))?;
                        let x = self.fresh_name("x");
                        let mut ls = vec![X::A(x.clone())];
                        ls.extend(self.args_of(&f, &args, &name, &mut HashMap::new())?);
                        let fun = X::Fun(vec![x], Box::new(Blk::val(X::App(f.lean.clone(), ls))), false);
                        let r = self.hoist(X::app(if which == "first_mut" { "Slice.firstMutUnwrap" } else { "Slice.lastMutUnwrap" }, vec![v, fun]));
                        let (n, nv) = self.assign_into(&fm.receiver, r)?;
                        self.emit_let(n, nv);
                        return Ok(());
                    }
                }
            }
        }
        let (recv, rt) = self.expr(&m.receiver, &T::Unknown)?;
        match (&rt, name.as_str()) {
            (T::List(t), "push") if args.len() == 1 => {
                let (x, xt) = self.expr(args[0], t)?;
                let x = self.coerce(x, &xt, t)?;
                let (n, nv) = self.assign_into(&m.receiver, X::Bin("++".into(), Box::new(recv), Box::new(X::A(format!("[{}]", x.render(4))))))?;
                self.emit(St::Let(n, nv));
                Ok(())
            }
            (T::List(_), "clear") if args.is_empty() => {
                let (n, nv) = self.assign_into(&m.receiver, X::a("[]"))?;
                self.emit(St::Let(n, nv));
                Ok(())
            }
            // capacity is not modelled; the argument is still evaluated (it can panic)
            (T::List(_), "reserve") if args.len() == 1 => {
                let (_, at) = self.expr(args[0], &T::Usize)?;
                if !at.is_int() {
                    return Err("`reserve` argument".into());
                }
                Ok(())
            }
            _ => {
                let fs = self.env.fns(&rt.head(), &name);
                for f in fs {
                    if let Some(st) = &f.self_ty {
                        let mut sub = HashMap::new();
                        if st.unify(&rt, &mut sub) && f.params.len() + f.dropped + f.dropped_pos.len() == args.len() && f.muts == vec![0] && f.ret == T::Unit {
                            let mut ls = vec![recv];
                            ls.extend(self.args_of(&f, &args, &name, &mut sub)?);
                            let r = self.apply(&f, ls);
                            let (n, nv) = self.assign_into(&m.receiver, r)?;
                            self.emit_let(n, nv);
                            return Ok(());
                        }
                    }
                }
                Err(format!("statement `{}` is outside the fragment", q(m)))
            }
        }
    }

    /// `f(a, b, …);` for a translated function that updates some of its arguments
    fn stmt_call(&mut self, c: &syn::ExprCall) -> R<()> {
        let p = match &*c.func {
            Expr::Path(p) => p,
            _ => return Err("call of a non-path".into()),
        };
        let segs = path_segs(&p.path);
        let name = segs.last().unwrap().clone();
        if name == "drop" && segs.len() == 1 {
            return Ok(());
        }
        let args: Vec<&Expr> = c.args.iter().collect();
        let f = if segs.len() == 1 {
            self.local_fns.get(&name).cloned().or_else(|| self.env.fns("", &name).first().cloned())
        } else {
            let head = self.type_of_segment(&segs[segs.len() - 2]).map(|t| t.head()).unwrap_or_default();
            self.env.fns(&head, &name).into_iter().find(|f| f.self_ty.is_none())
        };
        let f = f.ok_or(format!("call statement of the untranslated function `{name}`"))?;
        if f.muts.is_empty() || f.self_ty.is_some() {
            return Err(format!("call statement of `{name}`, which updates none of its arguments"));
        }
        let ls = self.args_of(&f, &args, &name, &mut HashMap::new())?;
        let r = self.apply(&f, ls);
        let n = f.muts.len() + if f.ret == T::Unit { 0 } else { 1 };
        let r = if n > 1 {
            match r {
                X::A(_) => r,
                other => {
                    let tmp = self.fresh_name("r");
                    self.emit(St::Let(tmp.clone(), other));
                    X::A(tmp)
                }
            }
        } else {
            r
        };
        for (k, i) in f.muts.iter().enumerate() {
            let (nm, nv) = self.assign_into(args[*i], if n > 1 { tuple_proj(r.clone(), k, n) } else { r.clone() })?;
            self.emit_let(nm, nv);
        }
        Ok(())
    }

    fn stmt_enabled(&self, st: &Stmt) -> R<bool> {
        match st {
            Stmt::Local(l) => self.cfg.enabled(&l.attrs),
            Stmt::Expr(e, _) => self.cfg.enabled(crate::expr::expr_attrs_pub(e)),
            _ => Ok(true),
        }
    }

    /// a block in value position; `if c { return e; }` pushes the rest of the block into the `else` branch
    fn block_value(&mut self, stmts: &[Stmt], expect: &T) -> R<(Tail, T)> {
        for (k, st) in stmts.iter().enumerate() {
            if !self.stmt_enabled(st)? {
                continue;
            }
            let mut last = true;
            for later in &stmts[k + 1..] {
                if self.stmt_enabled(later)? {
                    last = false;
                }
            }
            match st {
                Stmt::Expr(e, None) if last && *expect == T::Unit => {
                    self.stmt_expr(e)?;
                    return Ok((Tail::Val(X::a("()")), T::Unit));
                }
                Stmt::Expr(e, None) if last => {
                    return self.tail_of(e, expect);
                }
                Stmt::Expr(Expr::Return(r), _) if last => {
                    let e = r.expr.as_ref().ok_or("`return` without a value")?;
                    return self.tail_of(e, expect);
                }
                Stmt::Expr(Expr::If(i), _) if i.else_branch.is_none() && is_return_block(&i.then_branch) => {
                    if !self.cfg.enabled(&i.attrs)? {
                        continue;
                    }
                    let ret_e = match &i.then_branch.stmts[0] {
                        Stmt::Expr(Expr::Return(r), _) => r.expr.as_ref(),
                        _ => unreachable!(),
                    };
                    if ret_e.is_none() && *expect != T::Unit {
                        return Err("`return` without a value".into());
                    }
                    let (c, ct) = self.expr(&i.cond, &T::Bool)?;
                    if ct != T::Bool {
                        return Err("`if` condition is not a bool".into());
                    }
                    let (a, at) = match ret_e {
                        Some(ret_e) => self.sub_expr_block(ret_e, expect)?,
                        None => (Blk::val(X::a("()")), T::Unit),
                    };
                    let (b, bt) = self.sub_block(&stmts[k + 1..], &at.join(expect))?;
                    if !at.compatible(&bt) {
                        return Err(format!("`return` of type {:?} in a block of type {:?}", at, bt));
                    }
                    return Ok((Tail::If(c, Box::new(a), Box::new(b)), at.join(&bt)));
                }
                _ => self.stmt(st)?,
            }
        }
        if matches!(expect, T::Unit | T::Unknown) {
            return Ok((Tail::Val(X::a("()")), T::Unit));
        }
        Err("block without a tail expression used as a value".into())
    }
}

fn is_return_block(b: &syn::Block) -> bool {
    matches!(b.stmts.as_slice(), [Stmt::Expr(Expr::Return(_), _)])
}

fn is_skipped_macro(m: &syn::Macro) -> bool {
    ["debug_assert", "debug_assert_eq", "debug_assert_ne"].iter().any(|n| m.path.is_ident(n)) || crate::stmt::NOOP_MACROS.iter().any(|n| m.path.is_ident(n))
}

fn compound_op(op: &syn::BinOp) -> Option<syn::BinOp> {
    use syn::BinOp::*;
    match op {
        AddAssign(_) => Some(Add(Default::default())),
        SubAssign(_) => Some(Sub(Default::default())),
        MulAssign(_) => Some(Mul(Default::default())),
        DivAssign(_) => Some(Div(Default::default())),
        _ => None,
    }
}

// ================================================================================================ functions

pub struct FnPlan<'s> {
    pub head: String,
    pub rust_name: String,
    /// fully qualified Lean name
    pub lean_name: String,
    pub self_ty: Option<T>,
    pub generics: HashMap<String, T>,
    pub sig: &'s syn::Signature,
    pub block: &'s syn::Block,
    pub doc: Option<String>,
    /// the declared `f32` result can be `f32::INFINITY`: the Lean result type is `Ext`
    pub ext_ret: bool,
    /// see `Cx::loop_fuel`
    pub loop_fuel: Option<String>,
    /// see `tracks2::FnOpts`
    pub opts: tracks2::FnOpts,
}

/// `impl Fn(*const (), f32) -> f32`: the calc resolver
fn is_calc_resolver(sig: &syn::Signature, ty: &syn::Type) -> bool {
    // `&dyn Fn(*const (), f32) -> f32`
    if crate::emit::norm(ty) == "&dynFn(*const(),f32)->f32" {
        return true;
    }
    match crate::emit::fn_bound(sig, ty) {
        Some(pa) => pa.inputs.iter().any(|t| crate::emit::norm(t) == "*const()"),
        None => false,
    }
}

pub fn translate_fn(w: &World, reg: &Reg, p: &FnPlan) -> R<(String, SFn)> {
    let mut cx = Cx::new(w, reg, p.self_ty.clone(), p.generics.clone());
    cx.lean_name = p.lean_name.clone();
    cx.loop_fuel = p.loop_fuel.clone();
    cx.opts = p.opts.clone();
    for g in &p.sig.generics.params {
        if let syn::GenericParam::Type(t) = g {
            let name = t.ident.to_string();
            if p.generics.contains_key(&name) {
                continue;
            }
            let as_ty: syn::Type = syn::parse_str(&name).map_err(|e| e.to_string())?;
            if crate::emit::fn_bound(p.sig, &as_ty).is_some() {
                continue;
            }
            return Err(format!("generic parameter {}", t.ident));
        }
    }
    let mut params: Vec<T> = vec![];
    let mut binders = String::new();
    let mut self_t: Option<T> = None;
    let mut muts: Vec<usize> = vec![];
    let mut dropped_pos: Vec<usize> = vec![];
    let mut rust_pos = 0usize;
    let mut pos = 0usize;
    for a in &p.sig.inputs {
        match a {
            syn::FnArg::Receiver(r) => {
                let st = p.self_ty.clone().ok_or("receiver outside an impl")?;
                if r.reference.is_some() && r.mutability.is_some() {
                    muts.push(0);
                    cx.mut_params.push("self".into());
                }
                cx.declare("self", st.clone());
                binders.push_str(&format!(" ({} : {})", ident("self"), crate::emit::strip_parens(&cx.env.lean_ty(&st))));
                self_t = Some(st);
                pos += 1;
            }
            syn::FnArg::Typed(t) => {
                let (n, by_value_mut) = match &*t.pat {
                    Pat::Ident(i) => (i.ident.to_string(), i.mutability.is_some()),
                    _ => return Err("parameter pattern".into()),
                };
                let _ = by_value_mut;
                let is_tree = matches!(crate::emit::impl_traits(&t.ty), Some(trs) if trs.iter().any(|t| t == "LayoutPartialTree"));
                if is_calc_resolver(p.sig, &t.ty) || is_tree {
                    dropped_pos.push(rust_pos);
                    rust_pos += 1;
                    cx.dropped.push(n);
                    continue;
                }
                rust_pos += 1;
                let ty = if let Some(pa) = crate::emit::fn_bound(p.sig, &t.ty) {
                    let tys = pa.inputs.iter().map(|t| cx.rust_ty(t)).collect::<R<Vec<_>>>()?;
                    let ret = match &pa.output {
                        syn::ReturnType::Default => T::Unit,
                        syn::ReturnType::Type(_, t) => cx.rust_ty(t)?,
                    };
                    let ret = if ret == T::F32 && p.opts.ext_fn_params.iter().any(|x| *x == n) { T::Ext } else { ret };
                    T::Fn(tys, Box::new(ret))
                } else {
                    match crate::emit::impl_traits(&t.ty) {
                        Some(trs) if trs.len() == 1 && crate::emit::STYLE_TRAITS.contains(&trs[0].as_str()) => {
                            cx.views.insert(n.clone(), trs[0].clone());
                            T::adt("Style")
                        }
                        _ => cx.rust_ty(&t.ty)?,
                    }
                };
                if ty.has_unknown() {
                    return Err(format!("parameter `{n}`: type not fully determined"));
                }
                if let syn::Type::Reference(r) = &*t.ty {
                    if r.mutability.is_some() {
                        muts.push(pos);
                        cx.mut_params.push(n.clone());
                    }
                }
                cx.declare(&n, ty.clone());
                binders.push_str(&format!(" ({} : {})", ident(&n), crate::emit::strip_parens(&cx.env.lean_ty(&ty))));
                params.push(ty);
                pos += 1;
            }
        }
    }
    let ret = match &p.sig.output {
        syn::ReturnType::Default => T::Unit,
        syn::ReturnType::Type(_, t) => cx.rust_ty(t)?,
    };
    if ret.has_unknown() {
        return Err("return type not fully determined".into());
    }
    let ret = if p.ext_ret && ret == T::F32 { T::Ext } else { ret };
    cx.ret_ty = ret.clone();
    // the Lean result: the updated `&mut` arguments, then the value
    let mut_tys: Vec<T> = cx.mut_params.iter().map(|n| cx.locals[n].ty.clone()).collect();
    let mut comps: Vec<T> = mut_tys.clone();
    if ret != T::Unit || comps.is_empty() {
        comps.push(ret.clone());
    }
    let lean_ret = if comps.len() == 1 { comps[0].clone() } else { T::Tuple(comps.clone()) };
    if p.opts.hoist_nested_fns {
        for st in &p.block.stmts {
            if let Stmt::Item(syn::Item::Fn(f)) = st {
                cx.nested_fn(f)?;
            }
        }
    }
    let (tail, bt) = cx.block_value(&p.block.stmts, &ret)?;
    if !ret.compatible(&bt) {
        return Err(format!("the body has type {:?}, declared {:?}", bt, ret));
    }
    let mut blk = Blk { stmts: std::mem::take(&mut cx.cur), tail };
    if !cx.mut_params.is_empty() {
        blk = with_muts(&cx, blk, ret == T::Unit);
    }
    blk = fuse_tail(blk);
    let eff = blk.effectful();
    let mut alpha = cx.env.mentions_alpha(&lean_ret) || params.iter().any(|t| cx.env.mentions_alpha(t));
    if let Some(st) = &self_t {
        alpha = alpha || cx.env.mentions_alpha(st);
    }
    let mut tvars = vec![];
    if let Some(st) = &self_t {
        st.vars(&mut tvars);
    }
    params.iter().for_each(|t| t.vars(&mut tvars));
    lean_ret.vars(&mut tvars);
    let mut ab = String::new();
    for v in &tvars {
        ab.push_str(&format!(" {{{v} : Type}}"));
    }
    if alpha {
        ab.push_str(" {α : Type} [Num α]");
    }
    if cx.numcast {
        ab.push_str(" [GridTracks.NumCast α]");
    }
    let mut doc = format!("`{}{}`", if p.head.is_empty() { String::new() } else { format!("{}::", p.head) }, p.rust_name);
    if !dropped_pos.is_empty() {
        doc.push_str(" (without the `calc` argument)");
    }
    if !cx.mut_params.is_empty() {
        doc.push_str(&format!(" — returns the updated `{}`", cx.mut_params.join("`, `")));
    }
    if let Some(d) = &p.doc {
        doc.push_str(d);
    }
    let rt = crate::emit::strip_parens(&cx.env.lean_ty(&lean_ret));
    let ret_text = if eff && p.opts.prog_mode && p.opts.prog_name.is_some() { format!("{} α {}", p.opts.prog_name.as_ref().unwrap().0, cx.env.lean_ty(&lean_ret)) } else if eff && p.opts.prog_mode { format!("Slice.ItemProg ι α {}", cx.env.lean_ty(&lean_ret)) } else if eff { format!("Except GridTracks.GErr {}", cx.env.lean_ty(&lean_ret)) } else { rt };
    let binders = format!("{}{binders}", p.opts.extra_binders);
    let body = blk.render(2, eff);
    let kw = if eff { " do" } else { "" };
    let text = format!("{}/-- {doc} -/\ndef {}{ab}{binders} : {} :={kw}\n  {}\n\n", cx.nested_text, p.lean_name, ret_text, body);
    let sig = SFn { lean: p.lean_name.clone(), self_ty: self_t, params, ret, eff, muts, dropped: 0, dropped_pos, alpha, numcast: cx.numcast };
    Ok((text, sig))
}

/// append the current values of the `&mut` parameters to every value the block can end in
fn with_muts(cx: &Cx, mut b: Blk, unit: bool) -> Blk {
    // the values at the END of the block are the current Lean names: shadowing keeps the name, so the tuple is the same everywhere
    let names: Vec<X> = cx.mut_params.iter().map(|n| X::A(cx.locals[n].lean.clone())).collect();
    fn go(b: &mut Blk, names: &[X], unit: bool) {
        match &mut b.tail {
            Tail::Val(x) => {
                let mut v = names.to_vec();
                if !unit {
                    v.push(x.clone());
                }
                *x = if v.len() == 1 { v.pop().unwrap() } else { X::Tuple(v) };
            }
            Tail::Eff(x) => {
                // `m` answers the value; the updated arguments are added after it
                let t = "r_".to_string();
                let m = x.clone();
                b.stmts.push(St::Bind(t.clone(), m));
                let mut v = names.to_vec();
                if !unit {
                    v.push(X::A(t));
                }
                b.tail = Tail::Val(if v.len() == 1 { v.pop().unwrap() } else { X::Tuple(v) });
            }
            Tail::If(_, a, c) => {
                go(a, names, unit);
                go(c, names, unit);
            }
            Tail::Match(_, arms) => {
                for (_, blk) in arms {
                    go(blk, names, unit);
                }
            }
        }
    }
    go(&mut b, &names, unit);
    b
}
