//! src/tree/taffy_tree.rs, the structural methods of `TaffyTree`  →  Generated/TreeOps.lean
//!
//! Every statement of every structural method is translated, in source order, into a statement of the monad `TreeModel.TreeM`
//! (`lean/TaffyVerif/Model/TreeInterp.lean`): slot-map calls (`self.parents[k] = v`, `self.children[k].push(c)`, `self.nodes.insert(d)` …)
//! become the primitive of the same name, the `Vec` methods become the list functions of `TreeModel.VecOps` (with their panics),
//! `return Err(..)` / `?` / `.unwrap()` become `TreeM.throw` / sequencing / `TreeM.unwrapResult`·`TreeM.ofOption`, with exactly the
//! comparison operators and the statement order the source has. `Props/TieTree.lean` proves every generated method equal to the
//! hand-written model function of `Model/Tree.lean`.
//!
//! The translation is a closed list of recognised shapes. Anything else in one of the method bodies is an error (exit 1).
//! The same walk records the `self.mark_dirty(..)?` statements of every method: `facts.rs` builds the `dirty_*` table from it.
use crate::emit::norm;
use crate::util::{parse_file, CfgEnv};
use std::collections::{BTreeMap, HashMap};
use syn::{Expr, ImplItem, Item, Pat, Stmt};

type R<T> = Result<T, String>;

/// the methods translated (all must be found), with the `Val` constructor their answer is printed with by `Model/Tree.lean`
pub const METHODS: &[&str] = &[
    "new_leaf", "new_leaf_with_context", "new_with_children", "clear", "remove", "set_node_context", "get_node_context", "add_child",
    "insert_child_at_index", "set_children", "remove_child", "remove_child_at_index", "remove_children_range", "replace_child_at_index",
    "child_at_index", "total_node_count", "parent", "children",
];
/// from `impl TraversePartialTree for TaffyTree`
pub const TRAIT_METHODS: &[&str] = &["child_count"];

const EXPECT_STRUCT: &[(&str, &str)] = &[
    ("nodes", "SlotMap<DefaultKey,NodeData>"),
    ("node_context_data", "SecondaryMap<DefaultKey,NodeContext>"),
    ("children", "SlotMap<DefaultKey,ChildrenVec<NodeId>>"),
    ("parents", "SlotMap<DefaultKey,Option<NodeId>>"),
    ("config", "TaffyConfig"),
];

/// `mark_dirty` is not translated: `TreeM.markDirty` is its first panic site (`nodes[node_key]`), which is all the structural state
/// sees of it (Model/Tree.lean, scope notes; dirtiness itself is C15's model). Its text is pinned so that a change is noticed.
const EXPECT_MARK_DIRTY: &str = "{fnmark_dirty_recursive(nodes:&mutSlotMap<DefaultKey,NodeData>,parents:&SlotMap<DefaultKey,Option<NodeId>>,node_key:DefaultKey,){matchnodes[node_key].mark_dirty(){ClearState::AlreadyEmpty=>{}ClearState::Cleared=>{ifletSome(Some(node))=parents.get(node_key){mark_dirty_recursive(nodes,parents,(*node).into());}}}}mark_dirty_recursive(&mutself.nodes,&self.parents,node.into());Ok(())}";

#[derive(Clone, Debug, PartialEq)]
enum T {
    Id,
    Nat,
    Ids,
    OptId,
    OptIds,
    OptNat,
    Ctx,
    OptCtx,
    NodeData,
    Unit,
    Prop,
}

fn lean_ty(t: &T) -> &'static str {
    match t {
        T::Id => "Id",
        T::Nat => "Nat",
        T::Ids => "List Id",
        T::OptId => "Option Id",
        T::OptIds => "Option (List Id)",
        T::OptNat => "Option Nat",
        T::Ctx => "Nat",
        T::OptCtx => "Option Nat",
        T::NodeData => "NodeData",
        T::Unit => "Unit",
        T::Prop => "Prop",
    }
}

fn opt_inner(t: &T) -> Option<T> {
    match t {
        T::OptId => Some(T::Id),
        T::OptIds => Some(T::Ids),
        T::OptNat => Some(T::Nat),
        T::OptCtx => Some(T::Ctx),
        _ => None,
    }
}

#[derive(Clone, Debug)]
enum Kind {
    /// an ordinary value
    Val(T),
    /// the `Style` argument of a constructor: dropped (only `NodeData::new(..)` may consume it)
    Style,
    /// `&mut Vec<NodeId>` into `self.children[key]`
    Place(String),
    /// the generic `range: R` of `remove_children_range`, instantiated as `start..end`
    Range(String, String),
}

#[derive(Clone, Debug)]
enum V {
    Pure(String, T),
    Eff(String, T),
}

#[derive(Clone, Debug)]
enum S {
    Bind(String, String),
    Let(String, String),
    Act(String),
    If(String, Vec<S>, Vec<S>),
    MatchOpt(String, String, Vec<S>, Vec<S>),
    ForEach(String, String, Vec<S>),
}

#[derive(Clone, Debug)]
struct Sig {
    params: Vec<T>,
    ret: T,
    result: bool,
}

struct Cx<'a> {
    name: String,
    vars: HashMap<String, Kind>,
    tmp: usize,
    dirty: Vec<String>,
    ret: T,
    result: bool,
    sigs: &'a HashMap<String, Sig>,
    calls: Vec<String>,
}

fn path_str(p: &syn::Path) -> String {
    norm(p)
}

fn is_self(e: &Expr) -> bool {
    matches!(e, Expr::Path(p) if p.path.is_ident("self"))
}

/// `self.<field>`
fn self_field(e: &Expr) -> Option<String> {
    if let Expr::Field(f) = e {
        if is_self(&f.base) {
            if let syn::Member::Named(n) = &f.member {
                return Some(n.to_string());
            }
        }
    }
    None
}

/// `self.<field>[<key>]`
fn self_index(e: &Expr) -> Option<(String, &Expr)> {
    if let Expr::Index(ix) = e {
        if let Some(f) = self_field(&ix.expr) {
            return Some((f, &ix.index));
        }
    }
    None
}

fn ends_unit(b: &mut Vec<S>) {
    let ok = matches!(b.last(), Some(S::Act(_)) | Some(S::If(..)) | Some(S::MatchOpt(..)) | Some(S::ForEach(..)));
    if !ok {
        b.push(S::Act("pure ()".into()));
    }
}

impl<'a> Cx<'a> {
    fn err<X>(&self, what: &str, node: &dyn quote::ToTokens) -> R<X> {
        Err(format!("{}: {what}: `{}`", self.name, quote::quote!(#node).to_string()))
    }

    fn fresh(&mut self) -> String {
        self.tmp += 1;
        format!("v{}", self.tmp)
    }

    fn force(&mut self, v: V, out: &mut Vec<S>) -> (String, T) {
        match v {
            V::Pure(c, t) => (c, t),
            V::Eff(c, t) => {
                let n = self.fresh();
                out.push(S::Bind(n.clone(), c));
                (n, t)
            }
        }
    }

    fn pure_of(&mut self, e: &Expr, out: &mut Vec<S>) -> R<(String, T)> {
        let v = self.ex(e, out)?;
        Ok(self.force(v, out))
    }

    fn typed(&mut self, e: &Expr, want: &T, out: &mut Vec<S>) -> R<String> {
        // `None` takes the type the context asks for
        if let Expr::Path(p) = e {
            if p.path.is_ident("None") && opt_inner(want).is_some() {
                return Ok("none".into());
            }
        }
        let (c, t) = self.pure_of(e, out)?;
        if &t != want {
            return self.err(&format!("expected a value of type {:?}, found {:?}", want, t), e);
        }
        Ok(c)
    }

    /// `|x| *x == y` / `|x| *x != y` on node ids
    fn closure_pred(&mut self, e: &Expr) -> R<String> {
        let c = match e {
            Expr::Closure(c) if c.inputs.len() == 1 => c,
            _ => return self.err("expected a one-parameter closure", e),
        };
        let x = match &c.inputs[0] {
            Pat::Ident(p) if p.by_ref.is_none() && p.subpat.is_none() => p.ident.to_string(),
            p => return self.err("unrecognised closure parameter", p),
        };
        let saved = self.vars.get(&x).cloned();
        self.vars.insert(x.clone(), Kind::Val(T::Id));
        let mut pre = vec![];
        let r = self.pure_of(&c.body, &mut pre);
        match saved {
            Some(k) => {
                self.vars.insert(x.clone(), k);
            }
            None => {
                self.vars.remove(&x);
            }
        }
        let (body, t) = r?;
        if !pre.is_empty() || t != T::Prop {
            return self.err("closure body is not a pure comparison", e);
        }
        Ok(format!("(fun {x} => decide {body})"))
    }

    /// a `Vec` method on `self.children[key]` or on a `&mut` place into it; answers `(VecOps term, result type)`
    fn vec_method(&mut self, m: &syn::ExprMethodCall, out: &mut Vec<S>) -> R<Option<(String, T)>> {
        let name = m.method.to_string();
        let a = &m.args;
        let r = match (name.as_str(), a.len()) {
            ("push", 1) => {
                let c = self.typed(&a[0], &T::Id, out)?;
                (format!("VecOps.push {c}"), T::Unit)
            }
            ("insert", 2) => {
                let i = self.typed(&a[0], &T::Nat, out)?;
                let c = self.typed(&a[1], &T::Id, out)?;
                (format!("VecOps.insert {i} {c}"), T::Unit)
            }
            ("remove", 1) => {
                let i = self.typed(&a[0], &T::Nat, out)?;
                (format!("VecOps.remove {i}"), T::Id)
            }
            ("retain", 1) => {
                let p = self.closure_pred(&a[0])?;
                (format!("VecOps.retain {p}"), T::Unit)
            }
            ("clear", 0) => ("VecOps.clear".to_string(), T::Unit),
            ("drain", 1) => {
                let (s, e) = match &a[0] {
                    Expr::Path(p) if p.path.get_ident().is_some() => match self.vars.get(&p.path.get_ident().unwrap().to_string()) {
                        Some(Kind::Range(s, e)) => (s.clone(), e.clone()),
                        _ => return self.err("drain: the argument is not the range parameter", &a[0]),
                    },
                    x => return self.err("drain: the argument is not the range parameter", x),
                };
                (format!("VecOps.drain {s} {e}"), T::Ids)
            }
            _ => return Ok(None),
        };
        Ok(Some(r))
    }

    /// the key of the `self.children` slot a receiver denotes mutably: `self.children[k]` or a place variable
    fn children_place(&mut self, e: &Expr, out: &mut Vec<S>) -> R<Option<String>> {
        if let Some((f, k)) = self_index(e) {
            if f == "children" {
                return Ok(Some(self.typed(k, &T::Id, out)?));
            }
        }
        if let Expr::Path(p) = e {
            if let Some(id) = p.path.get_ident() {
                if let Some(Kind::Place(k)) = self.vars.get(&id.to_string()) {
                    return Ok(Some(k.clone()));
                }
            }
        }
        Ok(None)
    }

    fn self_call(&mut self, m: &syn::ExprMethodCall, out: &mut Vec<S>) -> R<(String, Sig)> {
        let name = m.method.to_string();
        let sig = match self.sigs.get(&name) {
            Some(s) => s.clone(),
            None => return self.err("call of a method that is not translated", m),
        };
        if sig.params.len() != m.args.len() {
            return self.err("arity", m);
        }
        let mut args = vec![];
        for (a, t) in m.args.iter().zip(sig.params.iter()) {
            args.push(self.typed(a, t, out)?);
        }
        if !self.calls.contains(&name) {
            self.calls.push(name.clone());
        }
        Ok((format!("{name} {}", args.join(" ")), sig))
    }

    fn ex(&mut self, e: &Expr, out: &mut Vec<S>) -> R<V> {
        match e {
            Expr::Paren(p) => self.ex(&p.expr, out),
            Expr::Reference(r) if r.mutability.is_none() => self.ex(&r.expr, out),
            Expr::Unary(u) if matches!(u.op, syn::UnOp::Deref(_)) => self.ex(&u.expr, out),
            Expr::Lit(l) => match &l.lit {
                syn::Lit::Int(i) => Ok(V::Pure(i.base10_digits().to_string(), T::Nat)),
                syn::Lit::Bool(b) => Ok(V::Pure(b.value.to_string(), T::Prop)),
                _ => self.err("unrecognised literal", e),
            },
            Expr::Path(p) => {
                let id = match p.path.get_ident() {
                    Some(i) => i.to_string(),
                    None => return self.err("unrecognised path", e),
                };
                match self.vars.get(&id) {
                    Some(Kind::Val(t)) => Ok(V::Pure(id, t.clone())),
                    Some(_) => self.err("this variable cannot be used as a value here", e),
                    None => self.err("unknown variable", e),
                }
            }
            Expr::Tuple(t) if t.elems.is_empty() => Ok(V::Pure("()".into(), T::Unit)),
            Expr::Binary(b) => {
                let op = match b.op {
                    syn::BinOp::Gt(_) => ">",
                    syn::BinOp::Ge(_) => "≥",
                    syn::BinOp::Lt(_) => "<",
                    syn::BinOp::Le(_) => "≤",
                    syn::BinOp::Eq(_) => "=",
                    syn::BinOp::Ne(_) => "≠",
                    _ => return self.err("unrecognised operator", e),
                };
                let (l, lt) = self.pure_of(&b.left, out)?;
                let (r, rt) = self.pure_of(&b.right, out)?;
                let ok = lt == rt && (lt == T::Nat || (lt == T::Id && (op == "=" || op == "≠")));
                if !ok {
                    return self.err("comparison of unsupported operand types", e);
                }
                Ok(V::Pure(format!("({l} {op} {r})"), T::Prop))
            }
            Expr::Call(c) => {
                let f = match &*c.func {
                    Expr::Path(p) => path_str(&p.path),
                    _ => return self.err("unrecognised callee", e),
                };
                match (f.as_str(), c.args.len()) {
                    ("Some", 1) => {
                        let (x, t) = self.pure_of(&c.args[0], out)?;
                        let ot = match t {
                            T::Id => T::OptId,
                            _ => return self.err("Some(..) of an unsupported type", e),
                        };
                        Ok(V::Pure(format!("(some {x})"), ot))
                    }
                    ("NodeId::from", 1) => {
                        let v = self.ex(&c.args[0], out)?;
                        match v {
                            V::Pure(_, T::Id) | V::Eff(_, T::Id) => Ok(v),
                            _ => self.err("NodeId::from of something that is not a key", e),
                        }
                    }
                    ("NodeData::new", 1) => {
                        match &c.args[0] {
                            Expr::Path(p) if p.path.get_ident().map(|i| matches!(self.vars.get(&i.to_string()), Some(Kind::Style))).unwrap_or(false) => {}
                            _ => return self.err("NodeData::new of something that is not the style parameter", e),
                        }
                        Ok(V::Pure("NodeData_new".into(), T::NodeData))
                    }
                    ("new_vec_with_capacity", 1) => {
                        self.typed(&c.args[0], &T::Nat, out)?;
                        Ok(V::Pure("[]".into(), T::Ids))
                    }
                    ("core::mem::replace", 2) => {
                        // core::mem::replace(&mut self.children[k][i], v)
                        if let Expr::Reference(r) = &c.args[0] {
                            if r.mutability.is_some() {
                                if let Expr::Index(ix) = &*r.expr {
                                    if let Some(k) = self.children_place(&ix.expr, out)? {
                                        let i = self.typed(&ix.index, &T::Nat, out)?;
                                        let v = self.typed(&c.args[1], &T::Id, out)?;
                                        return Ok(V::Eff(format!("TreeM.childrenModify {k} (VecOps.replaceAt {i} {v})"), T::Id));
                                    }
                                }
                            }
                        }
                        self.err("unrecognised mem::replace", e)
                    }
                    _ => self.err("unrecognised call", e),
                }
            }
            Expr::Index(ix) => {
                if let Some((f, k)) = self_index(e) {
                    let k = self.typed(k, &T::Id, out)?;
                    return match f.as_str() {
                        "parents" => Ok(V::Eff(format!("TreeM.parentsIdx {k}"), T::OptId)),
                        "children" => Ok(V::Eff(format!("TreeM.childrenIdx {k}"), T::Ids)),
                        _ => self.err("unrecognised indexed field", e),
                    };
                }
                let (v, t) = self.pure_of(&ix.expr, out)?;
                if t != T::Ids {
                    return self.err("index into something that is not a child list", e);
                }
                let i = self.typed(&ix.index, &T::Nat, out)?;
                Ok(V::Eff(format!("TreeM.ofOption (VecOps.index {i} {v})"), T::Id))
            }
            Expr::Try(t) => {
                if !self.result {
                    return self.err("`?` in a method that does not return a TaffyResult", e);
                }
                if let Expr::MethodCall(m) = &*t.expr {
                    if is_self(&m.receiver) {
                        if m.method == "mark_dirty" && m.args.len() == 1 {
                            let a = self.typed(&m.args[0], &T::Id, out)?;
                            self.dirty.push(norm(&m.args[0]));
                            return Ok(V::Eff(format!("TreeM.markDirty {a}"), T::Unit));
                        }
                        let (c, sig) = self.self_call(m, out)?;
                        if !sig.result {
                            return self.err("`?` on a method that does not return a TaffyResult", e);
                        }
                        return Ok(V::Eff(c, sig.ret));
                    }
                }
                self.err("unrecognised `?`", e)
            }
            Expr::MethodCall(m) => self.method(m, e, out),
            _ => self.err("unrecognised expression", e),
        }
    }

    fn method(&mut self, m: &syn::ExprMethodCall, e: &Expr, out: &mut Vec<S>) -> R<V> {
        let name = m.method.to_string();
        // calls on a field of self
        if let Some(f) = self_field(&m.receiver) {
            let a = &m.args;
            return match (f.as_str(), name.as_str(), a.len()) {
                ("nodes", "insert", 1) => {
                    let d = self.typed(&a[0], &T::NodeData, out)?;
                    Ok(V::Eff(format!("TreeM.nodesInsert {d}"), T::Id))
                }
                ("children", "insert", 1) => {
                    let d = self.typed(&a[0], &T::Ids, out)?;
                    Ok(V::Eff(format!("TreeM.childrenInsert {d}"), T::Id))
                }
                ("parents", "insert", 1) => {
                    let d = self.typed(&a[0], &T::OptId, out)?;
                    Ok(V::Eff(format!("TreeM.parentsInsert {d}"), T::Id))
                }
                ("nodes", "remove", 1) | ("children", "remove", 1) | ("parents", "remove", 1) => {
                    let k = self.typed(&a[0], &T::Id, out)?;
                    Ok(V::Eff(format!("TreeM.{f}Remove {k}"), T::Unit))
                }
                ("nodes", "clear", 0) | ("children", "clear", 0) | ("parents", "clear", 0) => Ok(V::Eff(format!("TreeM.{f}Clear"), T::Unit)),
                ("nodes", "len", 0) => Ok(V::Eff("TreeM.nodesLen".into(), T::Nat)),
                ("children", "get", 1) | ("children", "get_mut", 1) => {
                    let k = self.typed(&a[0], &T::Id, out)?;
                    Ok(V::Eff(format!("TreeM.childrenGet {k}"), T::OptIds))
                }
                ("node_context_data", "insert", 2) => {
                    let k = self.typed(&a[0], &T::Id, out)?;
                    let x = self.typed(&a[1], &T::Ctx, out)?;
                    Ok(V::Eff(format!("TreeM.ctxInsert {k} {x}"), T::Unit))
                }
                ("node_context_data", "remove", 1) => {
                    let k = self.typed(&a[0], &T::Id, out)?;
                    Ok(V::Eff(format!("TreeM.ctxRemove {k}"), T::Unit))
                }
                ("node_context_data", "get", 1) => {
                    let k = self.typed(&a[0], &T::Id, out)?;
                    Ok(V::Eff(format!("TreeM.ctxGet {k}"), T::OptCtx))
                }
                _ => self.err("unrecognised call on a field of self", e),
            };
        }
        // calls of other methods of the tree
        if is_self(&m.receiver) {
            if name == "mark_dirty" {
                return self.err("mark_dirty must be called as `self.mark_dirty(x)?`", e);
            }
            let (c, sig) = self.self_call(m, out)?;
            if sig.result {
                // only legal as the tail expression of a TaffyResult method or under `?` / `.unwrap()`: the callers check
                return Ok(V::Eff(format!("RESULT:{c}"), sig.ret));
            }
            return Ok(V::Eff(c, sig.ret));
        }
        // a Vec method on self.children[k] / a place
        if let Some(k) = self.children_place(&m.receiver, out)? {
            if let Some((op, t)) = self.vec_method(m, out)? {
                return Ok(V::Eff(format!("TreeM.childrenModify {k} ({op})"), t));
            }
            if !matches!(&*m.receiver, Expr::Index(_)) {
                return self.err("unrecognised method on a `&mut` child list", e);
            }
        }
        // conversions that are the identity in the model
        if name == "into" && m.args.is_empty() {
            let v = self.ex(&m.receiver, out)?;
            return match v {
                V::Pure(_, T::Id) | V::Eff(_, T::Id) => Ok(v),
                _ => self.err(".into() of something that is not a node id / key", e),
            };
        }
        if name == "unwrap" && m.args.is_empty() {
            let v = self.ex(&m.receiver, out)?;
            return match v {
                V::Eff(c, t) if c.starts_with("RESULT:") => Ok(V::Eff(format!("TreeM.unwrapResult ({})", &c["RESULT:".len()..]), t)),
                V::Pure(c, t) if opt_inner(&t).is_some() => Ok(V::Eff(format!("TreeM.ofOption {c}"), opt_inner(&t).unwrap())),
                _ => self.err("unrecognised unwrap", e),
            };
        }
        // pure list views
        let (r, t) = self.pure_of(&m.receiver, out)?;
        if t == T::Ids {
            return match (name.as_str(), m.args.len()) {
                ("iter", 0) | ("copied", 0) | ("clone", 0) | ("collect", 0) => Ok(V::Pure(r, T::Ids)),
                ("len", 0) => Ok(V::Pure(format!("{r}.length"), T::Nat)),
                ("position", 1) => {
                    let p = self.closure_pred(&m.args[0])?;
                    Ok(V::Pure(format!("(VecOps.position {p} {r})"), T::OptNat))
                }
                _ => self.err("unrecognised method on a child list", e),
            };
        }
        self.err("unrecognised method call", e)
    }

    fn err_value(&mut self, e: &Expr, out: &mut Vec<S>) -> R<String> {
        // Err(TaffyError::ChildIndexOutOfBounds { parent, child_index, child_count })
        if let Expr::Call(c) = e {
            if matches!(&*c.func, Expr::Path(p) if p.path.is_ident("Err")) && c.args.len() == 1 {
                if let Expr::Struct(s) = &c.args[0] {
                    if path_str(&s.path) == "TaffyError::ChildIndexOutOfBounds" && s.rest.is_none() && s.fields.len() == 3 {
                        let mut got: HashMap<String, String> = HashMap::new();
                        for f in &s.fields {
                            let n = match &f.member {
                                syn::Member::Named(n) => n.to_string(),
                                _ => return self.err("unnamed field", e),
                            };
                            let want = if n == "parent" { T::Id } else { T::Nat };
                            let v = self.typed(&f.expr, &want, out)?;
                            got.insert(n, v);
                        }
                        if let (Some(p), Some(i), Some(n)) = (got.get("parent"), got.get("child_index"), got.get("child_count")) {
                            return Ok(format!("(.childIndexOutOfBounds {p} {i} {n})"));
                        }
                    }
                }
            }
        }
        self.err("unrecognised error value", e)
    }

    /// the tail expression of the method body
    fn tail(&mut self, e: &Expr, out: &mut Vec<S>) -> R<()> {
        if self.result {
            if let Expr::Call(c) = e {
                if matches!(&*c.func, Expr::Path(p) if p.path.is_ident("Ok")) && c.args.len() == 1 {
                    let want = self.ret.clone();
                    let x = self.typed(&c.args[0], &want, out)?;
                    out.push(S::Act(format!("pure {x}")));
                    return Ok(());
                }
            }
            // a call of another TaffyResult method in tail position
            let v = self.ex(e, out)?;
            return match v {
                V::Eff(c, t) if c.starts_with("RESULT:") && t == self.ret => {
                    out.push(S::Act(c["RESULT:".len()..].to_string()));
                    Ok(())
                }
                _ => self.err("the tail expression of a TaffyResult method is neither Ok(..) nor a call of such a method", e),
            };
        }
        let v = self.ex(e, out)?;
        match v {
            V::Eff(c, _) if c.starts_with("RESULT:") => self.err("a TaffyResult used as a plain value", e),
            V::Eff(c, t) if t == self.ret => {
                out.push(S::Act(c));
                Ok(())
            }
            V::Pure(c, t) if t == self.ret => {
                out.push(S::Act(format!("pure {c}")));
                Ok(())
            }
            _ => self.err("tail expression of the wrong type", e),
        }
    }

    /// an expression statement whose value is dropped
    fn drop_stmt(&mut self, e: &Expr, out: &mut Vec<S>) -> R<()> {
        let v = self.ex(e, out)?;
        match v {
            V::Eff(c, _) if c.starts_with("RESULT:") => return self.err("a TaffyResult is dropped without `?` or `.unwrap()`", e),
            V::Eff(c, T::Unit) => out.push(S::Act(c)),
            V::Eff(c, _) => out.push(S::Bind("_".into(), c)),
            V::Pure(..) => return self.err("a statement without effect", e),
        }
        Ok(())
    }

    fn bind_pat_ident(&self, p: &Pat) -> R<String> {
        match p {
            Pat::Ident(i) if i.by_ref.is_none() && i.subpat.is_none() => Ok(i.ident.to_string()),
            Pat::Reference(r) => self.bind_pat_ident(&r.pat),
            _ => self.err("unrecognised pattern", p),
        }
    }

    /// `for <pat> in <iter> { body }`
    fn for_loop(&mut self, f: &syn::ExprForLoop, out: &mut Vec<S>) -> R<()> {
        let x = self.bind_pat_ident(&f.pat)?;
        let (l, t) = self.pure_of(&f.expr, out)?;
        if t != T::Ids {
            return self.err("loop over something that is not a list of node ids", &f.expr);
        }
        let saved = self.vars.clone();
        self.vars.insert(x.clone(), Kind::Val(T::Id));
        let mut body = self.block(&f.body.stmts, false)?;
        self.vars = saved;
        ends_unit(&mut body);
        out.push(S::ForEach(l, x, body));
        Ok(())
    }

    fn if_stmt(&mut self, i: &syn::ExprIf, rest: &[Stmt], out: &mut Vec<S>, terminal: bool) -> R<bool> {
        // `if let Some(x) = e { .. } [else { .. }]`
        if let Expr::Let(l) = &*i.cond {
            let x = match &*l.pat {
                Pat::TupleStruct(ts) if ts.path.is_ident("Some") && ts.elems.len() == 1 => self.bind_pat_ident(&ts.elems[0])?,
                p => return self.err("unrecognised `if let` pattern", p),
            };
            // a `get_mut` scrutinee binds a `&mut` place
            let place = match &*l.expr {
                Expr::MethodCall(m) if m.method == "get_mut" && self_field(&m.receiver).as_deref() == Some("children") && m.args.len() == 1 => {
                    let mut tmp = vec![];
                    let k = self.typed(&m.args[0], &T::Id, &mut tmp)?;
                    if !tmp.is_empty() {
                        return self.err("effectful key", &m.args[0]);
                    }
                    Some(k)
                }
                _ => None,
            };
            let (sc, t) = self.pure_of(&l.expr, out)?;
            let inner = match opt_inner(&t) {
                Some(t) => t,
                None => return self.err("`if let Some(..)` on something that is not an Option", &l.expr),
            };
            let saved = self.vars.clone();
            let binder = if place.is_some() { "_".to_string() } else { x.clone() };
            self.vars.insert(x.clone(), match place {
                Some(k) => Kind::Place(k),
                None => Kind::Val(inner),
            });
            let mut then_ = self.block(&i.then_branch.stmts, false)?;
            self.vars = saved.clone();
            ends_unit(&mut then_);
            let mut else_ = match &i.else_branch {
                None => vec![],
                Some((_, e)) => match &**e {
                    Expr::Block(b) => self.block(&b.block.stmts, false)?,
                    x => return self.err("unrecognised else branch", x),
                },
            };
            self.vars = saved;
            ends_unit(&mut else_);
            out.push(S::MatchOpt(sc, binder, then_, else_));
            return Ok(false);
        }
        // `if cond { return Err(..); }` followed by the rest of the block
        let (c, t) = self.pure_of(&i.cond, out)?;
        if t != T::Prop {
            return self.err("condition is not a comparison", &i.cond);
        }
        if i.else_branch.is_none() && i.then_branch.stmts.len() == 1 && terminal {
            if let Stmt::Expr(Expr::Return(r), Some(_)) = &i.then_branch.stmts[0] {
                if let Some(v) = &r.expr {
                    if !self.result {
                        return self.err("return Err(..) in a method that does not return a TaffyResult", r);
                    }
                    let mut then_ = vec![];
                    let ev = self.err_value(v, &mut then_)?;
                    then_.push(S::Act(format!("TreeM.throw {ev}")));
                    let else_ = self.block(rest, true)?;
                    out.push(S::If(c, then_, else_));
                    return Ok(true);
                }
            }
        }
        self.err("unrecognised `if` (only `if let Some(..)` and `if cond { return Err(..); }` are translated)", i)
    }

    /// a statement list; `terminal` = the block's value is the method's answer (its last element is the tail expression)
    fn block(&mut self, stmts: &[Stmt], terminal: bool) -> R<Vec<S>> {
        let mut out: Vec<S> = vec![];
        for (n, st) in stmts.iter().enumerate() {
            let last = n + 1 == stmts.len();
            match st {
                Stmt::Local(l) => {
                    let init = match &l.init {
                        Some(i) if i.diverge.is_none() => &*i.expr,
                        _ => return self.err("unrecognised let", st),
                    };
                    match &l.pat {
                        Pat::Wild(_) => self.drop_stmt(init, &mut out)?,
                        Pat::Ident(p) if p.by_ref.is_none() && p.subpat.is_none() => {
                            let x = p.ident.to_string();
                            // `let x = &mut self.children[k];`
                            if let Expr::Reference(r) = init {
                                if r.mutability.is_some() {
                                    if let Some((f, k)) = self_index(&r.expr) {
                                        if f == "children" {
                                            let k = self.typed(k, &T::Id, &mut out)?;
                                            out.push(S::Bind("_".into(), format!("TreeM.childrenIdx {k}")));
                                            self.vars.insert(x, Kind::Place(k));
                                            continue;
                                        }
                                    }
                                    return self.err("unrecognised `&mut` borrow", st);
                                }
                            }
                            let v = self.ex(init, &mut out)?;
                            match v {
                                V::Eff(c, _) if c.starts_with("RESULT:") => return self.err("a TaffyResult bound without `?` or `.unwrap()`", st),
                                V::Eff(c, t) => {
                                    out.push(S::Bind(x.clone(), c));
                                    self.vars.insert(x, Kind::Val(t));
                                }
                                V::Pure(c, t) => {
                                    out.push(S::Let(x.clone(), c));
                                    self.vars.insert(x, Kind::Val(t));
                                }
                            }
                        }
                        _ => return self.err("unrecognised let pattern", st),
                    }
                }
                Stmt::Expr(e, semi) => {
                    if last && semi.is_none() && terminal && !matches!(e, Expr::If(_) | Expr::ForLoop(_)) {
                        self.tail(e, &mut out)?;
                        continue;
                    }
                    match e {
                        Expr::Assign(a) => {
                            // self.parents[k] = v
                            if let Some((f, k)) = self_index(&a.left) {
                                if f == "parents" {
                                    let k = self.typed(k, &T::Id, &mut out)?;
                                    let v = self.typed(&a.right, &T::OptId, &mut out)?;
                                    out.push(S::Act(format!("TreeM.parentsAssign {k} {v}")));
                                    continue;
                                }
                            }
                            // self.nodes[k].has_context = b   |   data.has_context = b
                            if let Expr::Field(fl) = &*a.left {
                                if matches!(&fl.member, syn::Member::Named(n) if n == "has_context") {
                                    let b = match &*a.right {
                                        Expr::Lit(syn::ExprLit { lit: syn::Lit::Bool(b), .. }) => b.value.to_string(),
                                        x => return self.err("has_context is assigned something that is not a literal", x),
                                    };
                                    if let Some((f, k)) = self_index(&fl.base) {
                                        if f == "nodes" {
                                            let k = self.typed(k, &T::Id, &mut out)?;
                                            out.push(S::Act(format!("TreeM.nodesAssignHasContext {k} {b}")));
                                            continue;
                                        }
                                    }
                                    if let Expr::Path(p) = &*fl.base {
                                        if let Some(id) = p.path.get_ident() {
                                            if matches!(self.vars.get(&id.to_string()), Some(Kind::Val(T::NodeData))) {
                                                out.push(S::Let(id.to_string(), format!("{{ {id} with hasContext := {b} }}")));
                                                continue;
                                            }
                                        }
                                    }
                                }
                            }
                            return self.err("unrecognised assignment", st);
                        }
                        Expr::If(i) => {
                            if self.if_stmt(i, &stmts[n + 1..], &mut out, terminal)? {
                                return Ok(out);
                            }
                        }
                        Expr::ForLoop(f) => self.for_loop(f, &mut out)?,
                        Expr::MethodCall(m) if m.method == "for_each" && m.args.len() == 1 => {
                            // <list>.iter().for_each(|x| <expr>)
                            let (l, t) = self.pure_of(&m.receiver, &mut out)?;
                            if t != T::Ids {
                                return self.err("for_each over something that is not a list of node ids", st);
                            }
                            let c = match &m.args[0] {
                                Expr::Closure(c) if c.inputs.len() == 1 => c,
                                x => return self.err("unrecognised for_each argument", x),
                            };
                            let x = self.bind_pat_ident(&c.inputs[0])?;
                            let saved = self.vars.clone();
                            self.vars.insert(x.clone(), Kind::Val(T::Id));
                            let mut body = vec![];
                            let r = self.drop_stmt(&c.body, &mut body);
                            self.vars = saved;
                            r?;
                            ends_unit(&mut body);
                            out.push(S::ForEach(l, x, body));
                        }
                        _ => {
                            if semi.is_none() {
                                return self.err("unrecognised expression statement", st);
                            }
                            self.drop_stmt(e, &mut out)?
                        }
                    }
                }
                _ => return self.err("unrecognised statement", st),
            }
        }
        if terminal && !matches!(stmts.last(), Some(Stmt::Expr(_, None))) {
            // a method returning `()` whose body ends with a statement
            if self.ret == T::Unit && !self.result {
                out.push(S::Act("pure ()".into()));
            } else {
                return Err(format!("{}: the body does not end with an expression", self.name));
            }
        }
        Ok(out)
    }
}

fn render_block(b: &[S], ind: usize, o: &mut String) {
    let pad = " ".repeat(ind);
    for s in b {
        match s {
            S::Bind(x, a) => o.push_str(&format!("{pad}let {x} ← {a}\n")),
            S::Let(x, v) => o.push_str(&format!("{pad}let {x} := {v}\n")),
            S::Act(a) => o.push_str(&format!("{pad}{a}\n")),
            S::If(c, t, e) => {
                o.push_str(&format!("{pad}(if {c} then (do\n"));
                render_block(t, ind + 4, o);
                o.push_str(&format!("{pad}  ) else (do\n"));
                render_block(e, ind + 4, o);
                o.push_str(&format!("{pad}  ))\n"));
            }
            S::MatchOpt(sc, x, t, e) => {
                // `if let Some(x) = sc { .. } else { .. }`
                o.push_str(&format!("{pad}TreeM.ifLetSome {sc} (fun {x} => (do\n"));
                render_block(t, ind + 4, o);
                o.push_str(&format!("{pad}  )) (do\n"));
                render_block(e, ind + 4, o);
                o.push_str(&format!("{pad}  )\n"));
            }
            S::ForEach(l, x, body) => {
                o.push_str(&format!("{pad}TreeM.forEach {l} (fun {x} => (do\n"));
                render_block(body, ind + 4, o);
                o.push_str(&format!("{pad}  ))\n"));
            }
        }
    }
}

fn ty_of(t: &syn::Type) -> Option<T> {
    match norm(t).as_str() {
        "NodeId" => Some(T::Id),
        "usize" => Some(T::Nat),
        "&[NodeId]" => Some(T::Ids),
        "Vec<NodeId>" => Some(T::Ids),
        "NodeContext" => Some(T::Ctx),
        "Option<NodeContext>" => Some(T::OptCtx),
        "Option<&NodeContext>" => Some(T::OptCtx),
        "Option<NodeId>" => Some(T::OptId),
        "()" => Some(T::Unit),
        _ => None,
    }
}

/// `TaffyResult<X>` / `Result<X, TaffyError>` / a plain type
fn ret_of(r: &syn::ReturnType) -> Option<(T, bool)> {
    match r {
        syn::ReturnType::Default => Some((T::Unit, false)),
        syn::ReturnType::Type(_, t) => {
            let s = norm(&**t);
            if let Some(inner) = s.strip_prefix("TaffyResult<").and_then(|x| x.strip_suffix('>')) {
                let it: syn::Type = syn::parse_str(inner).ok()?;
                return ty_of(&it).map(|t| (t, true));
            }
            ty_of(t).map(|t| (t, false))
        }
    }
}

struct Method<'s> {
    f: &'s syn::ImplItemFn,
    params: Vec<(String, Kind)>,
    sig: Sig,
}

fn signature<'s>(f: &'s syn::ImplItemFn) -> R<Method<'s>> {
    let name = f.sig.ident.to_string();
    let mut params = vec![];
    let mut ptys = vec![];
    // a generic parameter `R: RangeBounds<usize>` (in the where clause) is the range `start..end`
    let mut range_generic: Option<String> = None;
    for g in &f.sig.generics.params {
        match g {
            syn::GenericParam::Type(t) => {
                let w = f.sig.generics.where_clause.as_ref().map(|w| norm(w)).unwrap_or_default();
                if w == format!("where{}:core::ops::RangeBounds<usize>,", t.ident) || w == format!("where{}:core::ops::RangeBounds<usize>", t.ident) {
                    range_generic = Some(t.ident.to_string());
                } else {
                    return Err(format!("{name}: unrecognised generic parameter `{}` (where clause `{w}`)", t.ident));
                }
            }
            _ => return Err(format!("{name}: unrecognised generic parameter")),
        }
    }
    let mut first = true;
    for a in &f.sig.inputs {
        match a {
            syn::FnArg::Receiver(r) if first && r.reference.is_some() => {}
            syn::FnArg::Typed(pt) if !first => {
                let x = match &*pt.pat {
                    Pat::Ident(i) if i.by_ref.is_none() && i.subpat.is_none() => i.ident.to_string(),
                    p => return Err(format!("{name}: unrecognised parameter pattern `{}`", norm(p))),
                };
                let ts = norm(&*pt.ty);
                if ts == "Style" {
                    params.push((x, Kind::Style));
                } else if Some(&ts) == range_generic.as_ref() {
                    params.push((x.clone(), Kind::Range(format!("{x}_start"), format!("{x}_end"))));
                    ptys.push(T::Nat);
                    ptys.push(T::Nat);
                } else if let Some(t) = ty_of(&pt.ty) {
                    ptys.push(t.clone());
                    params.push((x, Kind::Val(t)));
                } else {
                    return Err(format!("{name}: unrecognised parameter type `{ts}`"));
                }
            }
            _ => return Err(format!("{name}: unrecognised receiver / parameter")),
        }
        first = false;
    }
    let (ret, result) = ret_of(&f.sig.output).ok_or(format!("{name}: unrecognised return type `{}`", norm(&f.sig.output)))?;
    Ok(Method { f, params, sig: Sig { params: ptys, ret, result } })
}

pub struct Extracted {
    pub text: String,
    /// per translated method: the arguments of its `self.mark_dirty(..)?` statements, in source order
    pub dirty: BTreeMap<String, Vec<String>>,
}

pub fn extract(repo: &str) -> R<Extracted> {
    let env = CfgEnv::default_build();
    let file = parse_file(&format!("{repo}/src/tree/taffy_tree.rs"))?;

    // ---- the state: struct TaffyTree, struct NodeData / NodeData::new, TaffyError::ChildIndexOutOfBounds
    let mut seen_struct = false;
    let mut has_context_default: Option<String> = None;
    let mut seen_err = false;
    let mut methods: HashMap<String, Method> = HashMap::new();
    let mut mark_dirty_ok = false;
    let mut with_capacity: Option<&syn::ImplItemFn> = None;
    let mut new_fn: Option<&syn::ImplItemFn> = None;
    for it in &file.items {
        match it {
            Item::Struct(s) if s.ident == "TaffyTree" => {
                let got: Vec<(String, String)> = s
                    .fields
                    .iter()
                    .filter(|f| env.enabled(&f.attrs).unwrap_or(true))
                    .map(|f| (f.ident.as_ref().map(|i| i.to_string()).unwrap_or_default(), norm(&f.ty)))
                    .collect();
                let want: Vec<(String, String)> = EXPECT_STRUCT.iter().map(|(a, b)| (a.to_string(), b.to_string())).collect();
                if got != want {
                    return Err(format!("struct TaffyTree changed: the source has {:?}, the model has {:?}", got, want));
                }
                seen_struct = true;
            }
            Item::Struct(s) if s.ident == "NodeData" => {
                if !s.fields.iter().any(|f| f.ident.as_ref().map(|i| i == "has_context").unwrap_or(false) && norm(&f.ty) == "bool") {
                    return Err("struct NodeData: field `has_context: bool` not found".into());
                }
            }
            Item::Enum(e) if e.ident == "TaffyError" => {
                for v in &e.variants {
                    if v.ident == "ChildIndexOutOfBounds" {
                        let got: Vec<String> = v.fields.iter().map(|f| format!("{}:{}", f.ident.as_ref().map(|i| i.to_string()).unwrap_or_default(), norm(&f.ty))).collect();
                        if got != ["parent:NodeId", "child_index:usize", "child_count:usize"] {
                            return Err(format!("TaffyError::ChildIndexOutOfBounds changed: {:?}", got));
                        }
                        seen_err = true;
                    }
                }
            }
            Item::Impl(im) if env.enabled(&im.attrs)? => {
                let ty = norm(&im.self_ty);
                let tr = im.trait_.as_ref().map(|(_, p, _)| norm(p));
                if ty == "NodeData" && tr.is_none() {
                    for ii in &im.items {
                        if let ImplItem::Fn(f) = ii {
                            if f.sig.ident == "new" {
                                // Self { .., has_context: false, .. }
                                if let Some(Stmt::Expr(Expr::Struct(s), None)) = f.block.stmts.last() {
                                    for fv in &s.fields {
                                        if matches!(&fv.member, syn::Member::Named(n) if n == "has_context") {
                                            has_context_default = Some(norm(&fv.expr));
                                        }
                                    }
                                }
                            }
                        }
                    }
                }
                if ty.starts_with("TaffyTree<") && (tr.is_none() || tr.as_deref() == Some("TraversePartialTree")) {
                    let names: &[&str] = if tr.is_none() { METHODS } else { TRAIT_METHODS };
                    for ii in &im.items {
                        if let ImplItem::Fn(f) = ii {
                            if !env.enabled(&f.attrs)? {
                                continue;
                            }
                            let n = f.sig.ident.to_string();
                            if names.contains(&n.as_str()) {
                                if methods.insert(n.clone(), signature(f)?).is_some() {
                                    return Err(format!("method {n} found twice"));
                                }
                            } else if tr.is_none() && n == "mark_dirty" {
                                let got = norm(&f.block);
                                if got != EXPECT_MARK_DIRTY {
                                    return Err(format!("mark_dirty changed: the source has `{got}`, the translation scheme (TreeM.markDirty = its first panic site) expects `{EXPECT_MARK_DIRTY}`"));
                                }
                                if norm(&f.sig) != "fnmark_dirty(&mutself,node:NodeId)->TaffyResult<()>" {
                                    return Err(format!("mark_dirty's signature changed: `{}`", norm(&f.sig)));
                                }
                                mark_dirty_ok = true;
                            } else if tr.is_none() && n == "with_capacity" {
                                with_capacity = Some(f);
                            } else if tr.is_none() && n == "new" {
                                new_fn = Some(f);
                            }
                        }
                    }
                }
            }
            _ => {}
        }
    }
    if !seen_struct {
        return Err("struct TaffyTree not found".into());
    }
    if !seen_err {
        return Err("TaffyError::ChildIndexOutOfBounds not found".into());
    }
    if !mark_dirty_ok {
        return Err("TaffyTree::mark_dirty not found".into());
    }
    let hc = has_context_default.ok_or("NodeData::new: the struct literal's `has_context` field not found")?;
    if hc != "false" && hc != "true" {
        return Err(format!("NodeData::new: has_context is `{hc}`"));
    }
    for m in METHODS.iter().chain(TRAIT_METHODS.iter()) {
        if !methods.contains_key(*m) {
            return Err(format!("method {m} not found"));
        }
    }

    // ---- TaffyTree::with_capacity / new
    let wc = with_capacity.ok_or("TaffyTree::with_capacity not found")?;
    if norm(&wc.sig) != "fnwith_capacity(capacity:usize)->Self" {
        return Err(format!("with_capacity's signature changed: `{}`", norm(&wc.sig)));
    }
    let mut wc_fields: Vec<String> = vec![];
    match wc.block.stmts.as_slice() {
        [Stmt::Expr(Expr::Struct(s), None)] if norm(&s.path) == "TaffyTree" && s.rest.is_none() => {
            for fv in &s.fields {
                let n = match &fv.member {
                    syn::Member::Named(n) => n.to_string(),
                    _ => return Err("with_capacity: unnamed field".into()),
                };
                let v = norm(&fv.expr);
                let (lf, lv) = match (n.as_str(), v.as_str()) {
                    ("nodes", "SlotMap::with_capacity(capacity)") => ("nodes", "SlotMap.new"),
                    ("children", "SlotMap::with_capacity(capacity)") => ("children", "SlotMap.new"),
                    ("parents", "SlotMap::with_capacity(capacity)") => ("parents", "SlotMap.new"),
                    ("node_context_data", "SecondaryMap::with_capacity(capacity)") => ("ctx", "SecMap.new"),
                    ("config", "TaffyConfig::default()") => continue,
                    _ => return Err(format!("with_capacity: unrecognised field initialiser `{n}: {v}`")),
                };
                wc_fields.push(format!("{lf} := {lv}"));
            }
        }
        _ => return Err("with_capacity: the body is not a single `TaffyTree { .. }` literal".into()),
    }
    if wc_fields.len() != 4 {
        return Err("with_capacity: expected the four maps".into());
    }
    let nf = new_fn.ok_or("TaffyTree::new not found")?;
    let new_cap = match nf.block.stmts.as_slice() {
        [Stmt::Expr(Expr::Call(c), None)] if norm(&c.func) == "Self::with_capacity" && c.args.len() == 1 => match &c.args[0] {
            Expr::Lit(syn::ExprLit { lit: syn::Lit::Int(i), .. }) => i.base10_digits().to_string(),
            _ => return Err("new: the capacity is not a literal".into()),
        },
        _ => return Err("new: the body is not `Self::with_capacity(N)`".into()),
    };

    // ---- translate the methods
    let sigs: HashMap<String, Sig> = methods.iter().map(|(k, v)| (k.clone(), v.sig.clone())).collect();
    struct Done {
        text: String,
        calls: Vec<String>,
    }
    let mut done: HashMap<String, Done> = HashMap::new();
    let mut dirty: BTreeMap<String, Vec<String>> = BTreeMap::new();
    let mut errors: Vec<String> = vec![];
    for name in METHODS.iter().chain(TRAIT_METHODS.iter()) {
        let m = &methods[*name];
        let mut cx = Cx {
            name: name.to_string(),
            vars: m.params.iter().cloned().collect(),
            tmp: 0,
            dirty: vec![],
            ret: m.sig.ret.clone(),
            result: m.sig.result,
            sigs: &sigs,
            calls: vec![],
        };
        match cx.block(&m.f.block.stmts, true) {
            Ok(body) => {
                let mut ps = String::new();
                for (x, k) in &m.params {
                    match k {
                        Kind::Val(t) => ps.push_str(&format!(" ({x} : {})", lean_ty(t))),
                        Kind::Range(s, e) => ps.push_str(&format!(" ({s} {e} : Nat)")),
                        Kind::Style | Kind::Place(_) => {}
                    }
                }
                let sg = &m.f.sig;
                let mut text = format!("/-- `{}`", quote::quote!(#sg).to_string());
                if m.params.iter().any(|(_, k)| matches!(k, Kind::Style)) {
                    text.push_str(" — the `Style` argument is dropped (`NodeData` is reduced to `has_context`)");
                }
                if m.params.iter().any(|(_, k)| matches!(k, Kind::Range(..))) {
                    text.push_str(" — the generic range is instantiated as `range_start..range_end`");
                }
                text.push_str(" -/\n");
                text.push_str(&format!("def {name}{ps} : TreeM {} := do\n", match lean_ty(&m.sig.ret) {
                    s if s.contains(' ') => format!("({s})"),
                    s => s.to_string(),
                }));
                render_block(&body, 2, &mut text);
                text.push('\n');
                dirty.insert(name.to_string(), cx.dirty.clone());
                done.insert(name.to_string(), Done { text, calls: cx.calls.clone() });
            }
            Err(e) => errors.push(e),
        }
    }
    if !errors.is_empty() {
        return Err(errors.join("\n"));
    }
    // definitions before uses
    let mut order: Vec<String> = vec![];
    fn visit(n: &str, done: &HashMap<String, Done>, order: &mut Vec<String>, stack: &mut Vec<String>) -> R<()> {
        if order.iter().any(|x| x == n) {
            return Ok(());
        }
        if stack.iter().any(|x| x == n) {
            return Err(format!("recursive call cycle through {n}"));
        }
        stack.push(n.to_string());
        for c in &done[n].calls {
            visit(c, done, order, stack)?;
        }
        stack.pop();
        order.push(n.to_string());
        Ok(())
    }
    for name in METHODS.iter().chain(TRAIT_METHODS.iter()) {
        visit(name, &done, &mut order, &mut vec![])?;
    }

    let mut o = String::new();
    o.push_str("-- generated by tvextract from src/tree/taffy_tree.rs (structural methods of TaffyTree) — do not edit\n");
    o.push_str("-- statement vocabulary: TaffyVerif/Model/TreeInterp.lean; `Props/TieTree.lean` proves every method equal to Model/Tree.lean\n");
    o.push_str("import TaffyVerif.Model.TreeInterp\n\nnamespace Gen.TreeOps\nopen TreeModel SlotMapModel\n\n");
    o.push_str("-- checked against the source: `struct TaffyTree { nodes, node_context_data, children, parents, config }` with the slot-map types\n");
    o.push_str("-- of Model/Tree.lean; `TaffyError::ChildIndexOutOfBounds { parent, child_index, child_count }`; the text of `mark_dirty`\n");
    o.push_str("-- (`TreeM.markDirty` is its first panic site). `x.into()` / `NodeId::from(x)` between `NodeId` and `DefaultKey` are the identity.\n\n");
    o.push_str(&format!("/-- `NodeData::new(style)`: the struct literal's `has_context` field -/\ndef NodeData_new : NodeData := {{ hasContext := {hc} }}\n\n"));
    o.push_str(&format!(
        "/-- `TaffyTree::with_capacity(capacity)` (capacities are not modelled; `config` is not structural) -/\ndef with_capacity (_capacity : Nat) : Tree :=\n  {{ {} }}\n\n",
        wc_fields.join(", ")
    ));
    o.push_str(&format!("/-- `TaffyTree::new()` -/\ndef new : Tree := with_capacity {new_cap}\n\n"));
    for n in &order {
        o.push_str(&done[n].text);
    }
    o.push_str("/-- the argument of a `self.mark_dirty(..)?` statement -/\ninductive DirtyArg where\n  | node | parent\nderiving Repr, DecidableEq\n\n");
    o.push_str("/-! the `self.mark_dirty(..)?` statements met while translating each method, in source order (`Gen.Facts.dirty_*` is built from the same walk) -/\n\n");
    for name in METHODS.iter().chain(TRAIT_METHODS.iter()) {
        let mut items = vec![];
        for a in &dirty[*name] {
            match a.as_str() {
                "node" => items.push(".node"),
                "parent" => items.push(".parent"),
                other => return Err(format!("{name}: unrecognised mark_dirty argument `{other}`")),
            }
        }
        o.push_str(&format!("def markDirtyCalls_{name} : List DirtyArg := [{}]\n", items.join(", ")));
    }
    o.push_str("\nend Gen.TreeOps\n");
    Ok(Extracted { text: o, dirty })
}
