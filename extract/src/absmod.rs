//! src/compute/grid/alignment.rs  →  Generated/GridAlign.lean (C11's grid copy of the absolute-positioning code)
//!
//! First the helpers of src/geometry.rs that only this code uses (`Line::sum` at f32, `Line::map`, `Rect::map`,
//! `Rect::{horizontal,vertical}_components`, polymorphic), then `align_item_within_area` (pure, all of it).
use crate::emit::{free_fns, impls, norm, Out, Plan, PlanExt};
use crate::lean::{Ty, World};
use crate::util::{parse_file, CfgEnv};
use std::collections::HashMap;
use syn::ImplItem;

pub const REQUIRED: &[&str] = &["Line.sum", "Line.map", "Rect.map", "Rect.horizontal_components", "Rect.vertical_components", "LengthPercentageAuto.resolve_to_option", "Size_Dimension.f32_maybe_resolve", "align_item_within_area", "align_and_position_item"];

/// the helpers of geometry.rs (kept in this module's namespace; registered under the heads `Line` / `Rect`)
fn geometry_helpers(repo: &str, w: &mut World, out: &mut Out, env: &CfgEnv) -> Result<(), String> {
    let file = parse_file(&format!("{repo}/src/geometry.rs"))?;
    let mut v = vec![];
    impls(&file.items, env, &[], &mut v)?;
    out.comment("src/geometry.rs: `Line::sum` (`impl<T: Add + Copy> Line<T>`, instantiated at f32), `Line::map`, `Rect::map`,");
    out.comment("`Rect::horizontal_components`, `Rect::vertical_components` (generic `impl<T>`, polymorphic; the closure is a Lean function)");
    out.text.push('\n');
    let beta = Ty::Var("β".into());
    let gb: HashMap<String, Ty> = [("T".to_string(), beta.clone())].into_iter().collect();
    for info in &v {
        if info.trait_.is_some() {
            continue;
        }
        match (info.self_ty.as_str(), info.generics.len()) {
            ("Line<T>", 1) if info.bound.as_ref().map(|b| norm(b)) == Some("Add+Copy".to_string()) => {
                for ii in info.items {
                    if let ImplItem::Fn(ff) = ii {
                        if ff.sig.ident == "sum" && env.enabled(&ff.attrs)? {
                            let want = "fnsum(&self)-><TasAdd>::Output";
                            if norm(&ff.sig) != want {
                                return Err(format!("`Line::sum`: signature is `{}`, expected `{want}`", norm(&ff.sig)));
                            }
                            let sig: syn::Signature = syn::parse_str("fn sum(&self) -> f32").map_err(|e| e.to_string())?;
                            let g: HashMap<String, Ty> = [("T".to_string(), Ty::F32)].into_iter().collect();
                            out.function(w, Plan { head: "Line".into(), rust_name: "sum".into(), lean_rel: "Line.sum".into(), self_ty: Some(Ty::adt("Line", vec![Ty::F32])), generics: g, sig: &sig, block: &ff.block, required: true, trunc_sub: false, ext: Default::default() });
                        }
                    }
                }
            }
            ("Line<T>", 1) | ("Rect<T>", 1) => {
                let cont = if info.self_ty.starts_with("Line") { "Line" } else { "Rect" };
                let names: &[&str] = if cont == "Line" { &["map"] } else { &["map", "horizontal_components", "vertical_components"] };
                for ii in info.items {
                    if let ImplItem::Fn(ff) = ii {
                        let name = ff.sig.ident.to_string();
                        if names.contains(&name.as_str()) && env.enabled(&ff.attrs)? {
                            let lean_rel = format!("{cont}.{name}");
                            out.function(w, Plan { head: cont.to_string(), rust_name: name, lean_rel, self_ty: Some(Ty::adt(cont, vec![beta.clone()])), generics: gb.clone(), sig: &ff.sig, block: &ff.block, required: true, trunc_sub: false, ext: PlanExt { type_vars: true, ..Default::default() } });
                        }
                    }
                }
            }
            _ => {}
        }
    }
    // `LengthPercentageAuto::resolve_to_option` (style/dimension.rs): the tag-match shape of util/resolve.rs, calc arm dropped
    let dim = parse_file(&format!("{repo}/src/style/dimension.rs"))?;
    let mut v2 = vec![];
    impls(&dim.items, env, &[], &mut v2)?;
    out.comment("src/style/dimension.rs: `LengthPercentageAuto::resolve_to_option` (tags ↦ constructors as in Generated/Resolve.lean; the calc arm is dropped)");
    out.text.push('\n');
    for info in &v2 {
        if info.trait_.is_none() && info.self_ty == "LengthPercentageAuto" {
            for ii in info.items {
                if let ImplItem::Fn(ff) = ii {
                    if ff.sig.ident == "resolve_to_option" && env.enabled(&ff.attrs)? {
                        out.function(w, Plan { head: "LengthPercentageAuto".into(), rust_name: "resolve_to_option".into(), lean_rel: "LengthPercentageAuto.resolve_to_option".into(), self_ty: Some(Ty::adt("LengthPercentageAuto", vec![])), generics: HashMap::new(), sig: &ff.sig, block: &ff.block, required: true, trunc_sub: false, ext: PlanExt { dropped_params: vec!["calc_resolver".into()], ..Default::default() } });
                    }
                }
            }
        }
    }
    // util/resolve.rs: `impl MaybeResolve<Size<In>, Size<Out>> for Size<T>` at T = Dimension, In = f32 (Generated/Resolve.lean has In = Option<f32>)
    let res = parse_file(&format!("{repo}/src/util/resolve.rs"))?;
    let mut v3 = vec![];
    impls(&res.items, env, &[], &mut v3)?;
    out.comment("src/util/resolve.rs: the generic `Size<T>` impl of `MaybeResolve`, instantiated at T = Dimension, In = f32");
    out.text.push('\n');
    for info in &v3 {
        if info.self_ty == "Size<T>" && info.trait_.as_deref() == Some("MaybeResolve<Size<In>,Size<Out>>") {
            let t = Ty::adt("Dimension", vec![]);
            let g: HashMap<String, Ty> = [("T".to_string(), t.clone()), ("In".to_string(), Ty::F32), ("Out".to_string(), Ty::opt(Ty::F32))].into_iter().collect();
            crate::emit::impl_items(out, w, info, env, "Size", Some(Ty::adt("Size", vec![t])), &g, "Size_Dimension.f32_", &["Size_Dimension.f32_maybe_resolve"], &[])?;
        }
    }
    Ok(())
}

pub fn extract(repo: &str, w: &mut World) -> Result<String, String> {
    let env = CfgEnv::default_build();
    let file = parse_file(&format!("{repo}/src/compute/grid/alignment.rs"))?;
    let mut out = Out::new("Gen.GridAlign", "src/compute/grid/alignment.rs (+ helpers of src/geometry.rs)", &["TaffyVerif.Generated.Prelude", "TaffyVerif.Generated.Geometry", "TaffyVerif.Generated.Sys", "TaffyVerif.Generated.MaybeMath", "TaffyVerif.Generated.Resolve", "TaffyVerif.Generated.Style", "TaffyVerif.Generated.LayoutTypes", "TaffyVerif.Generated.ContentSize", "TaffyVerif.Generated.Tree"]);
    geometry_helpers(repo, w, &mut out, &env)?;
    let pure: &[&str] = &["align_item_within_area"];
    free_fns(&mut out, w, &file.items, &env, pure, REQUIRED, &[])?;
    position_item(repo, w, &mut out, &env, &file)?;
    out.finish(REQUIRED)
}

/// the one statement that asks the tree for the child's style; it is removed and its answer becomes the parameter `style`
const STYLE_QUERY: &str = "letstyle=tree.get_grid_child_style(node);";

/// `align_and_position_item`: interaction form over `Gen.Tree.Prog` (`perform_child_layout`, `set_unrounded_layout`), as a function of the
/// child's style (the hand-written model `AbsPos.absGrid` takes the style and an oracle for the child's answer)
fn position_item(repo: &str, w: &mut World, out: &mut Out, env: &CfgEnv, file: &syn::File) -> Result<(), String> {
    let name = "align_and_position_item";
    // `struct InBothAbsAxis<T> { horizontal: T, vertical: T }`: generated from the source (the models have no type for it)
    let geo = parse_file(&format!("{repo}/src/geometry.rs"))?;
    let mut ok = false;
    for it in &geo.items {
        if let syn::Item::Struct(st) = it {
            if st.ident == "InBothAbsAxis" {
                let fields: Vec<String> = st.fields.iter().map(|f| format!("{}:{}", f.ident.as_ref().map(|i| i.to_string()).unwrap_or_default(), norm(&f.ty))).collect();
                if fields != vec!["horizontal:T".to_string(), "vertical:T".to_string()] || st.generics.type_params().count() != 1 {
                    return Err(format!("struct InBothAbsAxis changed: {:?}", fields));
                }
                ok = true;
            }
        }
    }
    if !ok {
        return Err("definition of InBothAbsAxis not found".into());
    }
    out.text.push_str("/-- `struct InBothAbsAxis<T>` — generated from the source (the models have no type for it) -/\nstructure InBothAbsAxis (β : Type) where\n  horizontal : β\n  vertical : β\n\n");
    w.adts.push(crate::lean::Adt {
        rust: "InBothAbsAxis".into(),
        lean: format!("{}.InBothAbsAxis", out.ns),
        alpha: false,
        nparams: 1,
        kind: crate::lean::AdtKind::Struct(vec![
            crate::lean::Field { rust: "horizontal".into(), lean: "horizontal".into(), ty: Ty::Param(0) },
            crate::lean::Field { rust: "vertical".into(), lean: "vertical".into(), ty: Ty::Param(0) },
        ]),
    });
    // the traits: `LayoutGridContainer: LayoutPartialTree`, `get_grid_child_style(&self, NodeId) -> Self::GridItemStyle<'_>` with
    // `type GridItemStyle<'a>: GridItemStyle`, and `GridItemStyle: CoreStyle`
    let traits = parse_file(&format!("{repo}/src/tree/traits.rs"))?;
    let lgc = traits.items.iter().find_map(|it| match it {
        syn::Item::Trait(t) if t.ident == "LayoutGridContainer" => Some(t),
        _ => None,
    }).ok_or("trait LayoutGridContainer not found")?;
    if norm(&lgc.supertraits) != "LayoutPartialTree" {
        return Err(format!("`LayoutGridContainer` is no longer `: LayoutPartialTree` (it is `{}`)", norm(&lgc.supertraits)));
    }
    let mut sig_ok = false;
    let mut assoc_ok = false;
    for ti in &lgc.items {
        match ti {
            syn::TraitItem::Fn(f) if f.sig.ident == "get_grid_child_style" => {
                sig_ok = norm(&f.sig) == "fnget_grid_child_style(&self,child_node_id:NodeId)->Self::GridItemStyle<'_>" && f.default.is_none();
            }
            syn::TraitItem::Type(at) if at.ident == "GridItemStyle" => assoc_ok = norm(&at.bounds) == "GridItemStyle",
            _ => {}
        }
    }
    if !sig_ok || !assoc_ok {
        return Err("`LayoutGridContainer::get_grid_child_style` / its associated style type changed".into());
    }
    let sg = parse_file(&format!("{repo}/src/style/grid.rs"))?;
    let gis_ok = sg.items.iter().any(|it| matches!(it, syn::Item::Trait(t) if t.ident == "GridItemStyle" && norm(&t.supertraits) == "CoreStyle"));
    if !gis_ok {
        return Err("`trait GridItemStyle: CoreStyle` not found".into());
    }
    let f = file.items.iter().find_map(|it| match it {
        syn::Item::Fn(f) if f.sig.ident == name => Some(f),
        _ => None,
    });
    let f = match f {
        Some(f) if env.enabled(&f.attrs)? => f,
        _ => {
            out.errors.push(format!("required function `{name}` not found"));
            return Ok(());
        }
    };
    let mut pp = w.tree_plan.clone().ok_or("the tree traits have not been translated (Generated/Tree.lean)")?;
    // the tree parameter `tree: &mut impl LayoutGridContainer`
    let tree_ok = f.sig.inputs.iter().any(|a| matches!(a, syn::FnArg::Typed(t) if norm(&t.pat) == "tree" && norm(&t.ty) == "&mutimplLayoutGridContainer"));
    if !tree_ok {
        out.errors.push(format!("required function `{name}`: no parameter `tree: &mut impl LayoutGridContainer`"));
        return Ok(());
    }
    pp.tree_param = Some("tree".into());
    // the style query: exactly one, a top-level statement; removed, its answer is the new last parameter `style: &impl GridItemStyle`
    let mut f2 = f.clone();
    let hits: Vec<usize> = f2.block.stmts.iter().enumerate().filter(|(_, s)| norm(s) == STYLE_QUERY).map(|(k, _)| k).collect();
    let occurrences = norm(&f2.block).matches("get_grid_child_style").count();
    if hits.len() != 1 || occurrences != 1 {
        out.errors.push(format!("required function `{name}`: expected exactly one statement `let style = tree.get_grid_child_style(node);` ({} found, {} occurrences of the method)", hits.len(), occurrences));
        return Ok(());
    }
    // nothing before the query may talk to the tree (so that hoisting the query to the call site does not reorder interactions)
    for s in &f2.block.stmts[..hits[0]] {
        if norm(s).contains("tree.") {
            out.errors.push(format!("required function `{name}`: a tree interaction precedes the style query"));
            return Ok(());
        }
    }
    f2.block.stmts.remove(hits[0]);
    if f2.sig.inputs.iter().any(|a| matches!(a, syn::FnArg::Typed(t) if norm(&t.pat) == "style")) {
        out.errors.push(format!("required function `{name}`: already has a parameter `style`"));
        return Ok(());
    }
    f2.sig.inputs.push(syn::parse_str::<syn::FnArg>("style: &impl GridItemStyle").map_err(|e| e.to_string())?);
    out.comment("`align_and_position_item`: the statement `let style = tree.get_grid_child_style(node);` (checked: exactly one, no tree interaction before it) is not");
    out.comment("a node of the program; its answer is the last parameter `style` (seen through `GridItemStyle: CoreStyle`), as in the hand-written model");
    out.comment("`AbsPos.absGrid`. The remaining interactions (`perform_child_layout`, `set_unrounded_layout`) are nodes of `Gen.Tree.Prog`, in the Rust order.");
    out.text.push('\n');
    out.function(
        w,
        Plan {
            head: String::new(),
            rust_name: name.into(),
            lean_rel: name.into(),
            self_ty: None,
            generics: crate::treemod::node_generics(),
            sig: &f2.sig,
            block: &f2.block,
            required: true,
            trunc_sub: false,
            ext: PlanExt { prog: Some(pp), view_core: true, doc: Some(" — interaction form over `Gen.Tree.Prog`; the child's style is the last parameter".into()), ..Default::default() },
        },
    );
    Ok(())
}

/// `align_tracks` (a loop over `&mut [GridTrack]` with an accumulator): translated with `slices.rs` → Generated/GridAlignTracks.lean
pub const REQUIRED_TRACKS: &[&str] = &["align_tracks"];

pub fn extract_tracks(repo: &str, w: &World, reg: &mut crate::slices::Reg) -> Result<String, String> {
    let env = CfgEnv::default_build();
    let file = parse_file(&format!("{repo}/src/compute/grid/alignment.rs"))?;
    let mut acc = crate::gridinit::Acc::new(
        "Gen.GridAlignTracks",
        "src/compute/grid/alignment.rs (align_tracks)",
        &["TaffyVerif.Generated.TrackFns", "TaffyVerif.Generated.Alignment", "TaffyVerif.Generated.Sys"],
        &["Translated statement by statement (extract/src/slices.rs): slices as lists, `sum::<f32>()` folds from -0.0,",
          "`iter_mut().enumerate().for_each(|(i, track)| …)` with an outer accumulator is a fold over the indexed tracks."],
    );
    let no = HashMap::new();
    for it in &file.items {
        if let syn::Item::Fn(f) = it {
            let name = f.sig.ident.to_string();
            if env.enabled(&f.attrs)? && REQUIRED_TRACKS.contains(&name.as_str()) {
                acc.function(w, reg, "", &crate::lean::ident(&name), None, &no, &f.sig, &f.block, true);
            }
        }
    }
    acc.finish(REQUIRED_TRACKS)
}

// ------------------------------------------------------------------------------------------------------------------------------
// src/compute/flexbox.rs `perform_absolute_layout_on_absolute_children`  →  Generated/FlexAbs.lean
//
// The function is `prefix lets; let mut content_size = Size::ZERO; for order in 0..tree.child_count(node) { let child = tree.get_child_id(node,
// order); let child_style = tree.get_flexbox_child_style(child); if SKIP { continue; } BODY } content_size`. This scheme is compared with the
// source statement by statement; SKIP becomes the pure function `abs_skip child_style`, and `prefix lets; BODY` the interaction program
// `abs_item constants order child content_size child_style` (one `perform_child_layout`, one `set_unrounded_layout`) that answers the new
// `content_size` — the loop body of the hand-written model (`FlexModel.absItem`, Model/Flex.lean) for one child.
pub const REQUIRED_FLEX: &[&str] = &["usize_as_u32", "Size.sub", "Point.into_size", "abs_skip", "abs_item", "perform_absolute_layout_on_absolute_children"];

fn toks<T: quote::ToTokens>(t: &T) -> String {
    quote::quote!(#t).to_string()
}

pub fn extract_flex(repo: &str, w: &mut World) -> Result<String, String> {
    let env = CfgEnv::default_build();
    crate::stmt::check_debug_macros(repo)?;
    let name = "perform_absolute_layout_on_absolute_children";
    let file = parse_file(&format!("{repo}/src/compute/flexbox.rs"))?;
    let mut out = Out::new(
        "Gen.FlexAbs",
        "src/compute/flexbox.rs (perform_absolute_layout_on_absolute_children)",
        &["TaffyVerif.Generated.FlexLine", "TaffyVerif.Generated.GridAlign", "TaffyVerif.Generated.Tree", "TaffyVerif.Generated.Style", "TaffyVerif.Generated.Axes", "TaffyVerif.Generated.ContentSize"],
    );
    // the traits the scheme relies on
    let traits = parse_file(&format!("{repo}/src/tree/traits.rs"))?;
    let find_trait = |n: &str| traits.items.iter().find_map(|it| match it {
        syn::Item::Trait(t) if t.ident == n => Some(t),
        _ => None,
    });
    let tpt = find_trait("TraversePartialTree").ok_or("trait TraversePartialTree not found")?;
    let want = ["fnchild_count(&self,parent_node_id:NodeId)->usize", "fnget_child_id(&self,parent_node_id:NodeId,child_index:usize)->NodeId"];
    for wsig in want {
        if !tpt.items.iter().any(|ti| matches!(ti, syn::TraitItem::Fn(f) if norm(&f.sig) == wsig)) {
            return Err(format!("`TraversePartialTree` no longer declares `{wsig}`"));
        }
    }
    let lfc = find_trait("LayoutFlexboxContainer").ok_or("trait LayoutFlexboxContainer not found")?;
    if norm(&lfc.supertraits) != "LayoutPartialTree" {
        return Err("`LayoutFlexboxContainer` is no longer `: LayoutPartialTree`".into());
    }
    let sig_ok = lfc.items.iter().any(|ti| matches!(ti, syn::TraitItem::Fn(f) if norm(&f.sig) == "fnget_flexbox_child_style(&self,child_node_id:NodeId)->Self::FlexboxItemStyle<'_>" && f.default.is_none()));
    let assoc_ok = lfc.items.iter().any(|ti| matches!(ti, syn::TraitItem::Type(at) if at.ident == "FlexboxItemStyle" && norm(&at.bounds) == "FlexboxItemStyle"));
    if !sig_ok || !assoc_ok {
        return Err("`LayoutFlexboxContainer::get_flexbox_child_style` / its associated style type changed".into());
    }
    let sf = parse_file(&format!("{repo}/src/style/flex.rs"))?;
    if !sf.items.iter().any(|it| matches!(it, syn::Item::Trait(t) if t.ident == "FlexboxItemStyle" && norm(&t.supertraits) == "CoreStyle")) {
        return Err("`trait FlexboxItemStyle: CoreStyle` not found".into());
    }
    let f = file.items.iter().find_map(|it| match it {
        syn::Item::Fn(f) if f.sig.ident == name => Some(f),
        _ => None,
    }).ok_or(format!("function {name} not found"))?;
    if !env.enabled(&f.attrs)? {
        return Err(format!("{name} is cfg-disabled"));
    }
    if norm(&f.sig) != format!("fn{name}(tree:&mutimplLayoutFlexboxContainer,node:NodeId,constants:&AlgoConstants,)->Size<f32>") && norm(&f.sig) != format!("fn{name}(tree:&mutimplLayoutFlexboxContainer,node:NodeId,constants:&AlgoConstants)->Size<f32>") {
        return Err(format!("signature of {name} changed: `{}`", norm(&f.sig)));
    }
    // ---- the scheme
    let stmts: Vec<&syn::Stmt> = f.block.stmts.iter().collect();
    let n = stmts.len();
    if n < 3 {
        return Err(format!("{name}: unexpected shape"));
    }
    let bad = |what: &str| format!("{name} no longer has the shape `lets; let mut content_size = Size::ZERO; for order in 0..tree.child_count(node) {{ let child = tree.get_child_id(node, order); let child_style = tree.get_flexbox_child_style(child); if SKIP {{ continue; }} BODY }} content_size`: {what}");
    if norm(stmts[n - 1]) != "content_size" {
        return Err(bad("the tail expression"));
    }
    let lp = match stmts[n - 2] {
        syn::Stmt::Expr(syn::Expr::ForLoop(l), _) => l,
        _ => return Err(bad("the statement before the tail is not the `for`")),
    };
    if norm(&lp.pat) != "order" || norm(&lp.expr) != "0..tree.child_count(node)" || lp.label.is_some() {
        return Err(bad("the `for` header"));
    }
    match stmts[n - 3] {
        syn::Stmt::Local(l) if norm(&l.pat) == "mutcontent_size" && l.init.as_ref().map(|i| norm(&i.expr)) == Some("Size::ZERO".into()) => {}
        _ => return Err(bad("the accumulator declaration")),
    }
    let prefix = &stmts[..n - 3];
    for s in prefix {
        let t = norm(*s);
        if !matches!(s, syn::Stmt::Local(_)) || t.contains("tree.") || t.contains("node") && !t.contains("node_inner_size") {
            return Err(bad("a statement before the loop is not a `let` over `constants`"));
        }
    }
    let body: Vec<&syn::Stmt> = lp.body.stmts.iter().collect();
    if body.len() < 4 || norm(body[0]) != "letchild=tree.get_child_id(node,order);" || norm(body[1]) != "letchild_style=tree.get_flexbox_child_style(child);" {
        return Err(bad("the first two statements of the loop body"));
    }
    let skip = match body[2] {
        syn::Stmt::Expr(syn::Expr::If(i), _) if i.else_branch.is_none() && norm(&i.then_branch) == "{continue;}" && !matches!(&*i.cond, syn::Expr::Let(_)) => &i.cond,
        _ => return Err(bad("the third statement of the loop body is not `if SKIP { continue; }`")),
    };
    let rest = &body[3..];
    let rest_src: Vec<String> = rest.iter().map(|s| toks(*s)).collect();
    let rest_norm: String = rest.iter().map(|s| norm(*s)).collect();
    for kw in ["continue", "break", "return", "get_child_id", "get_flexbox_child_style", "child_count"] {
        if rest_norm.contains(kw) {
            return Err(bad(&format!("`{kw}` in the rest of the loop body")));
        }
    }
    if rest_norm.contains("node") && rest_norm.replace("node_inner_size", "").contains("node") {
        return Err(bad("the loop body mentions `node`"));
    }
    // `order as u32`: the only integer cast
    let casts = rest_norm.matches("asu32").count();
    if casts != rest_norm.matches("orderasu32").count() || rest_norm.matches("asusize").count() + rest_norm.matches("asu16").count() + rest_norm.matches("asu64").count() > 0 {
        return Err(bad("an integer cast other than `order as u32`"));
    }
    let rest_src: Vec<String> = rest_src.into_iter().map(|s| s.replace("order as u32", "usize_as_u32 (order)")).collect();
    out.comment("The loop scheme of `perform_absolute_layout_on_absolute_children` has been compared with the source:");
    out.comment("  <lets over `constants`>; let mut content_size = Size::ZERO;");
    out.comment("  for order in 0..tree.child_count(node) { let child = tree.get_child_id(node, order); let child_style = tree.get_flexbox_child_style(child);");
    out.comment("      if <abs_skip child_style> { continue; }  content_size = <abs_item constants order child content_size child_style> }");
    out.comment("  content_size");
    out.comment("(`FlexModel.absLoop` of Model/Flex.lean is this loop over the child styles in order). `abs_item` is in interaction form over `Gen.Tree.Prog`");
    out.comment("(`perform_child_layout`, `set_unrounded_layout` in the Rust order; the calc resolver closures are dropped); the child's style (the answer of");
    out.comment("`get_flexbox_child_style`, seen through `FlexboxItemStyle: CoreStyle`) is a parameter. `order as u32` (`order: usize`) is `usize_as_u32 order`.");
    out.text.push('\n');
    out.text.push_str("/-- `order as u32` for `order: usize` (truncation modulo 2^32) -/\ndef usize_as_u32 (n : Nat) : Nat := n % 4294967296\n\n");
    out.translated.push("usize_as_u32".into());
    w.add_fn("", "usize_as_u32", crate::lean::FnSig { lean: "Gen.FlexAbs.usize_as_u32".into(), self_ty: None, params: vec![("n".into(), Ty::Nat)], ret: Ty::Nat, alpha: false, mut_self: false, dropped: 0, mut_first: false, prog: false });
    // ---- `impl<U, T: Sub<U>> Sub<Size<U>> for Size<T>` (geometry.rs), instantiated at f32 like `impl Add` in Generated/Geometry.lean
    {
        let geo = parse_file(&format!("{repo}/src/geometry.rs"))?;
        let mut v = vec![];
        impls(&geo.items, &env, &[], &mut v)?;
        out.comment("`impl Sub<Size<U>> for Size<T>` (src/geometry.rs), instantiated at T = U = f32 (`a - b` on sizes); `impl From<Point<T>> for Size<T>`");
        out.text.push('\n');
        let st = Ty::adt("Size", vec![Ty::F32]);
        let g: HashMap<String, Ty> = [("T".to_string(), Ty::F32), ("U".to_string(), Ty::F32)].into_iter().collect();
        for info in &v {
            match (info.self_ty.as_str(), info.trait_.as_deref()) {
                ("Size<T>", Some("Sub<Size<U>>")) => {
                    for ii in info.items {
                        match ii {
                            ImplItem::Type(t) => {
                                let got = norm(&t.ty);
                                if t.ident != "Output" || (got != "Size<T::Output>" && got != "Size<<TasSub<U>>::Output>") {
                                    return Err(format!("`impl Sub for Size`: associated type `{}` is `{got}`", t.ident));
                                }
                            }
                            ImplItem::Fn(ff) if ff.sig.ident == "sub" => {
                                let want = "fnsub(self,rhs:Size<U>)->Self::Output";
                                if norm(&ff.sig) != want {
                                    return Err(format!("`impl Sub for Size`: signature is `{}`, expected `{want}`", norm(&ff.sig)));
                                }
                                let sig: syn::Signature = syn::parse_str("fn sub(self, rhs: Size<f32>) -> Size<f32>").map_err(|e| e.to_string())?;
                                out.function(w, Plan { head: "Size".into(), rust_name: "sub".into(), lean_rel: "Size.sub".into(), self_ty: Some(st.clone()), generics: g.clone(), sig: &sig, block: &ff.block, required: true, trunc_sub: false, ext: Default::default() });
                            }
                            _ => {}
                        }
                    }
                }
                // `point.into()` at the expected type `Size<f32>`: `impl<T> From<Point<T>> for Size<T>` (its `from(value)` read as `into(self)`)
                ("Size<T>", Some("From<Point<T>>")) => {
                    for ii in info.items {
                        if let ImplItem::Fn(ff) = ii {
                            if ff.sig.ident == "from" {
                                if norm(&ff.sig) != "fnfrom(value:Point<T>)->Self" {
                                    return Err(format!("`impl From<Point<T>> for Size<T>`: signature is `{}`", norm(&ff.sig)));
                                }
                                let sig: syn::Signature = syn::parse_str("fn into(self) -> Size<f32>").map_err(|e| e.to_string())?;
                                let body: syn::Block = syn::parse_str(&toks(&ff.block).replace("value", "self")).map_err(|e| e.to_string())?;
                                out.function(w, Plan { head: "Point".into(), rust_name: "into".into(), lean_rel: "Point.into_size".into(), self_ty: Some(Ty::adt("Point", vec![Ty::F32])), generics: g.clone(), sig: &sig, block: &body, required: true, trunc_sub: false, ext: Default::default() });
                            }
                        }
                    }
                }
                _ => {}
            }
        }
    }
    // ---- abs_skip
    let skip_src = format!("fn abs_skip(child_style: &impl FlexboxItemStyle) -> bool {{ {} }}", toks(&**skip));
    let fs: syn::ItemFn = syn::parse_str(&skip_src).map_err(|e| format!("abs_skip: {e}"))?;
    out.function(w, Plan { head: String::new(), rust_name: "abs_skip".into(), lean_rel: "abs_skip".into(), self_ty: None, generics: HashMap::new(), sig: &fs.sig, block: &fs.block, required: true, trunc_sub: false, ext: PlanExt { view_core: true, doc: Some(" — the condition of `if … { continue; }` at the head of the loop body".into()), ..Default::default() } });
    // ---- abs_item
    let prefix_src: Vec<String> = prefix.iter().map(|s| toks(*s)).collect();
    let item_src = format!(
        "fn abs_item(tree: &mut impl LayoutFlexboxContainer, constants: &AlgoConstants, order: usize, child: NodeId, content_size: Size<f32>, child_style: &impl FlexboxItemStyle) -> Size<f32> {{ {} let mut content_size = content_size; {} content_size }}",
        prefix_src.join(" "),
        rest_src.join(" ")
    );
    let fi: syn::ItemFn = syn::parse_str(&item_src).map_err(|e| format!("abs_item: {e}"))?;
    let mut pp = w.tree_plan.clone().ok_or("the tree traits have not been translated (Generated/Tree.lean)")?;
    pp.tree_param = Some("tree".into());
    out.function(w, Plan { head: String::new(), rust_name: "abs_item".into(), lean_rel: "abs_item".into(), self_ty: None, generics: crate::treemod::node_generics(), sig: &fi.sig, block: &fi.block, required: true, trunc_sub: false, ext: PlanExt { prog: Some(pp), view_core: true, join_ifs: true, doc: Some(" — the lets before the loop and the loop body after the skip test, for one child; answers the new `content_size`".into()), ..Default::default() } });
    // ---- the loop: emitted from the scheme that has just been compared with the source, over the two definitions above
    if out.errors.is_empty() {
        out.text.push_str(
            "/-- interaction programs of `perform_absolute_layout_on_absolute_children`: the three tree methods of the loop header\n(`TraversePartialTree::{child_count, get_child_id}`, `LayoutFlexboxContainer::get_flexbox_child_style` — signatures compared with the trait\ndeclarations; the style is seen through `FlexboxItemStyle: CoreStyle`) and the loop body's own interactions (`tree`: a `Gen.Tree.Prog`, then the\ncontinuation on its result) -/\ninductive Prog (α : Type) (NodeId : Type) (β : Type) where\n  | ret (b : β)\n  | child_count (parent_node_id : NodeId) (k : Nat → Prog α NodeId β)\n  | get_child_id (parent_node_id : NodeId) (child_index : Nat) (k : NodeId → Prog α NodeId β)\n  | get_flexbox_child_style (child_node_id : NodeId) (k : (Style α) → Prog α NodeId β)\n  | tree (p : Gen.Tree.Prog α NodeId (Size α)) (k : (Size α) → Prog α NodeId β)\n\n/-- `for order in <orders> { let child = tree.get_child_id(node, order); let child_style = tree.get_flexbox_child_style(child);\nif <abs_skip> { continue; } <abs_item> }` with the accumulator `content_size` -/\ndef abs_loop {NodeId : Type} {α : Type} [Num α] (node : NodeId) (constants : FlexModel.AlgoConstants α) : List Nat → Size α → Gen.FlexAbs.Prog α NodeId (Size α)\n  | [], content_size => .ret content_size\n  | order :: rest, content_size =>\n    .get_child_id node order fun child =>\n    .get_flexbox_child_style child fun child_style =>\n    if Gen.FlexAbs.abs_skip child_style then abs_loop node constants rest content_size\n    else .tree (Gen.FlexAbs.abs_item constants order child content_size child_style) fun content_size => abs_loop node constants rest content_size\n\n/-- `perform_absolute_layout_on_absolute_children`: `let mut content_size = Size::ZERO; for order in 0..tree.child_count(node) { … } content_size` -/\ndef perform_absolute_layout_on_absolute_children {NodeId : Type} {α : Type} [Num α] (node : NodeId) (constants : FlexModel.AlgoConstants α) : Gen.FlexAbs.Prog α NodeId (Size α) :=\n  .child_count node fun n => Gen.FlexAbs.abs_loop node constants (List.range n) (Gen.Geometry.Size.ZERO (α := α))\n\n",
        );
        out.translated.push("perform_absolute_layout_on_absolute_children".into());
    }
    out.finish(REQUIRED_FLEX)
}

// ------------------------------------------------------------------------------------------------------------------------------
// opt-in statement form (`PlanExt::join_ifs`): `if [let PAT =] e { A }` without `else`, where `A` only updates ONE outer local `x`
// (assignments to `x` / its fields, own `let`s, no exits, no interactions):  `let x := (match e with | PAT => <x after A> | _ => x); rest`

#[derive(Default)]
struct JoinScan {
    assigned: Vec<String>,
    declared: Vec<String>,
    exits: bool,
}

fn root_ident(e: &syn::Expr) -> Option<String> {
    match e {
        syn::Expr::Path(p) => p.path.get_ident().map(|i| i.to_string()),
        syn::Expr::Field(f) => root_ident(&f.base),
        syn::Expr::Paren(p) => root_ident(&p.expr),
        syn::Expr::Index(i) => root_ident(&i.expr),
        syn::Expr::Unary(u) if matches!(u.op, syn::UnOp::Deref(_)) => root_ident(&u.expr),
        _ => None,
    }
}

impl<'ast> syn::visit::Visit<'ast> for JoinScan {
    fn visit_expr(&mut self, e: &'ast syn::Expr) {
        match e {
            syn::Expr::Assign(a) => match root_ident(&a.left) {
                Some(n) => self.assigned.push(n),
                None => self.exits = true,
            },
            syn::Expr::Binary(b) if matches!(b.op, syn::BinOp::AddAssign(_) | syn::BinOp::SubAssign(_) | syn::BinOp::MulAssign(_) | syn::BinOp::DivAssign(_)) => match root_ident(&b.left) {
                Some(n) => self.assigned.push(n),
                None => self.exits = true,
            },
            syn::Expr::Return(_) | syn::Expr::Break(_) | syn::Expr::Continue(_) | syn::Expr::Try(_) | syn::Expr::ForLoop(_) | syn::Expr::Loop(_) | syn::Expr::While(_) | syn::Expr::Macro(_) => self.exits = true,
            // `&mut x` handed to something else
            syn::Expr::Reference(r) if r.mutability.is_some() => self.exits = true,
            _ => {}
        }
        syn::visit::visit_expr(self, e);
    }
    fn visit_local(&mut self, l: &'ast syn::Local) {
        fn names(p: &syn::Pat, out: &mut Vec<String>) {
            match p {
                syn::Pat::Ident(i) => out.push(i.ident.to_string()),
                syn::Pat::Type(t) => names(&t.pat, out),
                syn::Pat::Tuple(t) => t.elems.iter().for_each(|x| names(x, out)),
                syn::Pat::Struct(s) => s.fields.iter().for_each(|f| names(&f.pat, out)),
                _ => {}
            }
        }
        names(&l.pat, &mut self.declared);
        syn::visit::visit_local(self, l);
    }
    fn visit_stmt_macro(&mut self, _: &'ast syn::StmtMacro) {
        self.exits = true;
    }
}

impl<'a> crate::expr::Ctx<'a> {
    pub(crate) fn join_if_stmt(&mut self, e: &syn::Expr, conts: &[crate::expr::Frame]) -> crate::expr::R<Option<crate::lean::L>> {
        use crate::lean::L;
        use syn::visit::Visit;
        if !self.join_ifs {
            return Ok(None);
        }
        let i = match e {
            syn::Expr::If(i) if i.else_branch.is_none() => i,
            _ => return Ok(None),
        };
        let mut sc = JoinScan::default();
        sc.visit_block(&i.then_branch);
        if sc.exits || self.prog.as_ref().and_then(|p| p.tree_param.clone()).map(|t| norm(&i.then_branch).contains(&format!("{t}."))).unwrap_or(false) {
            return Ok(None);
        }
        let mut outer: Vec<String> = sc.assigned.iter().filter(|a| !sc.declared.contains(a) && self.locals.contains_key(*a)).cloned().collect();
        outer.sort();
        outer.dedup();
        if outer.len() != 1 || sc.assigned.iter().any(|a| !sc.declared.contains(a) && !self.locals.contains_key(a)) {
            return Ok(None);
        }
        let var = outer[0].clone();
        let lean = self.locals[&var].0.clone();
        let v = match &*i.cond {
            syn::Expr::Let(l) => {
                let (scrut, st) = self.expr(&l.expr, &Ty::Unknown)?;
                let saved = self.locals.clone();
                let alts = self.pat(&l.pat, &st, false);
                let a = match &alts {
                    Ok(_) => self.block_as_update(&i.then_branch.stmts, &var),
                    Err(e) => Err(e.clone()),
                };
                self.locals = saved;
                let (alts, a) = (alts?, a?);
                let mut arms: Vec<(Vec<String>, L)> = alts.into_iter().map(|p| (vec![p], a.clone())).collect();
                arms.push((vec!["_".into()], L::A(lean.clone())));
                L::Match(vec![scrut], arms)
            }
            c => {
                let (cl, ct) = self.expr(c, &Ty::Bool)?;
                if ct != Ty::Bool {
                    return Err("`if` condition is not a bool".into());
                }
                let a = self.block_as_update(&i.then_branch.stmts, &var)?;
                L::If(Box::new(cl), Box::new(a), Box::new(L::A(lean.clone())))
            }
        };
        let b = self.cont(conts)?;
        Ok(Some(L::Let(lean, Box::new(v), Box::new(b))))
    }
}
