//! src/compute/leaf.rs  →  Generated/Leaf.lean
//!
//! `compute_leaf_layout` in full, in interaction form: the user's measure function is an opaque closure parameter, so every call of
//! it is a node `Gen.Leaf.Prog.<parameter name> args (fun answer => …)` of the generated program, answered with the closure's return
//! type; `unreachable!()` is the outcome `Gen.Leaf.Prog.unreachable`. The calc resolver (the closure parameter that takes a `*const ()`)
//! is dropped, as in `Generated/Resolve.lean`. `style: &impl CoreStyle` is `Style α` seen through the `CoreStyle` getters of
//! `Generated/Style.lean`.
use crate::emit::{fn_bound, EffectSig, Out, Plan, PlanExt, ProgPlan};
use crate::expr::Ctx;
use crate::lean::{ident, Ty, World};
use crate::util::{parse_file, CfgEnv};
use std::collections::HashMap;
use syn::Item;

pub const REQUIRED: &[&str] = &["Prog", "Prog.bind", "compute_leaf_layout"];

/// the closure parameters of a function: (name, argument types as written, return type as written, takes a raw pointer)
pub fn closure_params(sig: &syn::Signature) -> Vec<(String, Vec<syn::Type>, Option<syn::Type>, bool)> {
    let mut v = vec![];
    for a in &sig.inputs {
        if let syn::FnArg::Typed(t) = a {
            if let (syn::Pat::Ident(i), Some(pa)) = (&*t.pat, fn_bound(sig, &t.ty)) {
                let ins: Vec<syn::Type> = pa.inputs.iter().cloned().collect();
                let ret = match &pa.output {
                    syn::ReturnType::Default => None,
                    syn::ReturnType::Type(_, t) => Some((**t).clone()),
                };
                let ptr = ins.iter().any(|t| matches!(t, syn::Type::Ptr(_)));
                v.push((i.ident.to_string(), ins, ret, ptr));
            }
        }
    }
    v
}

pub fn extract(repo: &str, w: &mut World) -> Result<String, String> {
    let env = CfgEnv::default_build();
    crate::stmt::check_debug_macros(repo)?;
    let file = parse_file(&format!("{repo}/src/compute/leaf.rs"))?;
    let f = file
        .items
        .iter()
        .find_map(|it| match it {
            Item::Fn(f) if f.sig.ident == "compute_leaf_layout" => Some(f),
            _ => None,
        })
        .ok_or("function compute_leaf_layout not found")?;
    if !env.enabled(&f.attrs)? {
        return Err("compute_leaf_layout is cfg-disabled".into());
    }
    let mut out = Out::new(
        "Gen.Leaf",
        "src/compute/leaf.rs",
        &["TaffyVerif.Generated.Prelude", "TaffyVerif.Generated.Geometry", "TaffyVerif.Generated.AvailableSpace", "TaffyVerif.Generated.LayoutTypes", "TaffyVerif.Generated.MaybeMath", "TaffyVerif.Generated.Resolve", "TaffyVerif.Generated.Axes", "TaffyVerif.Generated.Style"],
    );
    out.comment("Interaction form: the opaque closure parameter (the user's measure function) is not a Lean parameter; each call of it is a node");
    out.comment("`Prog.<parameter> args (fun answer => …)`, in the order the Rust performs the calls; `unreachable!()` is `Prog.unreachable`;");
    out.comment("an argument that can hit `unreachable!()` is evaluated first (as an `Option`). The closure parameter that takes a");
    out.comment("`*const ()` (the calc resolver) is dropped: calc() is not modelled. The `debug_log!` statements expand to nothing without the `debug` feature.");
    out.text.push('\n');
    // the program type: one constructor per opaque closure parameter
    let mut dropped = vec![];
    let mut closures: HashMap<String, EffectSig> = HashMap::new();
    let mut ctors: Vec<(String, Vec<(String, Ty)>, Ty)> = vec![];
    for (name, ins, ret, ptr) in closure_params(&f.sig) {
        if ptr {
            dropped.push(name);
            continue;
        }
        let cx = Ctx::new(w, None, HashMap::new());
        let tys = ins.iter().map(|t| cx.rust_ty(t)).collect::<Result<Vec<_>, _>>().map_err(|e| format!("closure parameter `{name}`: {e}"))?;
        let rt = match &ret {
            Some(t) => cx.rust_ty(t).map_err(|e| format!("closure parameter `{name}`: {e}"))?,
            None => Ty::Unit,
        };
        if tys.iter().any(|t| t.has_unknown()) || rt.has_unknown() {
            return Err(format!("closure parameter `{name}`: type not fully determined"));
        }
        ctors.push((name.clone(), tys.iter().enumerate().map(|(k, t)| (format!("a{k}"), t.clone())).collect(), rt.clone()));
        closures.insert(name.clone(), EffectSig { ctor: format!("Gen.Leaf.Prog.{}", ident(&name)), params: tys, ret: rt, ret_view: None });
    }
    if closures.is_empty() {
        return Err("compute_leaf_layout has no opaque closure parameter (the measure function)".into());
    }
    out.text.push_str(&crate::emit::prog_inductive(
        w,
        "interaction programs of `compute_leaf_layout`: one constructor per opaque closure parameter (the user's measure function) — the call's\narguments, then the continuation on the closure's return value; `unreachable` is `unreachable!()`",
        &["α"],
        &ctors,
    ));
    out.translated.push("Prog".into());
    out.translated.push("Prog.bind".into());
    let prog = ProgPlan { ty_lean: "Gen.Leaf.Prog α".into(), ns_lean: "Gen.Leaf.Prog".into(), closures, ..Default::default() };
    out.function(
        w,
        Plan {
            head: String::new(),
            rust_name: "compute_leaf_layout".into(),
            lean_rel: "compute_leaf_layout".into(),
            self_ty: None,
            generics: HashMap::new(),
            sig: &f.sig,
            block: &f.block,
            required: true,
            trunc_sub: false,
            ext: PlanExt { dropped_params: dropped, prog: Some(prog), doc: Some(" — interaction form (the measure function is queried, not passed)".into()), ..Default::default() },
        },
    );
    out.finish(REQUIRED)
}
