//! src/style/compact_length.rs  →  Generated/CompactLength.lean
//!
//! `usize`, `u64` and `*const ()` become `BitVec 64`; `u32` and `f32` (as its bit pattern: the code only moves
//! f32 values through `f32_to_bits`/`f32_from_bits`) become `BitVec 32`. `CompactLengthInner` (64-bit arm) and
//! `CompactLength` are single-field wrappers and become `BitVec 64`.
use crate::util::{parse_file, CfgEnv};
use std::collections::HashMap;
use syn::{BinOp, Expr, ImplItem, Item, Lit, Pat, Stmt, UnOp};

#[derive(Clone, Copy, PartialEq, Debug)]
enum Ty {
    BV(u32),
    Bool,
    Inner,
    Compact,
}
impl Ty {
    fn lean(self) -> String {
        match self {
            Ty::BV(n) => format!("BitVec {n}"),
            Ty::Bool => "Bool".into(),
            Ty::Inner | Ty::Compact => "BitVec 64".into(),
        }
    }
    fn width(self) -> Option<u32> {
        match self {
            Ty::BV(n) => Some(n),
            Ty::Inner | Ty::Compact => Some(64),
            Ty::Bool => None,
        }
    }
}

#[derive(Clone)]
struct Sig {
    lean: String,
    params: Vec<(String, Ty)>,
    ret: Ty,
}

struct World {
    /// key: "<ns>::<name>" with ns ∈ {"compat","inner","cl"}
    fns: HashMap<String, Sig>,
    consts: HashMap<String, (String, Ty)>,
}

struct Ctx<'a> {
    w: &'a World,
    ns: &'static str,
    self_ty: Option<Ty>,
    locals: HashMap<String, Ty>,
}

fn rust_ty(t: &syn::Type, self_ty: Option<Ty>) -> Result<Ty, String> {
    let s = quote::quote!(#t).to_string().replace(' ', "");
    match s.as_str() {
        "f32" | "u32" => Ok(Ty::BV(32)),
        "usize" | "u64" | "*const()" => Ok(Ty::BV(64)),
        "bool" => Ok(Ty::Bool),
        "Self" => self_ty.ok_or_else(|| "Self outside impl".to_string()),
        "CompactLengthInner" => Ok(Ty::Inner),
        "CompactLength" => Ok(Ty::Compact),
        _ => Err(format!("unsupported type `{s}`")),
    }
}

fn lit_int(l: &syn::LitInt) -> Result<u128, String> {
    l.base10_parse::<u128>().map_err(|e| e.to_string())
}

impl<'a> Ctx<'a> {
    fn find_const(&self, name: &str) -> Option<(String, Ty)> {
        for ns in [self.ns, "cl", "inner"] {
            if let Some(c) = self.w.consts.get(&format!("{ns}::{name}")) {
                return Some(c.clone());
            }
        }
        None
    }
    fn find_fn(&self, ns: &str, name: &str) -> Option<Sig> {
        self.w.fns.get(&format!("{ns}::{name}")).cloned()
    }

    fn expr(&mut self, e: &Expr, expect: Option<Ty>) -> Result<(String, Ty), String> {
        match e {
            Expr::Paren(p) => {
                let (s, t) = self.expr(&p.expr, expect)?;
                Ok((format!("({s})"), t))
            }
            Expr::Group(g) => self.expr(&g.expr, expect),
            Expr::Lit(l) => match &l.lit {
                Lit::Int(i) => {
                    let v = lit_int(i)?;
                    let w = match i.suffix() {
                        "usize" | "u64" => 64,
                        "u32" => 32,
                        "" => expect.and_then(|t| t.width()).ok_or_else(|| format!("integer literal {v} without width context"))?,
                        s => return Err(format!("literal suffix {s}")),
                    };
                    Ok((format!("{v}#{w}"), Ty::BV(w)))
                }
                Lit::Float(f) => {
                    let v: f32 = f.base10_parse().map_err(|e: syn::Error| e.to_string())?;
                    Ok((format!("{}#32", v.to_bits()), Ty::BV(32)))
                }
                Lit::Bool(b) => Ok((b.value.to_string(), Ty::Bool)),
                _ => Err("unsupported literal".into()),
            },
            Expr::Path(p) => {
                let segs: Vec<String> = p.path.segments.iter().map(|s| s.ident.to_string()).collect();
                if segs.len() == 1 {
                    if let Some(t) = self.locals.get(&segs[0]) {
                        return Ok((segs[0].clone(), *t));
                    }
                    if segs[0] == "self" {
                        return Ok(("self".into(), self.self_ty.ok_or("self outside method")?));
                    }
                }
                let name = segs.last().unwrap();
                if let Some((l, t)) = self.find_const(name) {
                    return Ok((l, t));
                }
                Err(format!("unresolved path `{}`", segs.join("::")))
            }
            Expr::Cast(c) => {
                let (s, t) = self.expr(&c.expr, None)?;
                let to = rust_ty(&c.ty, self.self_ty)?;
                let (fw, tw) = (t.width().ok_or("cast from bool")?, to.width().ok_or("cast to bool")?);
                if fw == tw {
                    Ok((s, to))
                } else {
                    // zero-extension or truncation of an unsigned integer
                    Ok((format!("(BitVec.setWidth {tw} {s})"), to))
                }
            }
            Expr::Binary(b) => {
                match &b.op {
                    BinOp::Shl(_) | BinOp::Shr(_) => {
                        let (l, lt) = self.expr(&b.left, expect)?;
                        let n = match &*b.right {
                            Expr::Lit(syn::ExprLit { lit: Lit::Int(i), .. }) => lit_int(i)?,
                            _ => return Err("shift amount must be a literal".into()),
                        };
                        let w = lt.width().ok_or("shift of bool")?;
                        if n as u32 >= w {
                            return Err(format!("shift by {n} overflows a {w}-bit integer (Rust would reject/panic)"));
                        }
                        let op = if matches!(b.op, BinOp::Shl(_)) { "<<<" } else { ">>>" };
                        Ok((format!("({l} {op} {n})"), lt))
                    }
                    BinOp::BitOr(_) | BinOp::BitAnd(_) | BinOp::BitXor(_) => {
                        // determine the width from whichever side has one
                        let (l, lt) = match self.expr(&b.left, expect) {
                            Ok(x) => x,
                            Err(_) => {
                                let (_, rt) = self.expr(&b.right, expect)?;
                                self.expr(&b.left, Some(rt))?
                            }
                        };
                        let (r, rt) = self.expr(&b.right, Some(lt))?;
                        if lt.width() != rt.width() {
                            return Err(format!("bit operation on different widths {:?} {:?}", lt, rt));
                        }
                        let op = match &b.op {
                            BinOp::BitOr(_) => "|||",
                            BinOp::BitAnd(_) => "&&&",
                            _ => "^^^",
                        };
                        Ok((format!("({l} {op} {r})"), Ty::BV(lt.width().unwrap())))
                    }
                    BinOp::Eq(_) | BinOp::Ne(_) => {
                        let (l, lt) = match self.expr(&b.left, None) {
                            Ok(x) => x,
                            Err(_) => {
                                let (_, rt) = self.expr(&b.right, None)?;
                                self.expr(&b.left, Some(rt))?
                            }
                        };
                        let (r, rt) = self.expr(&b.right, Some(lt))?;
                        if lt.width() != rt.width() {
                            return Err("comparison of different widths".into());
                        }
                        let op = if matches!(b.op, BinOp::Eq(_)) { "==" } else { "!=" };
                        Ok((format!("({l} {op} {r})"), Ty::Bool))
                    }
                    BinOp::Or(_) | BinOp::And(_) => {
                        let (l, _) = self.expr(&b.left, Some(Ty::Bool))?;
                        let (r, _) = self.expr(&b.right, Some(Ty::Bool))?;
                        let op = if matches!(b.op, BinOp::Or(_)) { "||" } else { "&&" };
                        Ok((format!("({l} {op} {r})"), Ty::Bool))
                    }
                    _ => Err("unsupported binary operator".into()),
                }
            }
            Expr::Unary(u) => match u.op {
                UnOp::Not(_) => {
                    let (s, t) = self.expr(&u.expr, expect)?;
                    match t {
                        Ty::Bool => Ok((format!("(!{s})"), t)),
                        _ => Ok((format!("(~~~{s})"), t)),
                    }
                }
                _ => Err("unsupported unary operator".into()),
            },
            Expr::Field(f) => {
                let (s, t) = self.expr(&f.base, None)?;
                match (&f.member, t) {
                    (syn::Member::Named(n), Ty::Inner) if n == "tagged_ptr" => Ok((s, Ty::BV(64))),
                    (syn::Member::Unnamed(i), Ty::Compact) if i.index == 0 => Ok((s, Ty::Inner)),
                    _ => Err(format!("unsupported field access `{}`", quote::quote!(#f))),
                }
            }
            Expr::Struct(st) => {
                // Self { tagged_ptr } / Self { tagged_ptr: e }
                if st.fields.len() != 1 {
                    return Err("struct literal with other than one field".into());
                }
                let f = st.fields.first().unwrap();
                match &f.member {
                    syn::Member::Named(n) if n == "tagged_ptr" => {
                        let (s, _) = self.expr(&f.expr, Some(Ty::BV(64)))?;
                        Ok((s, Ty::Inner))
                    }
                    _ => Err("unknown struct field".into()),
                }
            }
            Expr::Call(c) => {
                let path = match &*c.func {
                    Expr::Path(p) => p.path.segments.iter().map(|s| s.ident.to_string()).collect::<Vec<_>>(),
                    _ => return Err("call of non-path".into()),
                };
                let name = path.last().unwrap().clone();
                // tuple-struct constructor Self(x) / CompactLength(x)
                if (name == "Self" && self.self_ty == Some(Ty::Compact)) || name == "CompactLength" {
                    let (s, _) = self.expr(&c.args[0], Some(Ty::Inner))?;
                    return Ok((s, Ty::Compact));
                }
                let ns = if path.len() >= 2 {
                    match path[path.len() - 2].as_str() {
                        "CompactLengthInner" => "inner",
                        "CompactLength" => "cl",
                        "Self" => self.ns,
                        "compat" => "compat",
                        other => return Err(format!("call into unknown namespace {other}")),
                    }
                } else {
                    "compat"
                };
                let sig = self.find_fn(ns, &name).ok_or(format!("call of untranslated function {ns}::{name}"))?;
                if sig.params.len() != c.args.len() {
                    return Err(format!("arity mismatch calling {name}"));
                }
                let mut s = format!("({}", sig.lean);
                for (a, (_, pt)) in c.args.iter().zip(sig.params.iter()) {
                    let (x, xt) = self.expr(a, Some(*pt))?;
                    if xt.width() != pt.width() {
                        return Err(format!("argument width mismatch calling {name}"));
                    }
                    s.push(' ');
                    s.push_str(&x);
                }
                s.push(')');
                Ok((s, sig.ret))
            }
            Expr::MethodCall(m) => {
                let (recv, rt) = self.expr(&m.receiver, None)?;
                let ns = match rt {
                    Ty::Inner => "inner",
                    Ty::Compact => "cl",
                    _ => return Err(format!("method `{}` on a primitive", m.method)),
                };
                let sig = self.find_fn(ns, &m.method.to_string()).ok_or(format!("call of untranslated method {ns}::{}", m.method))?;
                let mut s = format!("({} {recv}", sig.lean);
                for (a, (_, pt)) in m.args.iter().zip(sig.params.iter().skip(1)) {
                    let (x, _) = self.expr(a, Some(*pt))?;
                    s.push(' ');
                    s.push_str(&x);
                }
                s.push(')');
                Ok((s, sig.ret))
            }
            Expr::Macro(m) => {
                if m.mac.path.is_ident("matches") {
                    let (scrut, pat) = m
                        .mac
                        .parse_body_with(|input: syn::parse::ParseStream| {
                            let e: Expr = input.parse()?;
                            let _: syn::Token![,] = input.parse()?;
                            let p = Pat::parse_multi_with_leading_vert(input)?;
                            Ok((e, p))
                        })
                        .map_err(|e| e.to_string())?;
                    let (s, t) = self.expr(&scrut, None)?;
                    let mut alts = vec![];
                    self.pat_alts(&pat, t, &mut alts)?;
                    let parts: Vec<String> = alts.iter().map(|a| format!("({s} == {a})")).collect();
                    Ok((format!("({})", parts.join(" || ")), Ty::Bool))
                } else {
                    Err(format!("unsupported macro {}", quote::quote!(#m)))
                }
            }
            Expr::Block(b) => self.block(&b.block, expect),
            _ => Err(format!("unsupported expression `{}`", quote::quote!(#e))),
        }
    }

    fn pat_alts(&mut self, p: &Pat, t: Ty, out: &mut Vec<String>) -> Result<(), String> {
        match p {
            Pat::Or(o) => {
                for c in &o.cases {
                    self.pat_alts(c, t, out)?;
                }
                Ok(())
            }
            Pat::Path(pp) => {
                let name = pp.path.segments.last().unwrap().ident.to_string();
                let (l, ct) = self.find_const(&name).ok_or(format!("unknown constant pattern {name}"))?;
                if ct.width() != t.width() {
                    return Err("pattern width mismatch".into());
                }
                out.push(l);
                Ok(())
            }
            Pat::Lit(l) => {
                let (s, _) = self.expr(&Expr::Lit(syn::ExprLit { attrs: vec![], lit: l.lit.clone() }), Some(t))?;
                out.push(s);
                Ok(())
            }
            _ => Err("unsupported pattern".into()),
        }
    }

    /// a block: `let` statements, assertion macros (collected as preconditions by the caller), cfg-gated sub-blocks, tail expression
    fn block(&mut self, b: &syn::Block, expect: Option<Ty>) -> Result<(String, Ty), String> {
        let env = CfgEnv::default_build();
        let mut lets = String::new();
        let mut tail: Option<(String, Ty)> = None;
        for st in &b.stmts {
            match st {
                Stmt::Local(l) => {
                    let name = match &l.pat {
                        Pat::Ident(i) => i.ident.to_string(),
                        _ => return Err("unsupported let pattern".into()),
                    };
                    let init = l.init.as_ref().ok_or("let without initialiser")?;
                    let (s, t) = self.expr(&init.expr, None)?;
                    self.locals.insert(name.clone(), t);
                    lets.push_str(&format!("let {name} : {} := {s}\n  ", t.lean()));
                }
                Stmt::Expr(e, _semi) => {
                    let attrs: &[syn::Attribute] = match e {
                        Expr::Block(b) => &b.attrs,
                        _ => &[],
                    };
                    if !env.enabled(attrs)? {
                        continue;
                    }
                    tail = Some(self.expr(e, expect)?);
                }
                Stmt::Macro(m) => {
                    // assert_ne!/assert_eq! are preconditions: translated separately by `preconditions`
                    if m.mac.path.is_ident("assert_ne") || m.mac.path.is_ident("assert_eq") || m.mac.path.is_ident("debug_assert") {
                        continue;
                    }
                    return Err(format!("unsupported statement macro {}", quote::quote!(#m)));
                }
                _ => return Err("unsupported statement".into()),
            }
        }
        let (t, ty) = tail.ok_or("block without tail expression")?;
        Ok((format!("{lets}{t}"), ty))
    }

    fn preconditions(&mut self, b: &syn::Block) -> Result<Vec<String>, String> {
        let mut out = vec![];
        for st in &b.stmts {
            if let Stmt::Macro(m) = st {
                let eq = m.mac.path.is_ident("assert_eq");
                let ne = m.mac.path.is_ident("assert_ne");
                if eq || ne {
                    let args = m
                        .mac
                        .parse_body_with(syn::punctuated::Punctuated::<Expr, syn::Token![,]>::parse_terminated)
                        .map_err(|e| e.to_string())?;
                    let v: Vec<&Expr> = args.iter().collect();
                    let (l, lt) = self.expr(v[0], None)?;
                    let (r, _) = self.expr(v[1], Some(lt))?;
                    out.push(format!("({l} {} {r})", if eq { "==" } else { "!=" }));
                }
            }
        }
        Ok(out)
    }
}

struct FnSrc {
    ns: &'static str,
    name: String,
    self_ty: Option<Ty>,
    sig: syn::Signature,
    block: syn::Block,
}

const REQUIRED: &[&str] = &[
    "inner::from_ptr", "inner::from_val", "inner::from_tag", "inner::calc_tag", "inner::tag", "inner::value", "inner::ptr",
    "cl::length", "cl::percent", "cl::calc", "cl::auto", "cl::fr", "cl::min_content", "cl::max_content", "cl::fit_content_px",
    "cl::fit_content_percent", "cl::tag", "cl::value", "cl::is_calc", "cl::is_auto", "cl::is_fr", "cl::is_length_or_percentage",
    "cl::is_min_content", "cl::is_max_content", "cl::is_fit_content", "cl::is_zero", "cl::uses_percentage",
];

pub fn extract(repo: &str) -> Result<String, String> {
    let file = parse_file(&format!("{repo}/src/style/compact_length.rs"))?;
    let env = CfgEnv::default_build();
    let mut srcs: Vec<FnSrc> = vec![];
    let mut const_srcs: Vec<(&'static str, Option<Ty>, String, syn::Type, Expr)> = vec![];

    fn collect_mod(
        items: &[Item],
        ns: &'static str,
        env: &CfgEnv,
        srcs: &mut Vec<FnSrc>,
        consts: &mut Vec<(&'static str, Option<Ty>, String, syn::Type, Expr)>,
    ) -> Result<(), String> {
        for it in items {
            match it {
                Item::Fn(f) if env.enabled(&f.attrs)? => {
                    srcs.push(FnSrc { ns, name: f.sig.ident.to_string(), self_ty: None, sig: f.sig.clone(), block: (*f.block).clone() });
                }
                Item::Const(c) if env.enabled(&c.attrs)? => {
                    consts.push((ns, None, c.ident.to_string(), (*c.ty).clone(), (*c.expr).clone()));
                }
                Item::Impl(im) if env.enabled(&im.attrs)? => {
                    let self_name = { let t = &im.self_ty; quote::quote!(#t).to_string() };
                    let (ins, sty) = match self_name.as_str() {
                        "CompactLengthInner" => ("inner", Ty::Inner),
                        "CompactLength" => ("cl", Ty::Compact),
                        _ => continue,
                    };
                    // trait impls: only serde ones are skipped (feature off); others contribute consts/fns
                    for ii in &im.items {
                        match ii {
                            ImplItem::Fn(f) if env.enabled(&f.attrs)? => {
                                srcs.push(FnSrc { ns: ins, name: f.sig.ident.to_string(), self_ty: Some(sty), sig: f.sig.clone(), block: f.block.clone() });
                            }
                            ImplItem::Const(c) if env.enabled(&c.attrs)? => {
                                consts.push((ins, Some(sty), c.ident.to_string(), c.ty.clone(), c.expr.clone()));
                            }
                            _ => {}
                        }
                    }
                }
                _ => {}
            }
        }
        Ok(())
    }

    for it in &file.items {
        match it {
            Item::Mod(m) if env.enabled(&m.attrs)? => {
                let ns: &'static str = match m.ident.to_string().as_str() {
                    "compat" => "compat",
                    "inner" => "inner",
                    _ => continue,
                };
                if let Some((_, items)) = &m.content {
                    collect_mod(items, ns, &env, &mut srcs, &mut const_srcs)?;
                }
            }
            _ => {}
        }
    }
    collect_mod(&file.items, "cl", &env, &mut srcs, &mut const_srcs)?;

    let lean_name = |ns: &str, name: &str| -> String {
        // identifiers that are Lean keywords get a trailing underscore
        const RESERVED: &[&str] = &["calc", "from", "end", "at", "fun", "open", "have", "show", "do", "then", "else", "if", "let", "in", "by", "match", "with", "where", "instance", "class", "structure", "def", "theorem", "example", "section", "namespace", "variable", "import"];
        let name = if RESERVED.contains(&name) { format!("{name}_") } else { name.to_string() };
        let name = name.as_str();
        match ns {
            "compat" => format!("Compat.{name}"),
            "inner" => format!("Inner.{name}"),
            _ => name.to_string(),
        }
    };

    // pass 1: signatures
    let mut world = World { fns: HashMap::new(), consts: HashMap::new() };
    // primitives of the compat module are the identity on bit patterns
    world.fns.insert("compat::f32_to_bits".into(), Sig { lean: "Compat.f32_to_bits".into(), params: vec![("val".into(), Ty::BV(32))], ret: Ty::BV(32) });
    world.fns.insert("compat::f32_from_bits".into(), Sig { lean: "Compat.f32_from_bits".into(), params: vec![("v".into(), Ty::BV(32))], ret: Ty::BV(32) });
    let mut sig_errors: HashMap<String, String> = HashMap::new();
    for f in &srcs {
        let key = format!("{}::{}", f.ns, f.name);
        if key == "compat::f32_to_bits" || key == "compat::f32_from_bits" {
            continue;
        }
        let mut params = vec![];
        let mut ok = true;
        for a in &f.sig.inputs {
            match a {
                syn::FnArg::Receiver(_) => params.push(("self".to_string(), f.self_ty.unwrap())),
                syn::FnArg::Typed(t) => {
                    let n = match &*t.pat {
                        Pat::Ident(i) => i.ident.to_string(),
                        _ => {
                            ok = false;
                            break;
                        }
                    };
                    match rust_ty(&t.ty, f.self_ty) {
                        Ok(ty) => params.push((n, ty)),
                        Err(e) => {
                            sig_errors.insert(key.clone(), e);
                            ok = false;
                            break;
                        }
                    }
                }
            }
        }
        if !f.sig.generics.params.is_empty() {
            sig_errors.insert(key.clone(), "generic function".into());
            ok = false;
        }
        let ret = match &f.sig.output {
            syn::ReturnType::Type(_, t) => match rust_ty(t, f.self_ty) {
                Ok(t) => Some(t),
                Err(e) => {
                    sig_errors.insert(key.clone(), e);
                    None
                }
            },
            _ => None,
        };
        if ok {
            if let Some(ret) = ret {
                world.fns.insert(key, Sig { lean: lean_name(f.ns, &f.name), params, ret });
            }
        }
    }
    // constants, in source order
    let mut out = String::new();
    out.push_str("-- generated by tvextract from src/style/compact_length.rs (64-bit arm, default features) — do not edit\n");
    out.push_str("namespace Gen.CL\n\n");
    out.push_str("/-- `f32_to_bits` / `f32_from_bits` are transmutes: the identity on the 32-bit pattern -/\n");
    out.push_str("def Compat.f32_to_bits (val : BitVec 32) : BitVec 32 := val\n");
    out.push_str("def Compat.f32_from_bits (v : BitVec 32) : BitVec 32 := v\n\n");
    // consts that are plain integers first (tags, masks); consts built from constructors after the functions
    let mut late_consts = vec![];
    for (ns, sty, name, ty, ex) in &const_srcs {
        let t = match rust_ty(ty, *sty) {
            Ok(t) => t,
            Err(e) => {
                out.push_str(&format!("-- skipped const {name}: {e}\n"));
                continue;
            }
        };
        if matches!(ex, Expr::Lit(_)) {
            let mut cx = Ctx { w: &world, ns, self_ty: *sty, locals: HashMap::new() };
            let (s, _) = cx.expr(ex, Some(t)).map_err(|e| format!("const {name}: {e}"))?;
            let ln = lean_name(ns, name);
            out.push_str(&format!("def {ln} : {} := {s}\n", t.lean()));
            world.consts.insert(format!("{ns}::{name}"), (ln, t));
        } else {
            late_consts.push((ns, sty, name, t, ex));
        }
    }
    out.push('\n');
    // pass 2: bodies, as a worklist so that definitions are emitted after what they use
    let mut translated: Vec<String> = vec![];
    let all_sigs = std::mem::take(&mut world.fns);
    for k in ["compat::f32_to_bits", "compat::f32_from_bits"] {
        world.fns.insert(k.into(), all_sigs[k].clone());
    }
    enum Pending<'a> {
        F(&'a FnSrc),
        C(&'static str, Option<Ty>, String, Ty, &'a Expr),
    }
    let mut pending: Vec<Pending> = vec![];
    for f in &srcs {
        let key = format!("{}::{}", f.ns, f.name);
        if key == "compat::f32_to_bits" || key == "compat::f32_from_bits" {
            continue;
        }
        if !all_sigs.contains_key(&key) {
            let why = sig_errors.get(&key).cloned().unwrap_or("signature outside the fragment".into());
            if REQUIRED.contains(&key.as_str()) {
                return Err(format!("required function {key} not translatable: {why}"));
            }
            out.push_str(&format!("-- skipped {key}: {why}\n"));
            continue;
        }
        pending.push(Pending::F(f));
    }
    for (ns, sty, name, t, ex) in late_consts {
        pending.push(Pending::C(ns, *sty, name.clone(), t, ex));
    }
    loop {
        let mut progress = false;
        let mut still: Vec<Pending> = vec![];
        let mut last_err: Vec<(String, String)> = vec![];
        for p in pending {
            match &p {
                Pending::F(f) => {
                    let key = format!("{}::{}", f.ns, f.name);
                    let sig = all_sigs[&key].clone();
                    let mut cx = Ctx { w: &world, ns: f.ns, self_ty: f.self_ty, locals: sig.params.iter().cloned().collect() };
                    let pre = cx.preconditions(&f.block);
                    let body = cx.block(&f.block, Some(sig.ret));
                    match (pre, body) {
                        (Ok(pre), Ok((b, bt))) => {
                            if bt.width() != sig.ret.width() {
                                return Err(format!("{key}: body type {:?} does not match return type {:?}", bt, sig.ret));
                            }
                            let ps: String = sig.params.iter().map(|(n, t)| format!(" ({n} : {})", t.lean())).collect();
                            if !pre.is_empty() {
                                out.push_str(&format!("/-- the `assert!`s at the top of `{}` -/\ndef {}{ps} : Bool :=\n  {}\n", f.name, lean_name(f.ns, &format!("{}_pre", f.name)), pre.join(" && ")));
                            }
                            out.push_str(&format!("def {}{ps} : {} :=\n  {b}\n\n", sig.lean, sig.ret.lean()));
                            translated.push(key.clone());
                            world.fns.insert(key, sig);
                            progress = true;
                        }
                        (Err(e), _) | (_, Err(e)) => {
                            last_err.push((key, e));
                            still.push(p);
                        }
                    }
                }
                Pending::C(ns, sty, name, t, ex) => {
                    let mut cx = Ctx { w: &world, ns, self_ty: *sty, locals: HashMap::new() };
                    match cx.expr(ex, Some(*t)) {
                        Ok((s, _)) => {
                            let ln = lean_name(ns, name);
                            out.push_str(&format!("def {ln} : {} := {s}\n\n", t.lean()));
                            world.consts.insert(format!("{ns}::{name}"), (ln, *t));
                            progress = true;
                        }
                        Err(e) => {
                            last_err.push((format!("const {ns}::{name}"), e));
                            still.push(p);
                        }
                    }
                }
            }
        }
        pending = still;
        if pending.is_empty() {
            break;
        }
        if !progress {
            for (k, e) in &last_err {
                if REQUIRED.contains(&k.as_str()) {
                    return Err(format!("required function {k} not translatable: {e}"));
                }
                out.push_str(&format!("-- skipped {k}: {e}\n"));
            }
            break;
        }
    }
    for r in REQUIRED {
        if !translated.iter().any(|t| t == r) {
            return Err(format!("required function {r} is missing from the source"));
        }
    }
    out.push_str("\nend Gen.CL\n");
    Ok(out)
}

