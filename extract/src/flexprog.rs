//! src/compute/flexbox.rs, the functions that call the tree  →  Generated/FlexProg.lean
//!
//! Interaction form over `Gen.Tree.Prog α Nat` exactly as blockmod.rs does for block.rs (the statement fragment, `for_mut` / `for_fold`,
//! the pure reads of the tree as leading parameters are those of blockmod.rs; the loop combinators are `Gen.Block.for_mut` / `for_fold`).
//! New here:
//!   * `AbsoluteAxis` (geometry.rs; the models have no such type) is generated as an inductive and compared with the source;
//!     `FlexDirection::main_axis`, `Size::get_abs`, `impl From<AbsoluteAxis> for RequestedAxis` (read as `into(self)`) and the provided
//!     method `LayoutPartialTreeExt::measure_child_size` (which Generated/Tree.lean leaves out for want of that type) are translated.
//!   * a function with a `&mut [FlexItem]` parameter that returns `()` answers the updated list.
//!   * source-to-source rewritings of a function body, each checked syntactically and applied before the translation:
//!     R1  `P = 'l: { S…; if let Some(v) = E { break 'l v; }; T…; break 'l TAIL; };`  (no other `break 'l`)
//!           ⇒ `S…; let __lb = E.unwrap_or_else(|| { T…; TAIL }); P = __lb;`
//!         (the labelled block's value is `v` when `E` is `Some(v)`, else the value of `T…; TAIL`; the names `S…` declare must not occur
//!         after the statement);
//!     R2  `P = R.unwrap_or({ B…; V });` with `R` a local  ⇒  `B…; P = R.unwrap_or(V);`   (the argument block is evaluated eagerly,
//!         BEFORE `unwrap_or` looks at `R`: its interactions are performed whether or not `R` is `Some`; the names `B…` declare must not
//!         occur after the statement), and inside `B…`:  `let x = { C…; W };` ⇒ `C…; let x = W;` under the same condition;
//!     R3  `X.map(Some)` ⇒ `X.map(|v| Some(v))`, `X.map(Overflow::maybe_into_automatic_min_size)` ⇒ `X.map(|v| v.maybe_into_automatic_min_size())`
//!         (eta-expansion of a function path passed to `map`).
//!     R2' `let x = { C…; W };` at the top level of a loop body ⇒ `C…; let x = W;` (same condition as in R2);
//!     R4  (`measure_child_size`) a body that is the single expression `self.m(args).chain…` ⇒ `let out__ = self.m(args); out__.chain…`.
//!     R5  `let x = E.into();` (immutable, `E` pure) ⇒ dropped, every later `x` reads `(E.into())` (the target type of `into` is known at the uses);
//!     R6  `for x in P` with `P: &mut [T]` a parameter ⇒ `for x in P.iter_mut()`.
//!     R7  `let x = tree.m(args) OP rest;` ⇒ `let out__ = tree.m(args); let x = out__ OP rest;`.
//!     R8  a parameter `p: &mut f32` / `&mut Size<f32>` of a function returning `()` is an in/out value (`p__in` by value, `let mut p = p__in;`,
//!         `*p` is the local, the final values are returned);  R9  a call statement of an R8 function binds the returned values back.
//!   * `for x in P.iter_mut().rev()` (blockmod.rs, additive): the same `for_mut` over `List.reverse P`, the updated list reversed back.
//!   * `determine_container_main_size` is translated only in part: the arm of its `match` that measures the child, as a function of its own
//!     (`content_arm`); of `compute_preliminary` only the hidden-children loop (`hidden_loop`). `calculate_flex_item`,
//!     `calculate_layout_line`, `final_layout_pass` are translated whole.
//! `Props/TieFlexProg.lean` and `Props/TieFlexProg2.lean` prove the generated programs equal to `toGen` of the `ProgM` programs of Model/Flex.lean.
use crate::emit::{check_adt, impls, Out, Plan, PlanExt};
use crate::lean::{Adt, AdtKind, Ty, Variant, World};
use crate::util::{parse_file, CfgEnv};
use std::collections::HashMap;
use syn::visit::Visit;
use syn::{Expr, ImplItem, Item, Pat, Stmt, TraitItem};

pub const NS: &str = "Gen.FlexProg";
pub const REQUIRED: &[&str] = &["FlexDirection.main_axis", "Size.get_abs", "AbsoluteAxis.into_requested", "measure_child_size", "determine_flex_base_size", "determine_hypothetical_cross_size", "calculate_children_base_lines", "calculate_flex_item", "calculate_layout_line", "final_layout_pass", "compute_preliminary_hidden_loop", "determine_container_main_size_content_arm"];

fn toks<T: quote::ToTokens>(t: &T) -> String {
    quote::quote!(#t).to_string()
}

/// all identifiers occurring in a token stream
fn idents_of<T: quote::ToTokens>(t: &T) -> Vec<String> {
    fn walk(ts: proc_macro2::TokenStream, out: &mut Vec<String>) {
        for tt in ts {
            match tt {
                proc_macro2::TokenTree::Ident(i) => out.push(i.to_string()),
                proc_macro2::TokenTree::Group(g) => walk(g.stream(), out),
                _ => {}
            }
        }
    }
    let mut v = vec![];
    walk(quote::quote!(#t), &mut v);
    v
}

/// names declared by the `let`s of a statement list (top level only; patterns: identifiers and tuples of identifiers)
fn declared(stmts: &[Stmt]) -> Result<Vec<String>, String> {
    fn pat(p: &Pat, out: &mut Vec<String>) -> Result<(), String> {
        match p {
            Pat::Ident(i) if i.subpat.is_none() => {
                out.push(i.ident.to_string());
                Ok(())
            }
            Pat::Type(t) => pat(&t.pat, out),
            Pat::Tuple(t) => t.elems.iter().try_for_each(|e| pat(e, out)),
            Pat::Wild(_) => Ok(()),
            _ => Err("hoisting a `let` with a pattern other than identifiers / tuples".into()),
        }
    }
    let mut out = vec![];
    for s in stmts {
        if let Stmt::Local(l) = s {
            pat(&l.pat, &mut out)?;
        }
    }
    Ok(out)
}

fn no_later_use(names: &[String], later: &[Stmt], what: &str) -> Result<(), String> {
    for s in later {
        let ids = idents_of(s);
        if let Some(n) = names.iter().find(|n| ids.contains(n)) {
            return Err(format!("{what}: the hoisted local `{n}` also occurs after the statement"));
        }
    }
    Ok(())
}

struct Breaks<'l> {
    label: &'l str,
    n: usize,
}
impl<'ast, 'l> Visit<'ast> for Breaks<'l> {
    fn visit_expr_break(&mut self, b: &'ast syn::ExprBreak) {
        if b.label.as_ref().map(|l| l.ident == self.label).unwrap_or(false) {
            self.n += 1;
        }
        syn::visit::visit_expr_break(self, b);
    }
}

/// R3 on the token text of a statement
fn eta(s: &Stmt) -> Result<Stmt, String> {
    let t = toks(s);
    let t2 = t.replace(". map (Some)", ". map (| v__ | Some (v__))").replace(". map (Overflow :: maybe_into_automatic_min_size)", ". map (| v__ | v__ . maybe_into_automatic_min_size ())");
    if t2 == t {
        return Ok(s.clone());
    }
    let b: syn::Block = syn::parse_str(&format!("{{ {t2} }}")).map_err(|e| e.to_string())?;
    match b.stmts.as_slice() {
        [s] => Ok(s.clone()),
        _ => Err("internal: eta".into()),
    }
}

/// R2's inner rule: `let x = { C…; W };` ⇒ `C…; let x = W;`
fn flatten_lets(stmts: &[Stmt], outer_later: &[Stmt]) -> Result<Vec<Stmt>, String> {
    let mut out = vec![];
    for (k, s) in stmts.iter().enumerate() {
        if let Stmt::Local(l) = s {
            if let Some(init) = &l.init {
                if let (Expr::Block(b), None) = (&*init.expr, &init.diverge) {
                    if b.label.is_none() && b.attrs.is_empty() {
                        if let Some((Stmt::Expr(w, None), cs)) = b.block.stmts.split_last() {
                            let cs = flatten_lets(cs, &[])?;
                            no_later_use(&declared(&cs)?, &stmts[k + 1..], "R2 (block initialiser)")?;
                            no_later_use(&declared(&cs)?, outer_later, "R2 (block initialiser)")?;
                            out.extend(cs);
                            let mut l2 = l.clone();
                            l2.init.as_mut().unwrap().expr = Box::new(w.clone());
                            out.push(Stmt::Local(l2));
                            continue;
                        }
                    }
                }
            }
        }
        out.push(s.clone());
    }
    Ok(out)
}

// the rewritings R1–R6 on a statement list (recursively inside `for` bodies): `desugar` below
thread_local! {
    /// functions rewritten by R8: name ↦ for every (cfg-enabled) parameter after the tree: is it an in/out value?
    static INOUT_FNS: std::cell::RefCell<HashMap<String, Vec<bool>>> = std::cell::RefCell::new(HashMap::new());
    /// the in/out parameters (R8) of the function being rewritten: passed on bare to another R8 function
    static INOUT_LOCALS: std::cell::RefCell<Vec<String>> = std::cell::RefCell::new(vec![]);
}

thread_local! {
    /// the `&mut [T]` parameters of the function being rewritten (R6)
    static MUT_SLICES: std::cell::RefCell<Vec<String>> = std::cell::RefCell::new(vec![]);
}

fn desugar(stmts: &[Stmt], log: &mut Vec<String>) -> Result<Vec<Stmt>, String> {
    let mut out: Vec<Stmt> = vec![];
    for (k, s) in stmts.iter().enumerate() {
        let later = &stmts[k + 1..];
        match s {
            Stmt::Expr(Expr::ForLoop(f), semi) => {
                let mut f2 = f.clone();
                f2.body.stmts = desugar(&f.body.stmts, log)?;
                // R6: `for x in P` with `P: &mut [T]` a parameter is `for x in P.iter_mut()` (`IntoIterator for &mut [T]`)
                if let Expr::Path(pp) = &*f.expr {
                    if let Some(id) = pp.path.get_ident() {
                        if MUT_SLICES.with(|m| m.borrow().contains(&id.to_string())) {
                            f2.expr = Box::new(syn::parse_str(&format!("{id}.iter_mut()")).map_err(|e| e.to_string())?);
                            log.push(format!("R6 at `for … in {id}`"));
                        }
                    }
                }
                out.push(Stmt::Expr(Expr::ForLoop(f2), *semi));
            }
            Stmt::Expr(Expr::Assign(a), Some(_)) => {
                // R1
                if let Expr::Block(b) = &*a.right {
                    if let Some(label) = &b.label {
                        let lname = label.name.ident.to_string();
                        let body = &b.block.stmts;
                        let pos = body.iter().position(|s| matches!(s, Stmt::Expr(Expr::If(i), _) if matches!(&*i.cond, Expr::Let(_)))).ok_or("R1: labelled block without `if let Some(v) = E { break 'l v; }`")?;
                        let (pre, rest) = body.split_at(pos);
                        let (iflet, rest) = rest.split_first().unwrap();
                        let (e, v) = match iflet {
                            Stmt::Expr(Expr::If(i), _) if i.else_branch.is_none() => match &*i.cond {
                                Expr::Let(l) => {
                                    let v = match &*l.pat {
                                        Pat::TupleStruct(ts) if ts.path.is_ident("Some") && ts.elems.len() == 1 => match &ts.elems[0] {
                                            Pat::Ident(pi) if pi.subpat.is_none() && pi.by_ref.is_none() => pi.ident.to_string(),
                                            _ => return Err("R1: pattern of the `if let`".into()),
                                        },
                                        _ => return Err("R1: pattern of the `if let`".into()),
                                    };
                                    let want = format!("{{ break '{lname} {v} ; }}");
                                    if toks(&i.then_branch) != want {
                                        return Err(format!("R1: the `if let` block is `{}`, expected `{want}`", toks(&i.then_branch)));
                                    }
                                    ((*l.expr).clone(), v)
                                }
                                _ => unreachable!(),
                            },
                            _ => return Err("R1: `if let` with an `else`".into()),
                        };
                        let _ = v;
                        let (last, mid) = rest.split_last().ok_or("R1: labelled block without a final `break`")?;
                        let tail = match last {
                            Stmt::Expr(Expr::Break(br), _) if br.label.as_ref().map(|l| l.ident == lname).unwrap_or(false) && br.expr.is_some() => (**br.expr.as_ref().unwrap()).clone(),
                            _ => return Err("R1: the labelled block does not end with `break 'l TAIL;`".into()),
                        };
                        let mut bc = Breaks { label: &lname, n: 0 };
                        bc.visit_block(&b.block);
                        if bc.n != 2 {
                            return Err(format!("R1: {} `break '{lname}` in the labelled block (expected 2)", bc.n));
                        }
                        for p in pre {
                            if !matches!(p, Stmt::Local(_)) {
                                return Err("R1: a statement other than `let` before the `if let`".into());
                            }
                        }
                        no_later_use(&declared(pre)?, later, "R1")?;
                        // the hoisted name must be fresh
                        let fresh = format!("lb_{lname}");
                        if idents_of(&stmts.to_vec().iter().map(|s| toks(s)).collect::<Vec<_>>().join(" ").parse::<proc_macro2::TokenStream>().map_err(|e| e.to_string())?).contains(&fresh) {
                            return Err(format!("R1: `{fresh}` is not fresh"));
                        }
                        for p in pre {
                            out.push(eta(p)?);
                        }
                        let mid_s: String = mid.iter().map(|s| toks(s)).collect::<Vec<_>>().join(" ");
                        let src = format!("{{ let {fresh} = ({}).unwrap_or_else(|| {{ {mid_s} {} }}); {} = {fresh}; }}", toks(&e), toks(&tail), toks(&a.left));
                        let nb: syn::Block = syn::parse_str(&src).map_err(|e| format!("R1: {e}"))?;
                        out.extend(nb.stmts);
                        log.push(format!("R1 at `{} = '{lname}: {{ … }}`", toks(&a.left)));
                        continue;
                    }
                }
                // R2
                if let Expr::MethodCall(m) = &*a.right {
                    if m.method == "unwrap_or" && m.args.len() == 1 {
                        if let (Expr::Block(b), Expr::Path(rp)) = (&m.args[0], &*m.receiver) {
                            if b.label.is_none() && rp.path.get_ident().is_some() {
                                let (v, bs) = match b.block.stmts.split_last() {
                                    Some((Stmt::Expr(v, None), bs)) => (v, bs),
                                    _ => return Err("R2: the argument block has no value".into()),
                                };
                                let bs = flatten_lets(bs, later)?;
                                let names = declared(&bs)?;
                                no_later_use(&names, later, "R2")?;
                                let recv = rp.path.get_ident().unwrap().to_string();
                                // the hoisted statements must not assign the receiver or the place (they only declare locals)
                                for s in &bs {
                                    if !matches!(s, Stmt::Local(_) | Stmt::Macro(_)) {
                                        return Err("R2: a statement other than `let` in the argument block".into());
                                    }
                                }
                                if names.contains(&recv) || idents_of(&a.left).iter().any(|i| names.contains(i)) {
                                    return Err("R2: the argument block shadows the receiver / the place".into());
                                }
                                for s in &bs {
                                    out.push(eta(s)?);
                                }
                                let src = format!("{{ {} = {recv}.unwrap_or({}); }}", toks(&a.left), toks(v));
                                let nb: syn::Block = syn::parse_str(&src).map_err(|e| format!("R2: {e}"))?;
                                out.extend(nb.stmts);
                                log.push(format!("R2 at `{} = {recv}.unwrap_or({{ … }})`", toks(&a.left)));
                                continue;
                            }
                        }
                    }
                }
                out.push(eta(s)?);
            }
            // R5: `let x = E.into();` (immutable, no type annotation, `E` without the tree): the target type of `into` is only known at the
            // uses of `x` — the statement is dropped and every later `x` reads `(E.into())` (E's operands are immutable parameters / locals)
            Stmt::Local(l) if r5_candidate(l).is_some() => {
                let (x, e) = r5_candidate(l).unwrap();
                let mut rb = Rebinds { name: &x, found: false };
                for s2 in later {
                    rb.visit_stmt(s2);
                }
                if rb.found {
                    return Err(format!("R5: `{x}` is declared again later"));
                }
                // the operands of `E` must not be written later (the uses read `E` again)
                let mut sc = crate::loops::Scan::default();
                for s2 in later {
                    sc.visit_stmt(s2);
                }
                let ids = idents_of(&e);
                if sc.mut_borrow || sc.assigned.iter().any(|a| ids.contains(a)) {
                    return Err(format!("R5: an operand of the initialiser of `{x}` is written later"));
                }
                let rest_src: String = later.iter().map(|s| toks(s)).collect::<Vec<_>>().join(" ");
                let ts: proc_macro2::TokenStream = rest_src.parse().map_err(|e: proc_macro2::LexError| e.to_string())?;
                let repl: proc_macro2::TokenStream = format!("({})", toks(&e)).parse().map_err(|e: proc_macro2::LexError| e.to_string())?;
                let ts2 = subst_ident(ts, &x, &repl);
                let nb: syn::Block = syn::parse2(quote::quote!({ #ts2 })).map_err(|e| format!("R5: {e}"))?;
                log.push(format!("R5 at `let {x} = ….into()`"));
                out.extend(desugar(&nb.stmts, log)?);
                return Ok(out);
            }
            // R7: `let x = tree.m(args) OP rest;` ⇒ `let out__ = tree.m(args); let x = out__ OP rest;` (the left operand is evaluated first)
            Stmt::Local(l) if r7_candidate(l).is_some() => {
                let (call, op_rest) = r7_candidate(l).unwrap();
                if idents_of(&stmts.iter().map(|s| toks(s)).collect::<Vec<_>>().join(" ").parse::<proc_macro2::TokenStream>().map_err(|e| e.to_string())?).contains(&"out__".to_string()) {
                    return Err("R7: `out__` is not fresh".into());
                }
                let src = format!("{{ let out__ = {call}; let __p = out__ {op_rest}; }}");
                let nb: syn::Block = syn::parse_str(&src).map_err(|e| format!("R7: {e}"))?;
                let mut it = nb.stmts.into_iter();
                out.push(it.next().unwrap());
                match it.next() {
                    Some(Stmt::Local(mut l2)) => {
                        l2.pat = l.pat.clone();
                        out.push(Stmt::Local(l2));
                    }
                    _ => return Err("R7: internal".into()),
                }
                log.push("R7 at a `let` whose initialiser starts with a call of the tree".to_string());
            }
            // R4 inside `let x = OPT.unwrap_or_else(|| tree.m(..).chain…)`
            Stmt::Local(l) if r4_closure(l).is_some() => {
                let l2 = r4_closure(l).unwrap()?;
                log.push("R4 at the closure of an `unwrap_or_else`".to_string());
                out.push(eta(&Stmt::Local(l2))?);
            }
            Stmt::Local(_) => {
                let fl = flatten_lets(std::slice::from_ref(s), later)?;
                if fl.len() > 1 {
                    log.push("R2' at a `let` whose initialiser is a block".to_string());
                }
                for x in &fl {
                    out.push(eta(x)?);
                }
            }
            _ => out.push(eta(s)?),
        }
    }
    Ok(out)
}

struct Rebinds<'n> {
    name: &'n str,
    found: bool,
}
impl<'ast, 'n> Visit<'ast> for Rebinds<'n> {
    fn visit_pat_ident(&mut self, p: &'ast syn::PatIdent) {
        if p.ident == self.name {
            self.found = true;
        }
    }
}

/// replace the identifier `x` (not a field / method name: not preceded by `.`) by `repl`
fn subst_ident(ts: proc_macro2::TokenStream, x: &str, repl: &proc_macro2::TokenStream) -> proc_macro2::TokenStream {
    let mut out = proc_macro2::TokenStream::new();
    let mut prev_dot = false;
    for tt in ts {
        match tt {
            proc_macro2::TokenTree::Ident(ref i) if i == x && !prev_dot => {
                out.extend(repl.clone());
                prev_dot = false;
            }
            proc_macro2::TokenTree::Group(g) => {
                let mut g2 = proc_macro2::Group::new(g.delimiter(), subst_ident(g.stream(), x, repl));
                g2.set_span(g.span());
                out.extend([proc_macro2::TokenTree::Group(g2)]);
                prev_dot = false;
            }
            proc_macro2::TokenTree::Punct(ref p) => {
                prev_dot = p.as_char() == '.';
                out.extend([tt.clone()]);
            }
            _ => {
                prev_dot = false;
                out.extend([tt]);
            }
        }
    }
    out
}

fn r5_candidate(l: &syn::Local) -> Option<(String, Expr)> {
    let x = match &l.pat {
        Pat::Ident(i) if i.subpat.is_none() && i.mutability.is_none() && i.by_ref.is_none() => i.ident.to_string(),
        _ => return None,
    };
    let init = l.init.as_ref()?;
    if init.diverge.is_some() {
        return None;
    }
    match &*init.expr {
        Expr::MethodCall(m) if m.method == "into" && m.args.is_empty() && m.turbofish.is_none() => {
            let ids = idents_of(&m.receiver);
            if ids.iter().any(|i| i == "tree" || i == &x) {
                return None;
            }
            Some((x, (*init.expr).clone()))
        }
        _ => None,
    }
}

fn r7_candidate(l: &syn::Local) -> Option<(String, String)> {
    let init = l.init.as_ref()?;
    if init.diverge.is_some() {
        return None;
    }
    match &*init.expr {
        Expr::Binary(b) => match &*b.left {
            Expr::MethodCall(m) if matches!(&*m.receiver, Expr::Path(p) if p.path.is_ident("tree")) && !idents_of(&b.right).contains(&"tree".to_string()) => {
                let op = &b.op;
                let r = &b.right;
                Some((toks(&*b.left), format!("{} ({})", quote::quote!(#op), toks(&**r))))
            }
            _ => None,
        },
        _ => None,
    }
}

fn r4_closure(l: &syn::Local) -> Option<Result<syn::Local, String>> {
    let init = l.init.as_ref()?;
    let m = match &*init.expr {
        Expr::MethodCall(m) if m.method == "unwrap_or_else" && m.args.len() == 1 => m,
        _ => return None,
    };
    let c = match &m.args[0] {
        Expr::Closure(c) if c.inputs.is_empty() => c,
        _ => return None,
    };
    let body_block: syn::Block = match &*c.body {
        Expr::Block(b) if b.label.is_none() => b.block.clone(),
        e => syn::parse2(quote::quote!({ #e })).ok()?,
    };
    let nb = match hoist_tail_interaction(&body_block, "tree") {
        Ok(nb) => nb,
        Err(e) => return Some(Err(e)),
    };
    if toks(&nb) == toks(&body_block) {
        return None;
    }
    let src = format!("let __x = ({}).unwrap_or_else(|| {});", toks(&m.receiver), toks(&nb));
    let st: Result<syn::Block, _> = syn::parse_str(&format!("{{ {src} }}"));
    Some(match st {
        Ok(b) => match b.stmts.into_iter().next() {
            Some(Stmt::Local(mut l2)) => {
                l2.pat = l.pat.clone();
                Ok(l2)
            }
            _ => Err("R4: internal".into()),
        },
        Err(e) => Err(format!("R4: {e}")),
    })
}

/// R4: a function body that is the single expression `self.m(args).chain…` (an interaction followed by field reads / pure method calls)
/// ⇒ `let out__ = self.m(args); out__.chain…` (the receiver of a chain is evaluated first)
fn hoist_tail_interaction(b: &syn::Block, tree: &str) -> Result<syn::Block, String> {
    let e = match b.stmts.as_slice() {
        [Stmt::Expr(e, None)] => e,
        _ => return Ok(b.clone()),
    };
    let mut cur = e;
    loop {
        match cur {
            Expr::MethodCall(m) if matches!(&*m.receiver, Expr::Path(p) if p.path.is_ident(tree)) => break,
            Expr::MethodCall(m) => cur = &m.receiver,
            Expr::Field(f) => cur = &f.base,
            _ => return Ok(b.clone()),
        }
    }
    if std::ptr::eq(cur, e) {
        return Ok(b.clone());
    }
    let (all, call) = (toks(e), toks(cur));
    if !all.starts_with(&call) || idents_of(e).contains(&"out__".to_string()) {
        return Err("R4: internal".into());
    }
    syn::parse_str(&format!("{{ let out__ = {call}; out__ {} }}", &all[call.len()..])).map_err(|e| format!("R4: {e}"))
}

/// the `_ => { … }` arm (no guard) of the one `match (min_main_size, style_preferred, max_main_size)` of `determine_container_main_size`
struct FindArm {
    found: Vec<syn::Block>,
}
impl<'ast> Visit<'ast> for FindArm {
    fn visit_expr_match(&mut self, m: &'ast syn::ExprMatch) {
        if toks(&*m.expr).replace(' ', "") == "(min_main_size,style_preferred,max_main_size)" {
            if let Some(arm) = m.arms.last() {
                if matches!(arm.pat, Pat::Wild(_)) && arm.guard.is_none() {
                    if let Expr::Block(b) = &*arm.body {
                        if b.label.is_none() {
                            self.found.push(b.block.clone());
                        }
                    }
                }
            }
        }
        syn::visit::visit_expr_match(self, m);
    }
}

/// the initialiser of the one immutable `let NAME = …;` of the function
struct FindLet<'n> {
    name: &'n str,
    found: Vec<String>,
}
impl<'ast, 'n> Visit<'ast> for FindLet<'n> {
    fn visit_local(&mut self, l: &'ast syn::Local) {
        if let Pat::Ident(i) = &l.pat {
            if i.ident == self.name && i.mutability.is_none() {
                if let Some(init) = &l.init {
                    self.found.push(toks(&*init.expr));
                }
            }
        }
        syn::visit::visit_local(self, l);
    }
}

/// `determine_container_main_size`, the arm that measures the child: a function of (tree, constants, available_space, item) made of the
/// `let`s of the enclosing function the arm reads (`dir`, `main_content_box_inset`, `style_min`, `style_max`: each declared exactly once,
/// immutable, over `constants` / `item` only) followed by the arm's block
fn content_arm(f: &syn::ItemFn) -> Result<syn::ItemFn, String> {
    let mut fa = FindArm { found: vec![] };
    fa.visit_block(&f.block);
    if fa.found.len() != 1 {
        return Err(format!("{} arms `_ => {{ … }}` of `match (min_main_size, style_preferred, max_main_size)` (expected 1)", fa.found.len()));
    }
    let arm = &fa.found[0];
    let sig = crate::emit::norm(&f.sig.inputs);
    if sig.trim_end_matches(',') != "tree:&mutimplLayoutFlexboxContainer,available_space:Size<AvailableSpace>,lines:&mut[FlexLine<'_>],constants:&mutAlgoConstants" {
        return Err(format!("signature changed: `{sig}`"));
    }
    let mut pre = String::new();
    for name in ["dir", "main_content_box_inset", "style_min", "style_max"] {
        let mut fl = FindLet { name, found: vec![] };
        fl.visit_block(&f.block);
        if fl.found.len() != 1 {
            return Err(format!("`let {name} = …;` occurs {} times (expected 1)", fl.found.len()));
        }
        let ids = idents_of(&fl.found[0].parse::<proc_macro2::TokenStream>().map_err(|e| e.to_string())?);
        let allowed = ["constants", "item", "dir", "content_box_inset", "main_axis_sum", "min_size", "max_size", "main"];
        if let Some(bad) = ids.iter().find(|i| !allowed.contains(&i.as_str())) {
            return Err(format!("the initialiser of `{name}` mentions `{bad}`"));
        }
        pre.push_str(&format!("let {name} = {};\n", fl.found[0]));
    }
    // the arm must not write `item`, `constants`, `lines` (it is a value)
    let mut sc = crate::loops::Scan::default();
    for s in &arm.stmts {
        sc.visit_stmt(s);
    }
    if sc.mut_borrow || sc.assigned.iter().any(|a| ["item", "constants", "lines", "available_space"].contains(&a.as_str())) {
        return Err("the arm writes a variable of the enclosing function".into());
    }
    let body: String = arm.stmts.iter().map(|s| toks(s)).collect::<Vec<_>>().join(" ");
    let src = format!("fn determine_container_main_size_content_arm(tree: &mut impl LayoutFlexboxContainer, constants: &AlgoConstants, available_space: Size<AvailableSpace>, item: &FlexItem) -> f32 {{ {pre} {body} }}");
    syn::parse_str(&src).map_err(|e| format!("content arm: {e}"))
}

/// R8: a parameter `p: &mut T` with `T` a plain value type (`f32`, `Size<f32>`) of a function returning `()` is an in/out value: the
/// parameter becomes `p__in: T`, the body starts with `let mut p = p__in;`, every `*p` reads / writes the local `p` (every occurrence of `p`
/// in the body must be `*p` or `p.method(..)`, so the reference itself is never passed on), and the function returns the final value(s).
/// cfg-gated parameters are kept / dropped by the build configuration.
fn inout_params(f: &syn::ItemFn, env: &CfgEnv, log: &mut Vec<String>) -> Result<syn::ItemFn, String> {
    let mut params: Vec<String> = vec![];
    let mut outs: Vec<(String, String)> = vec![];
    for a in &f.sig.inputs {
        let t = match a {
            syn::FnArg::Typed(t) => t,
            _ => return Err("receiver".into()),
        };
        if !env.enabled(&t.attrs)? {
            continue;
        }
        let n = match &*t.pat {
            Pat::Ident(i) => i.ident.to_string(),
            _ => return Err("parameter pattern".into()),
        };
        let ty = &t.ty;
        match &**ty {
            syn::Type::Reference(r) if r.mutability.is_some() && ["f32", "Size < f32 >"].contains(&toks(&*r.elem).as_str()) => {
                let inner = toks(&*r.elem);
                params.push(format!("{n}__in: {inner}"));
                outs.push((n, inner));
            }
            _ => params.push(format!("{n}: {}", toks(&**ty))),
        }
    }
    {
        let mut kinds = vec![];
        for a in f.sig.inputs.iter().skip(1) {
            if let syn::FnArg::Typed(t) = a {
                if !env.enabled(&t.attrs)? {
                    continue;
                }
                let n = match &*t.pat {
                    Pat::Ident(i) => i.ident.to_string(),
                    _ => String::new(),
                };
                kinds.push(outs.iter().any(|o| o.0 == n));
            }
        }
        INOUT_FNS.with(|m| m.borrow_mut().insert(f.sig.ident.to_string(), kinds));
    }
    INOUT_LOCALS.with(|m| *m.borrow_mut() = outs.iter().map(|o| o.0.clone()).collect());
    if outs.is_empty() {
        // no in/out parameter of its own: only the calls of R8 functions are rewritten (R9); cfg-gated parameters are resolved
        let mut f2 = f.clone();
        f2.block.stmts = r9_calls(&f.block.stmts, env, log)?;
        let mut inputs = syn::punctuated::Punctuated::new();
        for a in f.sig.inputs.iter() {
            if let syn::FnArg::Typed(t) = a {
                if !env.enabled(&t.attrs)? {
                    continue;
                }
                let mut t2 = t.clone();
                t2.attrs.clear();
                inputs.push(syn::FnArg::Typed(t2));
            }
        }
        f2.sig.inputs = inputs;
        return Ok(f2);
    }
    if !matches!(f.sig.output, syn::ReturnType::Default) {
        return Err("R8: the function returns a value".into());
    }
    let stmts9 = r9_calls(&f.block.stmts, env, log)?;
    let mut body: proc_macro2::TokenStream = stmts9.iter().map(|s| quote::quote!(#s)).collect();
    for (n, _) in &outs {
        body = deref_to_local(body, n)?;
    }
    let pre: String = outs.iter().map(|(n, _)| format!("let mut {n} = {n}__in;")).collect::<Vec<_>>().join(" ");
    let (tail, rty) = if outs.len() == 1 { (outs[0].0.clone(), outs[0].1.clone()) } else { (format!("({})", outs.iter().map(|o| o.0.clone()).collect::<Vec<_>>().join(", ")), format!("({})", outs.iter().map(|o| o.1.clone()).collect::<Vec<_>>().join(", "))) };
    let name = &f.sig.ident;
    let src = format!("fn {name}({}) -> {rty} {{ {pre} {body} {tail} }}", params.join(", "));
    log.push(format!("R8 at the parameters {}", outs.iter().map(|o| format!("`{}`", o.0)).collect::<Vec<_>>().join(", ")));
    syn::parse_str(&src).map_err(|e| format!("R8: {e}"))
}

/// R9: a call statement `g(tree, a1, …, an);` of a function rewritten by R8 ⇒ `let (o1__n, …) = g(tree, a1', …); o1 = o1__n; …` — at an
/// in/out position the argument `&mut x` (a local) or `x` (an in/out parameter of the enclosing function, passed on) becomes `*x` resp. `x`
/// read by value and is assigned the returned final value; cfg-gated arguments are kept / dropped by the build configuration; a bare
/// argument that is the loop variable of the enclosing `iter_mut()` loop at a `&mut` struct position is the place it refers to (`&mut x`).
fn r9_calls(stmts: &[Stmt], env: &CfgEnv, log: &mut Vec<String>) -> Result<Vec<Stmt>, String> {
    r9_in(stmts, env, log, &[])
}
fn r9_in(stmts: &[Stmt], env: &CfgEnv, log: &mut Vec<String>, loop_vars: &[String]) -> Result<Vec<Stmt>, String> {
    let mut out = vec![];
    for s in stmts {
        match s {
            Stmt::Expr(Expr::ForLoop(f), semi) => {
                let mut f2 = f.clone();
                let mut lv = loop_vars.to_vec();
                if let Pat::Ident(i) = &*f.pat {
                    if toks(&*f.expr).contains("iter_mut") {
                        lv.push(i.ident.to_string());
                    }
                }
                f2.body.stmts = r9_in(&f.body.stmts, env, log, &lv)?;
                out.push(Stmt::Expr(Expr::ForLoop(f2), *semi));
            }
            Stmt::Expr(Expr::If(i), semi) => {
                let mut i2 = i.clone();
                i2.then_branch.stmts = r9_in(&i.then_branch.stmts, env, log, loop_vars)?;
                if let Some((_, eb)) = &mut i2.else_branch {
                    if let Expr::Block(b) = &mut **eb {
                        b.block.stmts = r9_in(&b.block.stmts.clone(), env, log, loop_vars)?;
                    }
                }
                out.push(Stmt::Expr(Expr::If(i2), *semi));
            }
            Stmt::Expr(Expr::Call(c), Some(_)) => {
                let name = match &*c.func {
                    Expr::Path(p) => p.path.get_ident().map(|i| i.to_string()),
                    _ => None,
                };
                let kinds = name.as_ref().and_then(|n| INOUT_FNS.with(|m| m.borrow().get(n).cloned()));
                let (name, kinds) = match (name, kinds) {
                    (Some(n), Some(k)) => (n, k),
                    _ => {
                        out.push(s.clone());
                        continue;
                    }
                };
                let mut args: Vec<Expr> = vec![];
                for a in &c.args {
                    if env.enabled(crate::expr::expr_attrs_pub(a))? {
                        let mut a2 = a.clone();
                        strip_attrs(&mut a2);
                        args.push(a2);
                    }
                }
                if args.len() != kinds.len() + 1 || toks(&args[0]) != "tree" {
                    return Err(format!("R9: arity of the call of `{name}`"));
                }
                let mut new_args = vec!["tree".to_string()];
                let mut outs: Vec<String> = vec![];
                for (a, io) in args[1..].iter().zip(&kinds) {
                    if *io {
                        let x = match a {
                            Expr::Reference(r) if r.mutability.is_some() => match &*r.expr {
                                Expr::Path(p) if p.path.get_ident().is_some() => p.path.get_ident().unwrap().to_string(),
                                _ => return Err(format!("R9: in/out argument `{}` of `{name}`", toks(a))),
                            },
                            Expr::Path(p) if p.path.get_ident().map(|i| INOUT_LOCALS.with(|m| m.borrow().contains(&i.to_string()))).unwrap_or(false) => {
                                // an in/out parameter passed on: written `*x` so that R8's check of the enclosing function accepts it
                                let x = p.path.get_ident().unwrap().to_string();
                                new_args.push(format!("*{x}"));
                                outs.push(format!("*{x}"));
                                continue;
                            }
                            _ => return Err(format!("R9: in/out argument `{}` of `{name}`", toks(a))),
                        };
                        new_args.push(x.clone());
                        outs.push(x);
                    } else {
                        match a {
                            Expr::Path(p) if p.path.get_ident().map(|i| loop_vars.contains(&i.to_string())).unwrap_or(false) => new_args.push(format!("&mut {}", toks(a))),
                            _ => new_args.push(toks(a)),
                        }
                    }
                }
                let tmp: Vec<String> = (0..outs.len()).map(|k| format!("io{}__n", k + 1)).collect();
                let pat = if tmp.len() == 1 { tmp[0].clone() } else { format!("({})", tmp.join(", ")) };
                let assigns: String = outs.iter().zip(&tmp).map(|(o, t)| format!("{o} = {t};")).collect::<Vec<_>>().join(" ");
                let src = format!("{{ let {pat} = {name}({}); {assigns} }}", new_args.join(", "));
                let nb: syn::Block = syn::parse_str(&src).map_err(|e| format!("R9: {e}"))?;
                out.extend(nb.stmts);
                log.push(format!("R9 at a call of `{name}`"));
            }
            _ => out.push(s.clone()),
        }
    }
    Ok(out)
}

fn strip_attrs(e: &mut Expr) {
    match e {
        Expr::Path(p) => p.attrs.clear(),
        Expr::Reference(r) => r.attrs.clear(),
        Expr::Unary(u) => u.attrs.clear(),
        Expr::Field(f) => f.attrs.clear(),
        Expr::MethodCall(m) => m.attrs.clear(),
        _ => {}
    }
}

/// `*p` ⇒ `p`; any other occurrence of `p` must be followed by `.` (a method call through the reference)
fn deref_to_local(ts: proc_macro2::TokenStream, p: &str) -> Result<proc_macro2::TokenStream, String> {
    let v: Vec<proc_macro2::TokenTree> = ts.into_iter().collect();
    let mut out: Vec<proc_macro2::TokenTree> = vec![];
    let mut k = 0;
    while k < v.len() {
        match &v[k] {
            proc_macro2::TokenTree::Punct(pp) if pp.as_char() == '*' && matches!(v.get(k + 1), Some(proc_macro2::TokenTree::Ident(i)) if i == p) && !(matches!(out.last(), Some(proc_macro2::TokenTree::Ident(_)) | Some(proc_macro2::TokenTree::Literal(_))) || matches!(out.last(), Some(proc_macro2::TokenTree::Group(g)) if g.delimiter() != proc_macro2::Delimiter::Brace)) => {
                out.push(v[k + 1].clone());
                k += 2;
            }
            proc_macro2::TokenTree::Ident(i) if i == p => {
                let after_dot = matches!(out.last(), Some(proc_macro2::TokenTree::Punct(q)) if q.as_char() == '.');
                let before_dot = matches!(v.get(k + 1), Some(proc_macro2::TokenTree::Punct(q)) if q.as_char() == '.');
                if !after_dot && !before_dot {
                    return Err(format!("R8: `{p}` is used other than as `*{p}` / `{p}.method(..)`"));
                }
                out.push(v[k].clone());
                k += 1;
            }
            proc_macro2::TokenTree::Group(g) => {
                let mut g2 = proc_macro2::Group::new(g.delimiter(), deref_to_local(g.stream(), p)?);
                g2.set_span(g.span());
                out.push(proc_macro2::TokenTree::Group(g2));
                k += 1;
            }
            t => {
                out.push(t.clone());
                k += 1;
            }
        }
    }
    Ok(out.into_iter().collect())
}

/// `compute_preliminary`, the hidden-children loop: the two consecutive top-level statements `let len = tree.child_count(node);` and
/// `for order in 0..len { … }` as a function of (tree, node); the loop must write no variable of the enclosing function
fn hidden_loop(f: &syn::ItemFn) -> Result<syn::ItemFn, String> {
    let st = &f.block.stmts;
    let pos: Vec<usize> = (0..st.len()).filter(|k| matches!(&st[*k], Stmt::Expr(Expr::ForLoop(fl), _) if toks(&*fl.pat) == "order" && toks(&*fl.expr).replace(' ', "") == "0..len")).collect();
    if pos.len() != 1 || pos[0] == 0 {
        return Err(format!("{} top-level loops `for order in 0..len` (expected 1)", pos.len()));
    }
    let k = pos[0];
    // the statement before it (debug_log! lines aside) must be the declaration of `len`
    let mut j = k - 1;
    while j > 0 && matches!(&st[j], Stmt::Macro(_)) {
        j -= 1;
    }
    if toks(&st[j]).replace(' ', "") != "letlen=tree.child_count(node);" {
        return Err(format!("the statement before the loop is `{}`", toks(&st[j])));
    }
    let mut sc = crate::loops::Scan::default();
    sc.visit_stmt(&st[k]);
    let written: Vec<String> = sc.outer_assigned().into_iter().filter(|v| v != "tree").collect();
    if sc.mut_borrow || !written.is_empty() {
        return Err(format!("the loop writes {:?}", written));
    }
    let src = format!("fn compute_preliminary_hidden_loop(tree: &mut impl LayoutFlexboxContainer, node: NodeId) {{ {} {} }}", toks(&st[j]), toks(&st[k]));
    syn::parse_str(&src).map_err(|e| format!("hidden loop: {e}"))
}

fn find_fn<'f>(items: &'f [Item], name: &str) -> Option<&'f syn::ItemFn> {
    items.iter().find_map(|it| match it {
        Item::Fn(f) if f.sig.ident == name => Some(f),
        _ => None,
    })
}

pub fn extract(repo: &str, w: &mut World) -> Result<String, String> {
    let env = CfgEnv::default_build();
    crate::stmt::check_debug_macros(repo)?;
    let file = parse_file(&format!("{repo}/src/compute/flexbox.rs"))?;
    if w.adt("FlexItem").is_none() || w.adt("FlexLine").is_none() || w.adt("AlgoConstants").is_none() {
        return Err("the records of Model/Flex.lean are not registered (flexline.rs must run first)".into());
    }
    let base = w.tree_plan.clone().ok_or("the tree traits have not been translated (Generated/Tree.lean)")?;
    let base = crate::blockmod::plan_at_nat(w, &base);
    let mut out = Out::new(
        NS,
        "src/compute/flexbox.rs (the functions that call the tree, interaction form)",
        &["TaffyVerif.Generated.Tree", "TaffyVerif.Generated.Block", "TaffyVerif.Generated.Flex", "TaffyVerif.Model.Flex"],
    );
    out.comment("Interaction form over `Gen.Tree.Prog α Nat` (Generated/Tree.lean), translated by the rules of extract/src/blockmod.rs (see Generated/Block.lean;");
    out.comment("the loop combinators are `Gen.Block.for_mut` / `Gen.Block.for_fold`), after the source-to-source rewritings R1–R6 of extract/src/flexprog.rs");
    out.comment("(labelled block with an early `break` value ⇒ `unwrap_or_else`; eagerly evaluated block argument of `unwrap_or` hoisted before the call;");
    out.comment("eta-expansion of function paths passed to `map`; `self.m(..).chain` ⇒ `let out__ = self.m(..); out__.chain`; `let x = E.into();` inlined at its uses;");
    out.comment("`for x in P` over a `&mut [T]` parameter ⇒ `P.iter_mut()`). Each function's doc comment lists the rewritings applied to it.");
    out.comment("A child is addressed by its index; `get_flexbox_child_style` is a leading parameter.");
    out.text.push('\n');
    // ---- AbsoluteAxis
    let geo = parse_file(&format!("{repo}/src/geometry.rs"))?;
    w.adts.push(Adt {
        rust: "AbsoluteAxis".into(),
        lean: format!("{NS}.AbsoluteAxis"),
        alpha: false,
        nparams: 0,
        kind: AdtKind::Enum(vec![Variant { rust: "Horizontal".into(), lean: "horizontal".into(), args: vec![] }, Variant { rust: "Vertical".into(), lean: "vertical".into(), args: vec![] }]),
    });
    check_adt(w, &geo.items, &env, "AbsoluteAxis", true)?;
    out.text.push_str("/-- `enum AbsoluteAxis` (src/geometry.rs; generated and compared with the source: the models have no such type) -/\ninductive AbsoluteAxis where\n  | horizontal\n  | vertical\nderiving DecidableEq, Repr\n\n");
    out.translated.push("AbsoluteAxis".into());
    // ---- FlexDirection::main_axis
    let flex = parse_file(&format!("{repo}/src/style/flex.rs"))?;
    let mut fv = vec![];
    impls(&flex.items, &env, &[], &mut fv)?;
    for info in &fv {
        if info.trait_.is_none() && info.self_ty == "FlexDirection" {
            for ii in info.items {
                if let ImplItem::Fn(ff) = ii {
                    if (ff.sig.ident == "main_axis" || ff.sig.ident == "cross_axis") && env.enabled(&ff.attrs)? {
                        let nm = ff.sig.ident.to_string();
                        out.function(w, Plan { head: "FlexDirection".into(), rust_name: nm.clone(), lean_rel: format!("FlexDirection.{nm}"), self_ty: Some(Ty::adt("FlexDirection", vec![])), generics: HashMap::new(), sig: &ff.sig, block: &ff.block, required: true, trunc_sub: false, ext: Default::default() });
                    }
                }
            }
        }
    }
    // ---- Size::get_abs
    let mut gv = vec![];
    impls(&geo.items, &env, &[], &mut gv)?;
    let beta = Ty::Var("β".into());
    let gb: HashMap<String, Ty> = [("T".to_string(), beta.clone())].into_iter().collect();
    for info in &gv {
        if info.trait_.is_none() && info.self_ty == "Size<T>" && info.generics.len() == 1 {
            for ii in info.items {
                if let ImplItem::Fn(ff) = ii {
                    if ff.sig.ident == "get_abs" && env.enabled(&ff.attrs)? {
                        out.function(w, Plan { head: "Size".into(), rust_name: "get_abs".into(), lean_rel: "Size.get_abs".into(), self_ty: Some(Ty::adt("Size", vec![beta.clone()])), generics: gb.clone(), sig: &ff.sig, block: &ff.block, required: true, trunc_sub: false, ext: PlanExt { type_vars: true, ..Default::default() } });
                    }
                }
            }
        }
        // `impl<T> From<Point<T>> for Size<T>`: `point.into()` at a `Size` (its `from(value)` read as `into(self)`), polymorphic
        if (info.self_ty.as_str(), info.trait_.as_deref()) == ("Size<T>", Some("From<Point<T>>")) {
            for ii in info.items {
                if let ImplItem::Fn(ff) = ii {
                    if ff.sig.ident == "from" {
                        if crate::emit::norm(&ff.sig) != "fnfrom(value:Point<T>)->Self" {
                            return Err(format!("`impl From<Point<T>> for Size<T>`: signature is `{}`", crate::emit::norm(&ff.sig)));
                        }
                        let sig: syn::Signature = syn::parse_str("fn into(self) -> Size<T>").map_err(|e| e.to_string())?;
                        let body: syn::Block = syn::parse_str(&toks(&ff.block).replace("value", "self")).map_err(|e| e.to_string())?;
                        out.function(w, Plan { head: "Point".into(), rust_name: "into".into(), lean_rel: "Point.into_size".into(), self_ty: Some(Ty::adt("Point", vec![beta.clone()])), generics: gb.clone(), sig: &sig, block: &body, required: true, trunc_sub: false, ext: PlanExt { type_vars: true, ..Default::default() } });
                    }
                }
            }
        }
    }
    // ---- impl From<AbsoluteAxis> for RequestedAxis (tree/layout.rs), read as `AbsoluteAxis::into(self) -> RequestedAxis`
    let lay = parse_file(&format!("{repo}/src/tree/layout.rs"))?;
    let mut lv = vec![];
    impls(&lay.items, &env, &[], &mut lv)?;
    for info in &lv {
        if (info.self_ty.as_str(), info.trait_.as_deref()) == ("RequestedAxis", Some("From<AbsoluteAxis>")) {
            for ii in info.items {
                if let ImplItem::Fn(ff) = ii {
                    if ff.sig.ident == "from" {
                        if crate::emit::norm(&ff.sig) != "fnfrom(value:AbsoluteAxis)->Self" {
                            return Err(format!("`impl From<AbsoluteAxis> for RequestedAxis`: signature is `{}`", crate::emit::norm(&ff.sig)));
                        }
                        let sig: syn::Signature = syn::parse_str("fn into(self) -> RequestedAxis").map_err(|e| e.to_string())?;
                        let body: syn::Block = syn::parse_str(&toks(&ff.block).replace("value", "self")).map_err(|e| e.to_string())?;
                        out.function(w, Plan { head: "AbsoluteAxis".into(), rust_name: "into".into(), lean_rel: "AbsoluteAxis.into_requested".into(), self_ty: Some(Ty::adt("AbsoluteAxis", vec![])), generics: HashMap::new(), sig: &sig, block: &body, required: true, trunc_sub: false, ext: Default::default() });
                    }
                }
            }
        }
    }
    // ---- LayoutPartialTreeExt::measure_child_size (provided method; `self` is the tree), at `NodeId := Nat`
    let traits = parse_file(&format!("{repo}/src/tree/traits.rs"))?;
    let ext = traits
        .items
        .iter()
        .find_map(|it| match it {
            Item::Trait(t) if t.ident == "LayoutPartialTreeExt" => Some(t),
            _ => None,
        })
        .ok_or("trait LayoutPartialTreeExt not found")?;
    let mut found = false;
    for ti in &ext.items {
        if let TraitItem::Fn(f) = ti {
            if f.sig.ident == "measure_child_size" && env.enabled(&f.attrs)? {
                let block = &hoist_tail_interaction(f.default.as_ref().ok_or("`LayoutPartialTreeExt::measure_child_size` has no body")?, "self")?;
                let mut pp = base.clone();
                pp.tree_param = Some("self".into());
                out.function(
                    w,
                    Plan {
                        head: crate::blockmod::TREE_HEAD_NAT.into(),
                        rust_name: "measure_child_size".into(),
                        lean_rel: "measure_child_size".into(),
                        self_ty: None,
                        generics: crate::blockmod::generics(),
                        sig: &f.sig,
                        block,
                        required: true,
                        trunc_sub: false,
                        ext: PlanExt { prog: Some(pp), doc: Some(" (provided method of `LayoutPartialTreeExt`; `self` is the tree; `NodeId := Nat`)".into()), ..Default::default() },
                    },
                );
                found = true;
            }
        }
    }
    if !found {
        out.errors.push("required function `measure_child_size` is missing from the source".into());
    }
    // ---- the functions of flexbox.rs
    for name in ["determine_flex_base_size", "determine_hypothetical_cross_size", "calculate_children_base_lines"] {
        match find_fn(&file.items, name) {
            Some(f) if env.enabled(&f.attrs)? => {
                let mut log = vec![];
                let slices: Vec<String> = f
                    .sig
                    .inputs
                    .iter()
                    .filter_map(|a| match a {
                        syn::FnArg::Typed(t) => match (&*t.pat, &*t.ty) {
                            (Pat::Ident(i), syn::Type::Reference(r)) if r.mutability.is_some() && matches!(&*r.elem, syn::Type::Slice(_)) => Some(i.ident.to_string()),
                            _ => None,
                        },
                        _ => None,
                    })
                    .collect();
                MUT_SLICES.with(|m| *m.borrow_mut() = slices);
                match desugar(&f.block.stmts, &mut log) {
                    Ok(stmts) => {
                        let mut f2 = f.clone();
                        f2.block.stmts = stmts;
                        let doc = if log.is_empty() { String::new() } else { format!("; rewritten before translation: {}", log.join(", ")) };
                        crate::blockmod::prog_fn(&mut out, w, &f2, &base, &doc, NS);
                    }
                    Err(e) => out.errors.push(format!("required function `{name}` is outside the translated fragment: {e}")),
                }
            }
            _ => out.errors.push(format!("required function `{name}` is missing from the source")),
        }
    }
    // ---- calculate_flex_item (R8: its `&mut f32` / `&mut Size<f32>` parameters are in/out values)
    {
    match find_fn(&file.items, "calculate_flex_item") {
        Some(f) if env.enabled(&f.attrs)? => {
            let mut log = vec![];
            match inout_params(f, &env, &mut log).and_then(|f2| {
                MUT_SLICES.with(|m| m.borrow_mut().clear());
                let stmts = desugar(&f2.block.stmts, &mut log)?;
                let mut f3 = f2.clone();
                f3.block.stmts = stmts;
                Ok(f3)
            }) {
                Ok(f3) => {
                    let doc = format!("; rewritten before translation: {}", log.join(", "));
                    crate::blockmod::prog_fn(&mut out, w, &f3, &base, &doc, NS);
                }
                Err(e) => out.errors.push(format!("required function `calculate_flex_item` is outside the translated fragment: {e}")),
            }
        }
        _ => out.errors.push("required function `calculate_flex_item` is missing from the source".into()),
    }
    }
    {
        for name in ["calculate_layout_line", "final_layout_pass"] {
            match find_fn(&file.items, name) {
                Some(f) if env.enabled(&f.attrs)? => {
                    let mut log = vec![];
                    match inout_params(f, &env, &mut log).and_then(|f2| {
                        MUT_SLICES.with(|m| m.borrow_mut().clear());
                        let stmts = desugar(&f2.block.stmts, &mut log)?;
                        let mut f3 = f2.clone();
                        f3.block.stmts = stmts;
                        Ok(f3)
                    }) {
                        Ok(f3) => {
                            let doc = format!("; rewritten before translation: {}", log.join(", "));
                            crate::blockmod::prog_fn(&mut out, w, &f3, &base, &doc, NS);
                        }
                        Err(e) => out.errors.push(format!("required function `{name}` is outside the translated fragment: {e}")),
                    }
                }
                _ => out.errors.push(format!("required function `{name}` is missing from the source")),
            }
        }
    }
    // ---- compute_preliminary: the hidden-children loop (the rest of the function is not translated)
    match find_fn(&file.items, "compute_preliminary") {
        Some(f) if env.enabled(&f.attrs)? => match hidden_loop(f) {
            Ok(f2) => {
                let doc = ": the statements `let len = tree.child_count(node);` and `for order in 0..len { … }` (the hidden-children loop) of `compute_preliminary` as a function of (tree, node); the rest of `compute_preliminary` is NOT translated";
                crate::blockmod::prog_fn(&mut out, w, &f2, &base, doc, NS);
            }
            Err(e) => out.errors.push(format!("required function `compute_preliminary_hidden_loop` is outside the translated fragment: {e}")),
        },
        _ => out.errors.push("required function `compute_preliminary` is missing from the source".into()),
    }
    // ---- determine_container_main_size: the arm that measures the child (the rest of the function is not translated)
    match find_fn(&file.items, "determine_container_main_size") {
        Some(f) if env.enabled(&f.attrs)? => match content_arm(f).and_then(|f2| {
            let mut log = vec![];
            MUT_SLICES.with(|m| m.borrow_mut().clear());
            let stmts = desugar(&f2.block.stmts, &mut log)?;
            let mut f3 = f2.clone();
            f3.block.stmts = stmts;
            Ok((f3, log))
        }) {
            Ok((f3, log)) => {
                let doc = format!(": the `_ => {{ … }}` arm of `match (min_main_size, style_preferred, max_main_size)` of `determine_container_main_size` (the arm that measures the child) as a function of (constants, available_space, item), preceded by the `let`s of the enclosing function it reads (`dir`, `main_content_box_inset`, `style_min`, `style_max`); the rest of `determine_container_main_size` is NOT translated; rewritten before translation: {}", log.join(", "));
                crate::blockmod::prog_fn(&mut out, w, &f3, &base, &doc, NS);
            }
            Err(e) => out.errors.push(format!("required function `determine_container_main_size_content_arm` is outside the translated fragment: {e}")),
        },
        _ => out.errors.push("required function `determine_container_main_size` is missing from the source".into()),
    }
    out.finish(REQUIRED)
}
