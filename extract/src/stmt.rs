//! Statement level of the translator: blocks, `match`, early `return`s (the rest of the function is pushed into the
//! branches), assignments to locals / fields of locals (state passing by shadowing), the search loop.
use crate::expr::{Ctx, Frame, RetMode, R};
use crate::lean::{AdtKind, Ty, L};
use syn::{Expr, Pat, Stmt};

impl<'a> Ctx<'a> {
    // ------------------------------------------------------------------------------------------ value blocks
    /// a block used as a value: `let`s and a tail expression
    pub fn block_value(&mut self, stmts: &[Stmt], expect: &Ty) -> R<(L, Ty)> {
        let saved = self.locals.clone();
        let r = self.block_value_inner(stmts, expect);
        self.locals = saved;
        r
    }
    fn block_value_inner(&mut self, stmts: &[Stmt], expect: &Ty) -> R<(L, Ty)> {
        let mut lets: Vec<(String, L)> = vec![];
        let mut tail = None;
        for (k, st) in stmts.iter().enumerate() {
            match st {
                Stmt::Item(_) => {}
                Stmt::Local(l) => lets.extend(self.local(l, false)?),
                Stmt::Expr(e, None) if k + 1 == stmts.len() => tail = Some(self.expr(e, expect)?),
                Stmt::Macro(m) if is_assert(&m.mac) || is_noop_macro(&m.mac) => {}
                _ => return Err(format!("statement `{}` inside a block used as a value", quote::quote!(#st))),
            }
        }
        let (mut l, t) = tail.ok_or("block without tail expression used as a value")?;
        for (p, v) in lets.into_iter().rev() {
            l = L::Let(p, Box::new(v), Box::new(l));
        }
        Ok((l, t))
    }

    /// one `let`: the Lean bindings it becomes (several for an irrefutable struct pattern: one projection per bound field)
    pub(crate) fn local(&mut self, l: &syn::Local, rename: bool) -> R<Vec<(String, L)>> {
        let (pat, ann) = match &l.pat {
            Pat::Type(pt) => (&*pt.pat, Some(self.rust_ty(&pt.ty)?)),
            p => (p, None),
        };
        let init = l.init.as_ref().ok_or("`let` without initialiser")?;
        if init.diverge.is_some() {
            return Err("let-else".into());
        }
        let (v, vt) = self.expr(&init.expr, ann.as_ref().unwrap_or(&Ty::Unknown))?;
        let vt = match &ann {
            Some(a) => vt.join(a),
            None => vt,
        };
        match pat {
            Pat::Ident(i) => {
                self.views.remove(&i.ident.to_string());
                let n = self.declare(&i.ident.to_string(), vt, rename);
                Ok(vec![(n, v)])
            }
            Pat::Tuple(_) => {
                let alts = self.pat(pat, &vt, rename)?;
                if alts.len() != 1 {
                    return Err("refutable `let` pattern".into());
                }
                Ok(vec![(alts[0].clone(), v)])
            }
            Pat::Wild(_) => Ok(vec![("_".into(), v)]),
            // `let LayoutInput { known_dimensions, run_mode, .. } = inputs;`  ⇒  `let known_dimensions := inputs.knownDimensions` …
            Pat::Struct(ps) => {
                let an = match &vt {
                    Ty::Adt(n, _) => n.clone(),
                    _ => return Err("struct pattern in `let` against a non-struct".into()),
                };
                if *path_last(&ps.path) != an {
                    return Err(format!("struct pattern of {} against a value of type {an}", path_last(&ps.path)));
                }
                let mut out = vec![];
                let base = match &v {
                    L::A(s) if !s.contains(' ') => v.clone(),
                    _ => {
                        let tmp = self.fresh_name("tmp");
                        out.push((tmp.clone(), v));
                        L::A(tmp)
                    }
                };
                let mut seen: Vec<String> = vec![];
                for fp in &ps.fields {
                    if !self.env.enabled(&fp.attrs)? {
                        continue;
                    }
                    let fname = match &fp.member {
                        syn::Member::Named(n) => n.to_string(),
                        _ => return Err("positional struct pattern".into()),
                    };
                    // the projection is typed by the existing field-access rule
                    let fe: syn::Expr = syn::parse_str(&format!("__base.{fname}")).map_err(|e| e.to_string())?;
                    self.locals.insert("__base".into(), (base.render(0, false), vt.clone()));
                    let r = self.expr(&fe, &Ty::Unknown);
                    self.locals.remove("__base");
                    let (proj, pty) = r?;
                    match &*fp.pat {
                        Pat::Ident(i) if i.subpat.is_none() && i.by_ref.is_none() => {
                            self.views.remove(&i.ident.to_string());
                            let n = self.declare(&i.ident.to_string(), pty, rename);
                            out.push((n, proj));
                        }
                        Pat::Wild(_) => {}
                        _ => return Err("nested pattern inside a struct pattern of a `let`".into()),
                    }
                    seen.push(fname);
                }
                if ps.rest.is_none() {
                    if let Some(crate::lean::AdtKind::Struct(fs)) = self.w.adt(&an).map(|a| a.kind.clone()) {
                        for f in &fs {
                            if !seen.contains(&f.rust) {
                                return Err(format!("struct pattern of {an} lacks field `{}`", f.rust));
                            }
                        }
                    }
                }
                Ok(out)
            }
            _ => Err("unsupported `let` pattern".into()),
        }
    }

    // ------------------------------------------------------------------------------------------ match
    /// `conts`: None = value position; Some = statement/tail position (bodies are translated with the continuation)
    pub fn match_expr(&mut self, m: &syn::ExprMatch, expect: &Ty, conts: Option<(&[Frame], bool)>) -> R<(L, Ty)> {
        if let Some(r) = self.tag_match(m, expect, &conts)? {
            return Ok(r);
        }
        // loops.rs (opt-in): `match s { v if g => …, _ => … }` over irrefutable patterns
        if let Some(r) = self.ext_guard_chain(m, expect, &conts)? {
            return Ok(r);
        }
        // a tuple literal scrutinee becomes a multi-discriminant match
        let (scruts, stys): (Vec<L>, Vec<Ty>) = match &*m.expr {
            Expr::Tuple(t) if !t.elems.is_empty() => {
                let mut ls = vec![];
                let mut ts = vec![];
                for x in &t.elems {
                    let (l, ty) = self.expr(x, &Ty::Unknown)?;
                    ls.push(l);
                    ts.push(ty);
                }
                (ls, ts)
            }
            e => {
                let (l, ty) = self.expr(e, &Ty::Unknown)?;
                (vec![l], vec![ty])
            }
        };
        let multi = scruts.len() > 1;
        let whole_ty = if multi { Ty::Tuple(stys.clone()) } else { stys[0].clone() };
        let rename = conts.is_some();
        let mut arms: Vec<(Vec<String>, L)> = vec![];
        let mut result_ty = expect.clone();
        // arms are processed last to first so that a guarded arm can fall through to the arms after it
        let mut translated: Vec<(Vec<Vec<String>>, Option<L>, L)> = vec![];
        for arm in &m.arms {
            if !self.env.enabled(&arm.attrs)? {
                continue;
            }
            let saved = self.locals.clone();
            let alts: Vec<Vec<String>> = if multi {
                match &arm.pat {
                    Pat::Tuple(tp) => self.tuple_pat(tp, &whole_ty, rename)?,
                    Pat::Wild(_) => vec![vec!["_".to_string(); scruts.len()]],
                    Pat::Or(o) => {
                        let mut out = vec![];
                        for c in &o.cases {
                            match c {
                                Pat::Tuple(tp) => out.extend(self.tuple_pat(tp, &whole_ty, rename)?),
                                _ => return Err("unsupported or-pattern over a tuple scrutinee".into()),
                            }
                        }
                        out
                    }
                    _ => return Err("unsupported pattern over a tuple scrutinee".into()),
                }
            } else {
                self.pat(&arm.pat, &whole_ty, rename)?.into_iter().map(|p| vec![p]).collect()
            };
            let guard = match &arm.guard {
                Some((_, g)) => {
                    let (gl, gt) = self.expr(g, &Ty::Bool)?;
                    if gt != Ty::Bool {
                        return Err("guard is not a bool".into());
                    }
                    Some(gl)
                }
                None => None,
            };
            let body = match &conts {
                None => {
                    let (b, bt) = self.expr(&arm.body, &result_ty)?;
                    if !result_ty.compatible(&bt) {
                        return Err(format!("match arms have different types {:?} / {:?}", result_ty, bt));
                    }
                    result_ty = result_ty.join(&bt);
                    b
                }
                Some((frames, value_tail)) => {
                    if *value_tail {
                        self.tail_value(&arm.body)?
                    } else {
                        self.stmt_expr(&arm.body, frames)?
                    }
                }
            };
            self.locals = saved;
            translated.push((alts, guard, body));
        }
        // guards: `p if g => e` becomes `p => if g then e else (match s with <arms after>)`; the inner match repeats the
        // scrutinees, so a scrutinee variable that a guarded arm's pattern rebinds is first bound to a fresh name
        let mut prebind: Vec<(String, L)> = vec![];
        let mut scruts = scruts;
        {
            let word = |hay: &str, w: &str| hay.split(|c: char| !(c.is_alphanumeric() || c == '_' || c == '\'')).any(|x| x == w);
            let collide = translated.iter().any(|(alts, g, _)| g.is_some() && alts.iter().any(|a| a.iter().any(|p| scruts.iter().any(|s| matches!(s, L::A(n) if word(p, n))))));
            if collide {
                for sc in scruts.iter_mut() {
                    let n = self.fresh_name("scrut");
                    prebind.push((n.clone(), sc.clone()));
                    *sc = L::A(n);
                }
            }
        }
        let mut after: Vec<(Vec<String>, L)> = vec![];
        for (alts, guard, body) in translated.into_iter().rev() {
            let body = match guard {
                None => body,
                Some(g) => {
                    if after.is_empty() {
                        return Err("guarded last arm".into());
                    }
                    let mut rest = after.clone();
                    rest.reverse();
                    L::If(Box::new(g), Box::new(body), Box::new(L::Match(scruts.clone(), rest)))
                }
            };
            for a in alts.into_iter().rev() {
                after.push((a, body.clone()));
            }
        }
        after.reverse();
        arms.extend(after);
        let mut out = L::Match(scruts, arms);
        for (n, v) in prebind.into_iter().rev() {
            out = L::Let(n, Box::new(v), Box::new(out));
        }
        Ok((out, result_ty))
    }

    /// the shape `match self.0.tag() { CompactLength::X_TAG => …, _ if self.0.is_calc() => …, _ => unreachable!() }`
    /// over one of the style length wrappers, translated against the abstract inductive (`LP` / `LPA`)
    fn tag_match(&mut self, m: &syn::ExprMatch, expect: &Ty, conts: &Option<(&[Frame], bool)>) -> R<Option<(L, Ty)>> {
        if self.self_dot_zero_method(&m.expr).as_deref() != Some("tag") {
            return Ok(None);
        }
        let (adt_lean, variants) = match &self.self_ty {
            Some(Ty::Adt(n, _)) => match self.w.adt(n).map(|a| (a.lean.clone(), a.kind.clone())) {
                Some((lean, AdtKind::Length(v))) => (lean, v),
                _ => return Ok(None),
            },
            _ => return Ok(None),
        };
        let tail = match conts {
            None => false,
            Some((frames, true)) if frames.is_empty() => true,
            Some(_) => return Err("tag match in statement position".into()),
        };
        let self_l = self.locals.get("self").map(|x| x.0.clone()).ok_or("tag match without self")?;
        let mut arms = vec![];
        let mut seen: Vec<String> = vec![];
        let mut result_ty = expect.clone();
        for arm in &m.arms {
            if !self.env.enabled(&arm.attrs)? {
                continue;
            }
            match &arm.pat {
                Pat::Path(pp) => {
                    let name = pp.path.segments.last().unwrap().ident.to_string();
                    let (_, ctor, payload) = variants.iter().find(|v| v.0 == name).ok_or(format!("tag `{name}` is not a constructor of {adt_lean}"))?.clone();
                    if arm.guard.is_some() {
                        return Err("guard on a tag arm".into());
                    }
                    let pv = if payload { Some("v".to_string()) } else { None };
                    self.tag_payload = Some(pv.clone());
                    let r = self.expr(&arm.body, &result_ty);
                    self.tag_payload = None;
                    let (b, bt) = r?;
                    if !result_ty.compatible(&bt) {
                        return Err(format!("tag arms have different types {:?} / {:?}", result_ty, bt));
                    }
                    result_ty = result_ty.join(&bt);
                    let b = if tail { self.ret(b)? } else { b };
                    let pat = if payload { format!("{adt_lean}.{ctor} v") } else { format!("{adt_lean}.{ctor}") };
                    arms.push((vec![pat], b));
                    seen.push(ctor);
                }
                Pat::Wild(_) => {
                    // calc arm (`_ if self.0.is_calc()`): calc() is not modelled; `_ => unreachable!()`: dropped
                    let is_calc_guard = arm.guard.as_ref().map(|(_, g)| self.self_dot_zero_method(g).as_deref() == Some("is_calc")).unwrap_or(false);
                    let is_unreachable = matches!(&*arm.body, Expr::Macro(mm) if mm.mac.path.is_ident("unreachable"));
                    if !(is_calc_guard || (arm.guard.is_none() && is_unreachable)) {
                        return Err("unrecognised wildcard arm in a tag match".into());
                    }
                }
                _ => return Err("unrecognised arm in a tag match".into()),
            }
        }
        for v in &variants {
            if !seen.contains(&v.1) {
                return Err(format!("tag match does not cover {}", v.0));
            }
        }
        Ok(Some((L::Match(vec![L::A(self_l)], arms), result_ty)))
    }

    // ------------------------------------------------------------------------------------------ function bodies
    fn ret(&self, v: L) -> R<L> {
        // loops.rs: a function run under fuel returns `Option`
        let r = self.ret_plain(v)?;
        Ok(if self.ext.fueled { L::app("some", vec![r]) } else { r })
    }
    fn ret_plain(&self, v: L) -> R<L> {
        let key = self.mut_param.clone().unwrap_or("self".to_string());
        let self_l = || self.locals.get(&key).map(|x| L::A(x.0.clone())).ok_or("no self".to_string());
        match self.ret {
            RetMode::Plain if self.prog.is_some() => Ok(L::app(&format!("{}.ret", self.prog.as_ref().unwrap().ns_lean), vec![v])),
            RetMode::Plain => Ok(v),
            // flexprog.rs: a function in interaction form that returns `()` answers its updated `&mut` parameter
            RetMode::MutSelfUnit if self.prog.is_some() && self.ext.block => Ok(L::app(&format!("{}.ret", self.prog.as_ref().unwrap().ns_lean), vec![self_l()?])),
            RetMode::MutSelfUnit => self_l(),
            // blockmod.rs: a function in interaction form whose `&mut` slice parameter is returned with the result
            RetMode::MutSelfVal if self.prog.is_some() => Ok(L::app(&format!("{}.ret", self.prog.as_ref().unwrap().ns_lean), vec![L::Tuple(vec![self_l()?, v])])),
            RetMode::MutSelfVal => Ok(L::Tuple(vec![self_l()?, v])),
        }
    }
    fn ret_unit(&self) -> R<L> {
        match self.ret {
            RetMode::Plain if self.ret_ty == Ty::Unit && self.prog.is_some() => Ok(L::app(&format!("{}.ret", self.prog.as_ref().unwrap().ns_lean), vec![L::a("()")])),
            RetMode::Plain if self.ret_ty == Ty::Unit => Ok(L::a("()")),
            RetMode::MutSelfUnit => self.ret(L::a("()")),
            _ => Err("control reaches the end of the function without a value".into()),
        }
    }

    /// the whole function body
    pub fn body(&mut self, b: &syn::Block) -> R<L> {
        self.seq(&b.stmts, true, &[])
    }

    pub(crate) fn cont(&mut self, conts: &[Frame]) -> R<L> {
        match conts.split_first() {
            None => self.ret_unit(),
            Some((f, rest)) => {
                self.locals = f.scope.clone();
                self.seq(f.stmts, f.value_tail, rest)
            }
        }
    }

    pub(crate) fn seq(&mut self, stmts: &[Stmt], value_tail: bool, conts: &[Frame]) -> R<L> {
        let (st, rest) = match stmts.split_first() {
            None => return self.cont(conts),
            Some(x) => x,
        };
        let nested = !conts.is_empty();
        match st {
            Stmt::Item(syn::Item::Use(_)) => self.seq(rest, value_tail, conts),
            Stmt::Item(_) => Err("nested item".into()),
            Stmt::Macro(m) if is_assert(&m.mac) || is_noop_macro(&m.mac) => self.seq(rest, value_tail, conts),
            Stmt::Macro(m) => Err(format!("unsupported statement macro `{}`", quote::quote!(#m))),
            Stmt::Local(l) => {
                if !self.env.enabled(&l.attrs)? {
                    return self.seq(rest, value_tail, conts);
                }
                // `let x = tree.m(..);` / `let x = closure(..);` in interaction form
                if self.prog.is_some() {
                    if let Some(init) = &l.init {
                        if let Some(it) = self.interaction(&init.expr)? {
                            if init.diverge.is_some() {
                                return Err("let-else".into());
                            }
                            let pat = match &l.pat {
                                Pat::Type(pt) => &*pt.pat,
                                p => p,
                            };
                            let binder = match pat {
                                Pat::Ident(i) if i.subpat.is_none() => {
                                    let rn = i.ident.to_string();
                                    let n = self.declare(&rn, it.ret.clone(), nested);
                                    match &it.view {
                                        Some(v) => self.views.insert(rn, v.clone()),
                                        None => self.views.remove(&rn),
                                    };
                                    n
                                }
                                Pat::Wild(_) => "_".to_string(),
                                _ => return Err("pattern binding the answer of an interaction".into()),
                            };
                            let b = self.seq(rest, value_tail, conts)?;
                            return Ok(self.emit_interaction(it, &binder, b));
                        }
                    }
                }
                // blockmod.rs (opt-in): `let x = opt.unwrap_or_else(|| { …interactions… });`
                if let Some(r) = self.block_local(l, rest, value_tail, conts)? {
                    return Ok(r);
                }
                // loops.rs (opt-in): view declarations, the mutating fold over a view, argument-updating closures
                if let Some(r) = self.ext_local(l, rest, value_tail, conts)? {
                    return Ok(r);
                }
                let lets = self.local(l, nested)?;
                let mut b = self.seq(rest, value_tail, conts)?;
                for (p, v) in lets.into_iter().rev() {
                    b = L::Let(p, Box::new(v), Box::new(b));
                }
                Ok(b)
            }
            Stmt::Expr(e, semi) => {
                if !self.env.enabled(crate::expr::expr_attrs_pub(e))? {
                    return self.seq(rest, value_tail, conts);
                }
                if rest.is_empty() && semi.is_none() && value_tail {
                    if !conts.is_empty() {
                        return Err("internal: value tail with pending continuation".into());
                    }
                    return self.tail_value(e);
                }
                let mut frames: Vec<Frame> = vec![Frame { stmts: rest, value_tail, scope: self.locals.clone() }];
                for f in conts {
                    frames.push(Frame { stmts: f.stmts, value_tail: f.value_tail, scope: f.scope.clone() });
                }
                self.stmt_expr(e, &frames)
            }
        }
    }

    /// `e`'s value is the function result
    pub(crate) fn tail_value(&mut self, e: &Expr) -> R<L> {
        match e {
            Expr::Paren(p) => self.tail_value(&p.expr),
            Expr::Block(b) => {
                let saved = self.locals.clone();
                let r = self.seq(&b.block.stmts, true, &[]);
                self.locals = saved;
                r
            }
            Expr::If(i) if i.else_branch.is_some() && !matches!(&*i.cond, Expr::Let(_)) => {
                let (c, ct) = self.expr(&i.cond, &Ty::Bool)?;
                if ct != Ty::Bool {
                    return Err("`if` condition is not a bool".into());
                }
                let saved = self.locals.clone();
                let a = self.seq(&i.then_branch.stmts, true, &[])?;
                self.locals = saved.clone();
                let b = self.tail_value(&i.else_branch.as_ref().unwrap().1)?;
                self.locals = saved;
                Ok(L::If(Box::new(c), Box::new(a), Box::new(b)))
            }
            Expr::Match(m) => Ok(self.match_expr(m, &self.ret_ty.clone(), Some((&[], true)))?.0),
            Expr::Return(r) => self.return_(r),
            Expr::If(_) | Expr::Assign(_) | Expr::ForLoop(_) => self.stmt_expr(e, &[]),
            // blockmod.rs (opt-in): a tail call of a function translated in interaction form
            _ if self.block_prog_call(e).is_some() => self.block_tail_call(e),
            // a tail call of an interaction: its answer is the function's result
            _ if self.prog.is_some() && self.interaction_shape(e) => {
                let it = self.interaction(e)?.ok_or("internal: interaction shape")?;
                if !self.ret_ty.compatible(&it.ret) {
                    return Err(format!("returned value has type {:?}, declared {:?}", it.ret, self.ret_ty));
                }
                let n = self.fresh_name("r");
                let ret = self.ret(L::A(n.clone()))?;
                Ok(self.emit_interaction(it, &n, ret))
            }
            _ => {
                let rt = self.ret_ty.clone();
                let (v, vt) = self.expr(e, &rt)?;
                if !rt.compatible(&vt) {
                    return Err(format!("returned value has type {:?}, declared {:?}", vt, rt));
                }
                self.ret(v)
            }
        }
    }

    fn return_(&mut self, r: &syn::ExprReturn) -> R<L> {
        match &r.expr {
            None => self.ret_unit(),
            Some(e) => {
                let rt = self.ret_ty.clone();
                let (v, vt) = self.expr(e, &rt)?;
                if !rt.compatible(&vt) {
                    return Err(format!("returned value has type {:?}, declared {:?}", vt, rt));
                }
                self.ret(v)
            }
        }
    }

    /// `e` is executed as a statement, then the continuation runs
    pub(crate) fn stmt_expr(&mut self, e: &Expr, conts: &[Frame]) -> R<L> {
        // loops.rs (opt-in): `for` as map / fold, `loop` under fuel, method-call statements, joined `if`
        // blockmod.rs (opt-in): `for` with interactions in its body, `continue`, `if` / `match` joined on the locals they assign
        if let Some(l) = self.block_stmt(e, conts)? {
            return Ok(l);
        }
        if let Some(l) = self.ext_stmt(e, conts)? {
            return Ok(l);
        }
        // absmod.rs (opt-in, `PlanExt::join_ifs`): `if [let PAT =] e { … }` that only updates one outer local
        if let Some(l) = self.join_if_stmt(e, conts)? {
            return Ok(l);
        }
        match e {
            Expr::Paren(p) => self.stmt_expr(&p.expr, conts),
            Expr::Tuple(t) if t.elems.is_empty() => self.cont(conts),
            Expr::Block(b) => self.seq(&b.block.stmts, false, conts),
            Expr::Return(r) => self.return_(r),
            Expr::Assign(a) => {
                let (name, v) = self.assign(&a.left, &a.right)?;
                let b = self.cont(conts)?;
                Ok(L::Let(name, Box::new(v), Box::new(b)))
            }
            // `x.f += e;`  ⇒  `x.f = x.f + e;`
            Expr::Binary(b) if compound_op(&b.op).is_some() => {
                let rhs = Expr::Binary(syn::ExprBinary { attrs: vec![], left: b.left.clone(), op: compound_op(&b.op).unwrap(), right: b.right.clone() });
                let (name, v) = self.assign(&b.left, &rhs)?;
                let body = self.cont(conts)?;
                Ok(L::Let(name, Box::new(v), Box::new(body)))
            }
            // `if let PAT = e { … } [else { … }]`  ⇒  `match e with | PAT => …; rest | _ => [else …;] rest`
            Expr::If(i) if matches!(&*i.cond, Expr::Let(_)) => {
                let l = match &*i.cond {
                    Expr::Let(l) => l,
                    _ => unreachable!(),
                };
                let (sc, st) = self.expr(&l.expr, &Ty::Unknown)?;
                let saved = self.locals.clone();
                let alts = self.pat(&l.pat, &st, true)?;
                let a = self.seq(&i.then_branch.stmts, false, conts)?;
                self.locals = saved.clone();
                let b = match &i.else_branch {
                    Some((_, eb)) => self.stmt_expr(eb, conts)?,
                    None => self.cont(conts)?,
                };
                self.locals = saved;
                let mut arms: Vec<(Vec<String>, L)> = alts.into_iter().map(|p| (vec![p], a.clone())).collect();
                arms.push((vec!["_".into()], b));
                Ok(L::Match(vec![sc], arms))
            }
            Expr::If(i) => {
                let (c, ct) = self.expr(&i.cond, &Ty::Bool)?;
                if ct != Ty::Bool {
                    return Err("`if` condition is not a bool".into());
                }
                let saved = self.locals.clone();
                let a = self.seq(&i.then_branch.stmts, false, conts)?;
                self.locals = saved.clone();
                let b = match &i.else_branch {
                    Some((_, eb)) => self.stmt_expr(eb, conts)?,
                    None => self.cont(conts)?,
                };
                self.locals = saved;
                Ok(L::If(Box::new(c), Box::new(a), Box::new(b)))
            }
            Expr::Match(m) => Ok(self.match_expr(m, &Ty::Unit, Some((conts, false)))?.0),
            Expr::ForLoop(f) => self.search_loop(f, conts),
            // `tree.m(..);` / `closure(..);` in interaction form: the answer is discarded
            _ if self.prog.is_some() && self.interaction_shape(e) => {
                let it = self.interaction(e)?.ok_or("internal: interaction shape")?;
                let b = self.cont(conts)?;
                Ok(self.emit_interaction(it, "_", b))
            }
            // `drop(x);` of a local: no effect on the values computed
            Expr::Call(c) if matches!(&*c.func, Expr::Path(p) if p.path.is_ident("drop")) && c.args.len() == 1 && matches!(&c.args[0], Expr::Path(p) if p.path.get_ident().map(|i| self.locals.contains_key(&i.to_string())).unwrap_or(false)) => {
                self.cont(conts)
            }
            // `f(&mut x, args…);` with `f` a translated function that updates its first argument:  `let x := f x args…`
            Expr::Call(c) => {
                let name = match &*c.func {
                    Expr::Path(p) if p.path.get_ident().is_some() => p.path.get_ident().unwrap().to_string(),
                    _ => return Err(format!("expression statement `{}` is outside the fragment", quote::quote!(#e))),
                };
                let sig = match self.w.fns.get(&("".to_string(), name.clone())).and_then(|v| v.iter().find(|s| s.mut_first)) {
                    Some(s) => s.clone(),
                    None => return Err(format!("call statement of `{name}`, which is not a translated function with a `&mut` first parameter")),
                };
                let args: Vec<&Expr> = c.args.iter().collect();
                if args.len() != sig.params.len() {
                    return Err(format!("arity mismatch calling {name}"));
                }
                let target = match args[0] {
                    Expr::Reference(r) if r.mutability.is_some() => &*r.expr,
                    _ => return Err(format!("first argument of `{name}` is not `&mut place`")),
                };
                let mut ls = vec![];
                for (a, (_, pt)) in args.iter().zip(sig.params.iter()) {
                    let (l, t) = self.expr(a, pt)?;
                    if !pt.compatible(&t) {
                        return Err(format!("argument of type {:?} where {name} expects {:?}", t, pt));
                    }
                    ls.push(l);
                }
                let (n, v) = self.assign_into(target, L::App(sig.lean.clone(), ls))?;
                let b = self.cont(conts)?;
                Ok(L::Let(n, Box::new(v), Box::new(b)))
            }
            _ => Err(format!("expression statement `{}` is outside the fragment", quote::quote!(#e))),
        }
    }

    /// lvalue `x`, `x.f`, `x.f[i]`, … rooted at a local: returns the local's Lean name and its updated value
    fn assign(&mut self, lhs: &Expr, rhs: &Expr) -> R<(String, L)> {
        let (_, lt) = self.expr(lhs, &Ty::Unknown).or_else(|e| match lhs {
            Expr::Index(ix) => {
                let (_, bt) = self.expr(&ix.expr, &Ty::Unknown)?;
                match bt {
                    Ty::List(t) => Ok((L::a("_"), *t)),
                    _ => Err(e),
                }
            }
            _ => Err(e),
        })?;
        let (v, vt) = self.expr(rhs, &lt)?;
        if !lt.compatible(&vt) {
            return Err(format!("assignment of a value of type {:?} to a place of type {:?}", vt, lt));
        }
        self.assign_into(lhs, v)
    }
    pub(crate) fn assign_into(&mut self, lhs: &Expr, v: L) -> R<(String, L)> {
        match lhs {
            Expr::Paren(p) => self.assign_into(&p.expr, v),
            // destructuring assignment `(a, b) = e` to plain locals
            Expr::Tuple(t) if !t.elems.is_empty() => {
                let mut names = vec![];
                for x in &t.elems {
                    match x {
                        Expr::Path(p) if p.path.get_ident().is_some() => {
                            let n = p.path.get_ident().unwrap().to_string();
                            let (l, _) = self.locals.get(&n).cloned().ok_or(format!("assignment to non-local `{n}`"))?;
                            names.push(l);
                        }
                        _ => return Err("destructuring assignment to something other than plain locals".into()),
                    }
                }
                Ok((format!("({})", names.join(", ")), v))
            }
            Expr::Path(p) => {
                let n = p.path.get_ident().ok_or("assignment to a path")?.to_string();
                let (l, _) = self.locals.get(&n).cloned().ok_or(format!("assignment to non-local `{n}`"))?;
                Ok((l, v))
            }
            Expr::Field(f) => {
                let (b, bt) = self.expr(&f.base, &Ty::Unknown)?;
                let fname = match &f.member {
                    syn::Member::Named(n) => n.to_string(),
                    _ => return Err("assignment to a tuple field".into()),
                };
                let lean_f = match &bt {
                    Ty::Adt(an, _) => match &self.w.adt(an).ok_or("unknown adt")?.kind {
                        AdtKind::Struct(fs) => fs.iter().find(|x| x.rust == fname).map(|x| x.lean.clone()).ok_or(format!("no field {fname}"))?,
                        _ => return Err("assignment to a field of a non-struct".into()),
                    },
                    _ => return Err("assignment to a field of a non-struct".into()),
                };
                self.assign_into(&f.base, L::With(Box::new(b), lean_f, Box::new(v)))
            }
            Expr::Index(ix) => {
                let (b, bt) = self.expr(&ix.expr, &Ty::Unknown)?;
                if !matches!(bt, Ty::List(_)) {
                    return Err("indexed assignment into a non-array".into());
                }
                let (i, it) = self.expr(&ix.index, &Ty::Nat)?;
                if it != Ty::Nat {
                    return Err("index is not an integer".into());
                }
                // Rust panics when the index is out of bounds; `List.set` is then the identity (see the in-range lemma)
                self.assign_into(&ix.expr, L::app("List.set", vec![b, i, v]))
            }
            _ => Err(format!("unsupported assignment target `{}`", quote::quote!(#lhs))),
        }
    }

    /// `for x in it { let …; if c { return e; } }`  ⇒  `match List.find? (fun x => let …; c) it with | some x => let …; e | none => rest`
    fn search_loop(&mut self, f: &syn::ExprForLoop, conts: &[Frame]) -> R<L> {
        let (it, itt) = self.expr(&f.expr, &Ty::Unknown)?;
        let elem = match itt {
            Ty::List(t) => *t,
            _ => return Err("`for` over something that is not a translated list".into()),
        };
        let var = match &*f.pat {
            Pat::Ident(i) => i.ident.to_string(),
            _ => return Err("`for` pattern".into()),
        };
        let stmts = &f.body.stmts;
        let (last, lets) = stmts.split_last().ok_or("empty `for` body")?;
        let iff = match last {
            Stmt::Expr(Expr::If(i), _) if i.else_branch.is_none() => i,
            _ => return Err("`for` body does not end in `if c { return e; }`".into()),
        };
        let ret_e = match iff.then_branch.stmts.as_slice() {
            [Stmt::Expr(Expr::Return(r), _)] => r,
            _ => return Err("`for` body's `if` does not consist of a single `return`".into()),
        };
        let saved = self.locals.clone();
        let x = self.declare(&var, elem.clone(), true);
        let mut let_ls = vec![];
        for st in lets {
            match st {
                Stmt::Local(l) => let_ls.extend(self.local(l, true)?),
                _ => return Err("`for` body contains a statement other than `let` before the `if`".into()),
            }
        }
        let (c, ct) = self.expr(&iff.cond, &Ty::Bool)?;
        if ct != Ty::Bool {
            return Err("`if` condition is not a bool".into());
        }
        let wrap = |mut b: L| {
            for (p, v) in let_ls.iter().rev() {
                b = L::Let(p.clone(), Box::new(v.clone()), Box::new(b));
            }
            b
        };
        let pred = L::Fun(vec![format!("({x} : {})", self.w.lean_ty(&elem))], Box::new(wrap(c)));
        let hit = wrap(self.return_(ret_e)?);
        self.locals = saved.clone();
        let miss = self.cont(conts)?;
        self.locals = saved;
        Ok(L::Match(vec![L::app("List.find?", vec![pred, it])], vec![(vec![format!("some {x}")], hit), (vec!["none".into()], miss)]))
    }
}

/// the logging macros of src/util/debug.rs: every statement they expand to is under `#[cfg(feature = "debug")]` /
/// `#[cfg(any(feature = "debug", feature = "profile"))]` (checked by `check_debug_macros`), neither of which is a default feature
pub const NOOP_MACROS: &[&str] = &["debug_log", "debug_log_node", "debug_push_node", "debug_pop_node"];

fn is_noop_macro(m: &syn::Macro) -> bool {
    NOOP_MACROS.iter().any(|n| m.path.is_ident(n))
}

/// `src/util/debug.rs`: the macros of `NOOP_MACROS` only ever expand to cfg-gated logger calls and to each other
pub fn check_debug_macros(repo: &str) -> Result<(), String> {
    let file = crate::util::parse_file(&format!("{repo}/src/util/debug.rs"))?;
    let mut seen = vec![];
    for it in &file.items {
        if let syn::Item::Macro(m) = it {
            let name = match &m.ident {
                Some(i) => i.to_string(),
                None => continue,
            };
            if !NOOP_MACROS.contains(&name.as_str()) {
                continue;
            }
            seen.push(name.clone());
            let text = m.mac.tokens.to_string().replace(' ', "").replace('\n', "");
            for chunk in text.split(';') {
                let effect = chunk.contains("NODE_LOGGER") || chunk.contains("println!") || chunk.contains("print!");
                let gated = chunk.contains("#[cfg(feature=\"debug\")]") || chunk.contains("#[cfg(any(feature=\"debug\",feature=\"profile\"))]");
                if effect && !gated {
                    return Err(format!("macro `{name}` of src/util/debug.rs has a statement that is not gated by the `debug` / `profile` features: `{chunk}`"));
                }
                // any other macro it calls must be one of the four
                let mut rest = chunk;
                while let Some(k) = rest.find("!(") {
                    let head: String = rest[..k].chars().rev().take_while(|c| c.is_alphanumeric() || *c == '_').collect::<String>().chars().rev().collect();
                    if !head.is_empty() && !NOOP_MACROS.contains(&head.as_str()) && head != "println" && head != "print" {
                        return Err(format!("macro `{name}` of src/util/debug.rs calls `{head}!`"));
                    }
                    rest = &rest[k + 2..];
                }
            }
        }
    }
    for n in NOOP_MACROS {
        if !seen.iter().any(|s| s == n) {
            return Err(format!("macro `{n}` not found in src/util/debug.rs"));
        }
    }
    Ok(())
}

fn path_last(p: &syn::Path) -> String {
    p.segments.last().map(|s| s.ident.to_string()).unwrap_or_default()
}

fn compound_op(op: &syn::BinOp) -> Option<syn::BinOp> {
    use syn::BinOp::*;
    match op {
        AddAssign(_) => Some(Add(Default::default())),
        SubAssign(_) => Some(Sub(Default::default())),
        MulAssign(_) => Some(Mul(Default::default())),
        DivAssign(_) => Some(Div(Default::default())),
        _ => None,
    }
}

fn is_unreachable(e: &Expr) -> bool {
    matches!(e, Expr::Macro(m) if m.mac.path.is_ident("unreachable") || m.mac.path.segments.last().map(|s| s.ident == "unreachable").unwrap_or(false))
}

/// one interaction of a function translated in interaction form
pub(crate) struct Interaction {
    /// arguments that can panic (`match … { …, X => unreachable!() }`), evaluated first as `Option`s: (variable, option-valued term)
    partial: Vec<(String, L)>,
    /// `true`: a constructor of the program type; `false`: a sub-program (`bind`)
    ask: bool,
    term: L,
    pub ret: Ty,
    pub view: Option<String>,
}

impl<'a> Ctx<'a> {
    /// syntactic test: `tree.m(..)`, or a call of a closure parameter that is an interaction
    pub(crate) fn interaction_shape(&self, e: &Expr) -> bool {
        match e {
            Expr::Paren(p) => self.interaction_shape(&p.expr),
            Expr::MethodCall(m) => self.is_tree_expr(&m.receiver),
            Expr::Call(c) => matches!(&*c.func, Expr::Path(p) if p.path.get_ident().map(|i| self.is_interaction_name(&i.to_string())).unwrap_or(false)),
            _ => false,
        }
    }

    /// an argument of an interaction; a `match` with `unreachable!()` arms is evaluated first, as an `Option`
    fn interaction_arg(&mut self, a: &Expr, pt: &Ty, partial: &mut Vec<(String, L)>, what: &str) -> R<L> {
        let inner = match a {
            Expr::Paren(p) => &*p.expr,
            Expr::Reference(r) => &*r.expr,
            a => a,
        };
        if let Expr::Match(m) = inner {
            if m.arms.iter().any(|arm| is_unreachable(&arm.body)) {
                let (sc, st) = self.expr(&m.expr, &Ty::Unknown)?;
                let mut arms = vec![];
                let mut ty = pt.clone();
                for arm in &m.arms {
                    if !self.env.enabled(&arm.attrs)? {
                        continue;
                    }
                    if arm.guard.is_some() {
                        return Err("guard in a match with `unreachable!()` arms".into());
                    }
                    let saved = self.locals.clone();
                    let alts = self.pat(&arm.pat, &st, true)?;
                    let body = if is_unreachable(&arm.body) {
                        L::a("none")
                    } else {
                        let (b, bt) = self.expr(&arm.body, &ty)?;
                        if !ty.compatible(&bt) {
                            return Err(format!("argument of type {:?} where {what} expects {:?}", bt, ty));
                        }
                        ty = ty.join(&bt);
                        L::app("some", vec![b])
                    };
                    self.locals = saved;
                    for p in alts {
                        arms.push((vec![p], body.clone()));
                    }
                }
                let n = self.fresh_name("arg");
                partial.push((n.clone(), L::Match(vec![sc], arms)));
                return Ok(L::A(n));
            }
        }
        let (l, t) = self.expr(a, pt)?;
        if !pt.compatible(&t) {
            return Err(format!("argument of type {:?} where {what} expects {:?}", t, pt));
        }
        Ok(l)
    }

    /// `tree.m(args)` for a trait method of the tree (a query) or a translated provided method (a sub-program);
    /// `closure(args)` for an opaque closure parameter (a query) or a closure that takes the tree (a sub-program)
    pub(crate) fn interaction(&mut self, e: &Expr) -> R<Option<Interaction>> {
        let pp = match &self.prog {
            Some(p) => p.clone(),
            None => return Ok(None),
        };
        match e {
            Expr::Paren(p) => self.interaction(&p.expr),
            Expr::MethodCall(m) if self.is_tree_expr(&m.receiver) => {
                let name = m.method.to_string();
                let args: Vec<&Expr> = m.args.iter().collect();
                if let Some(eff) = pp.tree_methods.get(&name) {
                    if eff.params.len() != args.len() {
                        return Err(format!("arity mismatch calling the tree's `{name}`"));
                    }
                    let mut partial = vec![];
                    let mut ls = vec![];
                    for (a, pt) in args.iter().zip(&eff.params) {
                        ls.push(self.interaction_arg(a, pt, &mut partial, &format!("the tree's `{name}`"))?);
                    }
                    return Ok(Some(Interaction { partial, ask: true, term: L::App(eff.ctor.clone(), ls), ret: eff.ret.clone(), view: eff.ret_view.clone() }));
                }
                if let Some(sig) = self.w.fns.get(&(pp.tree_head.clone(), name.clone())).and_then(|v| v.iter().find(|s| s.prog)).cloned() {
                    if sig.params.len() != args.len() {
                        return Err(format!("arity mismatch calling the tree's `{name}`"));
                    }
                    let mut partial = vec![];
                    let mut ls = vec![];
                    for (a, (_, pt)) in args.iter().zip(&sig.params) {
                        ls.push(self.interaction_arg(a, pt, &mut partial, &format!("the tree's `{name}`"))?);
                    }
                    return Ok(Some(Interaction { partial, ask: false, term: L::App(sig.lean.clone(), ls), ret: sig.ret.clone(), view: None }));
                }
                // blockmod.rs (opt-in): a pure read of the tree is an ordinary value
                if self.ext.block && crate::blockmod::is_pure_read(&name) {
                    return Ok(None);
                }
                Err(format!("`{name}` is not a translated method of the tree"))
            }
            Expr::Call(c) => {
                let name = match &*c.func {
                    Expr::Path(p) if p.path.get_ident().is_some() => p.path.get_ident().unwrap().to_string(),
                    _ => return Ok(None),
                };
                let args: Vec<&Expr> = c.args.iter().collect();
                if let Some(eff) = pp.closures.get(&name) {
                    if eff.params.len() != args.len() {
                        return Err(format!("arity mismatch calling the closure `{name}`"));
                    }
                    let mut partial = vec![];
                    let mut ls = vec![];
                    for (a, pt) in args.iter().zip(&eff.params) {
                        ls.push(self.interaction_arg(a, pt, &mut partial, &format!("the closure `{name}`"))?);
                    }
                    return Ok(Some(Interaction { partial, ask: true, term: L::App(eff.ctor.clone(), ls), ret: eff.ret.clone(), view: None }));
                }
                if let Some((lean, ptys, ret)) = self.sub_programs.get(&name).cloned() {
                    if args.len() != ptys.len() + 1 || !self.is_tree_expr(args[0]) {
                        return Err(format!("the closure `{name}` must be called with the tree as its first argument"));
                    }
                    let mut partial = vec![];
                    let mut ls = vec![];
                    for (a, pt) in args[1..].iter().zip(&ptys) {
                        ls.push(self.interaction_arg(a, pt, &mut partial, &format!("the closure `{name}`"))?);
                    }
                    return Ok(Some(Interaction { partial, ask: false, term: L::App(lean, ls), ret, view: None }));
                }
                Ok(None)
            }
            _ => Ok(None),
        }
    }

    /// `<interaction> args (fun x => body)` / `bind p (fun x => body)`, after the arguments that can panic
    pub(crate) fn emit_interaction(&self, it: Interaction, binder: &str, body: L) -> L {
        let ns = self.prog.as_ref().map(|p| p.ns_lean.clone()).unwrap_or_default();
        let b = if it.ret.has_unknown() { binder.to_string() } else { format!("({binder} : {})", crate::emit::strip_parens(&self.w.lean_ty(&it.ret))) };
        let k = L::Fun(vec![b], Box::new(body));
        let mut out = match (it.ask, it.term) {
            (true, L::App(ctor, mut args)) => {
                args.push(k);
                L::App(ctor, args)
            }
            (_, term) => L::App(format!("{ns}.bind"), vec![term, k]),
        };
        for (n, opt) in it.partial.into_iter().rev() {
            out = L::Match(vec![opt], vec![(vec!["none".into()], L::A(format!("{ns}.unreachable"))), (vec![format!("some {n}")], out)]);
        }
        out
    }
}

fn is_assert(m: &syn::Macro) -> bool {
    ["debug_assert", "debug_assert_eq", "debug_assert_ne"].iter().any(|n| m.path.is_ident(n))
}
