//! Statement level of the translator: blocks, `match`, early `return`s (the rest of the function is pushed into the
//! branches), assignments to locals / fields of locals (state passing by shadowing), the search loop.
use crate::expr::{Ctx, Frame, RetMode, R};
use crate::lean::{AdtKind, Ty, L};
use syn::{Expr, Pat, Stmt};

impl<'a> Ctx<'a> {
    // ------------------------------------------------------------------------------------------ value blocks
    /// a block used as a value: `let`s and a tail expression
    pub fn block_value(&mut self, stmts: &[Stmt], expect: &Ty) -> R<(L, Ty)> {
        let saved = self.locals.clone();
        let r = self.block_value_inner(stmts, expect);
        self.locals = saved;
        r
    }
    fn block_value_inner(&mut self, stmts: &[Stmt], expect: &Ty) -> R<(L, Ty)> {
        let mut lets: Vec<(String, L)> = vec![];
        let mut tail = None;
        for (k, st) in stmts.iter().enumerate() {
            match st {
                Stmt::Item(_) => {}
                Stmt::Local(l) => lets.push(self.local(l, false)?),
                Stmt::Expr(e, None) if k + 1 == stmts.len() => tail = Some(self.expr(e, expect)?),
                Stmt::Macro(m) if is_assert(&m.mac) => {}
                _ => return Err(format!("statement `{}` inside a block used as a value", quote::quote!(#st))),
            }
        }
        let (mut l, t) = tail.ok_or("block without tail expression used as a value")?;
        for (p, v) in lets.into_iter().rev() {
            l = L::Let(p, Box::new(v), Box::new(l));
        }
        Ok((l, t))
    }

    fn local(&mut self, l: &syn::Local, rename: bool) -> R<(String, L)> {
        let (pat, ann) = match &l.pat {
            Pat::Type(pt) => (&*pt.pat, Some(self.rust_ty(&pt.ty)?)),
            p => (p, None),
        };
        let init = l.init.as_ref().ok_or("`let` without initialiser")?;
        if init.diverge.is_some() {
            return Err("let-else".into());
        }
        let (v, vt) = self.expr(&init.expr, ann.as_ref().unwrap_or(&Ty::Unknown))?;
        let vt = match &ann {
            Some(a) => vt.join(a),
            None => vt,
        };
        match pat {
            Pat::Ident(i) => {
                let n = self.declare(&i.ident.to_string(), vt, rename);
                Ok((n, v))
            }
            Pat::Tuple(_) => {
                let alts = self.pat(pat, &vt, rename)?;
                if alts.len() != 1 {
                    return Err("refutable `let` pattern".into());
                }
                Ok((alts[0].clone(), v))
            }
            Pat::Wild(_) => Ok(("_".into(), v)),
            _ => Err("unsupported `let` pattern".into()),
        }
    }

    // ------------------------------------------------------------------------------------------ match
    /// `conts`: None = value position; Some = statement/tail position (bodies are translated with the continuation)
    pub fn match_expr(&mut self, m: &syn::ExprMatch, expect: &Ty, conts: Option<(&[Frame], bool)>) -> R<(L, Ty)> {
        if let Some(r) = self.tag_match(m, expect, &conts)? {
            return Ok(r);
        }
        // a tuple literal scrutinee becomes a multi-discriminant match
        let (scruts, stys): (Vec<L>, Vec<Ty>) = match &*m.expr {
            Expr::Tuple(t) if !t.elems.is_empty() => {
                let mut ls = vec![];
                let mut ts = vec![];
                for x in &t.elems {
                    let (l, ty) = self.expr(x, &Ty::Unknown)?;
                    ls.push(l);
                    ts.push(ty);
                }
                (ls, ts)
            }
            e => {
                let (l, ty) = self.expr(e, &Ty::Unknown)?;
                (vec![l], vec![ty])
            }
        };
        let multi = scruts.len() > 1;
        let whole_ty = if multi { Ty::Tuple(stys.clone()) } else { stys[0].clone() };
        let rename = conts.is_some();
        let mut arms: Vec<(Vec<String>, L)> = vec![];
        let mut result_ty = expect.clone();
        // arms are processed last to first so that a guarded arm can fall through to the arms after it
        let mut translated: Vec<(Vec<Vec<String>>, Option<L>, L)> = vec![];
        for arm in &m.arms {
            if !self.env.enabled(&arm.attrs)? {
                continue;
            }
            let saved = self.locals.clone();
            let alts: Vec<Vec<String>> = if multi {
                match &arm.pat {
                    Pat::Tuple(tp) => self.tuple_pat(tp, &whole_ty, rename)?,
                    Pat::Wild(_) => vec![vec!["_".to_string(); scruts.len()]],
                    Pat::Or(o) => {
                        let mut out = vec![];
                        for c in &o.cases {
                            match c {
                                Pat::Tuple(tp) => out.extend(self.tuple_pat(tp, &whole_ty, rename)?),
                                _ => return Err("unsupported or-pattern over a tuple scrutinee".into()),
                            }
                        }
                        out
                    }
                    _ => return Err("unsupported pattern over a tuple scrutinee".into()),
                }
            } else {
                self.pat(&arm.pat, &whole_ty, rename)?.into_iter().map(|p| vec![p]).collect()
            };
            let guard = match &arm.guard {
                Some((_, g)) => {
                    let (gl, gt) = self.expr(g, &Ty::Bool)?;
                    if gt != Ty::Bool {
                        return Err("guard is not a bool".into());
                    }
                    Some(gl)
                }
                None => None,
            };
            let body = match &conts {
                None => {
                    let (b, bt) = self.expr(&arm.body, &result_ty)?;
                    if !result_ty.compatible(&bt) {
                        return Err(format!("match arms have different types {:?} / {:?}", result_ty, bt));
                    }
                    result_ty = result_ty.join(&bt);
                    b
                }
                Some((frames, value_tail)) => {
                    if *value_tail {
                        self.tail_value(&arm.body)?
                    } else {
                        self.stmt_expr(&arm.body, frames)?
                    }
                }
            };
            self.locals = saved;
            translated.push((alts, guard, body));
        }
        // guards: `p if g => e` becomes `p => if g then e else (match s with <arms after>)`
        let mut after: Vec<(Vec<String>, L)> = vec![];
        for (alts, guard, body) in translated.into_iter().rev() {
            let body = match guard {
                None => body,
                Some(g) => {
                    if after.is_empty() {
                        return Err("guarded last arm".into());
                    }
                    let mut rest = after.clone();
                    rest.reverse();
                    L::If(Box::new(g), Box::new(body), Box::new(L::Match(scruts.clone(), rest)))
                }
            };
            for a in alts.into_iter().rev() {
                after.push((a, body.clone()));
            }
        }
        after.reverse();
        arms.extend(after);
        Ok((L::Match(scruts, arms), result_ty))
    }

    /// the shape `match self.0.tag() { CompactLength::X_TAG => …, _ if self.0.is_calc() => …, _ => unreachable!() }`
    /// over one of the style length wrappers, translated against the abstract inductive (`LP` / `LPA`)
    fn tag_match(&mut self, m: &syn::ExprMatch, expect: &Ty, conts: &Option<(&[Frame], bool)>) -> R<Option<(L, Ty)>> {
        if self.self_dot_zero_method(&m.expr).as_deref() != Some("tag") {
            return Ok(None);
        }
        let (adt_lean, variants) = match &self.self_ty {
            Some(Ty::Adt(n, _)) => match self.w.adt(n).map(|a| (a.lean.clone(), a.kind.clone())) {
                Some((lean, AdtKind::Length(v))) => (lean, v),
                _ => return Ok(None),
            },
            _ => return Ok(None),
        };
        let tail = match conts {
            None => false,
            Some((frames, true)) if frames.is_empty() => true,
            Some(_) => return Err("tag match in statement position".into()),
        };
        let self_l = self.locals.get("self").map(|x| x.0.clone()).ok_or("tag match without self")?;
        let mut arms = vec![];
        let mut seen: Vec<String> = vec![];
        let mut result_ty = expect.clone();
        for arm in &m.arms {
            if !self.env.enabled(&arm.attrs)? {
                continue;
            }
            match &arm.pat {
                Pat::Path(pp) => {
                    let name = pp.path.segments.last().unwrap().ident.to_string();
                    let (_, ctor, payload) = variants.iter().find(|v| v.0 == name).ok_or(format!("tag `{name}` is not a constructor of {adt_lean}"))?.clone();
                    if arm.guard.is_some() {
                        return Err("guard on a tag arm".into());
                    }
                    let pv = if payload { Some("v".to_string()) } else { None };
                    self.tag_payload = Some(pv.clone());
                    let r = self.expr(&arm.body, &result_ty);
                    self.tag_payload = None;
                    let (b, bt) = r?;
                    if !result_ty.compatible(&bt) {
                        return Err(format!("tag arms have different types {:?} / {:?}", result_ty, bt));
                    }
                    result_ty = result_ty.join(&bt);
                    let b = if tail { self.ret(b)? } else { b };
                    let pat = if payload { format!("{adt_lean}.{ctor} v") } else { format!("{adt_lean}.{ctor}") };
                    arms.push((vec![pat], b));
                    seen.push(ctor);
                }
                Pat::Wild(_) => {
                    // calc arm (`_ if self.0.is_calc()`): calc() is not modelled; `_ => unreachable!()`: dropped
                    let is_calc_guard = arm.guard.as_ref().map(|(_, g)| self.self_dot_zero_method(g).as_deref() == Some("is_calc")).unwrap_or(false);
                    let is_unreachable = matches!(&*arm.body, Expr::Macro(mm) if mm.mac.path.is_ident("unreachable"));
                    if !(is_calc_guard || (arm.guard.is_none() && is_unreachable)) {
                        return Err("unrecognised wildcard arm in a tag match".into());
                    }
                }
                _ => return Err("unrecognised arm in a tag match".into()),
            }
        }
        for v in &variants {
            if !seen.contains(&v.1) {
                return Err(format!("tag match does not cover {}", v.0));
            }
        }
        Ok(Some((L::Match(vec![L::A(self_l)], arms), result_ty)))
    }

    // ------------------------------------------------------------------------------------------ function bodies
    fn ret(&self, v: L) -> R<L> {
        let key = self.mut_param.clone().unwrap_or("self".to_string());
        let self_l = || self.locals.get(&key).map(|x| L::A(x.0.clone())).ok_or("no self".to_string());
        match self.ret {
            RetMode::Plain => Ok(v),
            RetMode::MutSelfUnit => self_l(),
            RetMode::MutSelfVal => Ok(L::Tuple(vec![self_l()?, v])),
        }
    }
    fn ret_unit(&self) -> R<L> {
        match self.ret {
            RetMode::Plain if self.ret_ty == Ty::Unit => Ok(L::a("()")),
            RetMode::MutSelfUnit => self.ret(L::a("()")),
            _ => Err("control reaches the end of the function without a value".into()),
        }
    }

    /// the whole function body
    pub fn body(&mut self, b: &syn::Block) -> R<L> {
        self.seq(&b.stmts, true, &[])
    }

    fn cont(&mut self, conts: &[Frame]) -> R<L> {
        match conts.split_first() {
            None => self.ret_unit(),
            Some((f, rest)) => {
                self.locals = f.scope.clone();
                self.seq(f.stmts, f.value_tail, rest)
            }
        }
    }

    fn seq(&mut self, stmts: &[Stmt], value_tail: bool, conts: &[Frame]) -> R<L> {
        let (st, rest) = match stmts.split_first() {
            None => return self.cont(conts),
            Some(x) => x,
        };
        let nested = !conts.is_empty();
        match st {
            Stmt::Item(syn::Item::Use(_)) => self.seq(rest, value_tail, conts),
            Stmt::Item(_) => Err("nested item".into()),
            Stmt::Macro(m) if is_assert(&m.mac) => self.seq(rest, value_tail, conts),
            Stmt::Macro(m) => Err(format!("unsupported statement macro `{}`", quote::quote!(#m))),
            Stmt::Local(l) => {
                if !self.env.enabled(&l.attrs)? {
                    return self.seq(rest, value_tail, conts);
                }
                let (p, v) = self.local(l, nested)?;
                let b = self.seq(rest, value_tail, conts)?;
                Ok(L::Let(p, Box::new(v), Box::new(b)))
            }
            Stmt::Expr(e, semi) => {
                if !self.env.enabled(crate::expr::expr_attrs_pub(e))? {
                    return self.seq(rest, value_tail, conts);
                }
                if rest.is_empty() && semi.is_none() && value_tail {
                    if !conts.is_empty() {
                        return Err("internal: value tail with pending continuation".into());
                    }
                    return self.tail_value(e);
                }
                let mut frames: Vec<Frame> = vec![Frame { stmts: rest, value_tail, scope: self.locals.clone() }];
                for f in conts {
                    frames.push(Frame { stmts: f.stmts, value_tail: f.value_tail, scope: f.scope.clone() });
                }
                self.stmt_expr(e, &frames)
            }
        }
    }

    /// `e`'s value is the function result
    pub(crate) fn tail_value(&mut self, e: &Expr) -> R<L> {
        match e {
            Expr::Paren(p) => self.tail_value(&p.expr),
            Expr::Block(b) => {
                let saved = self.locals.clone();
                let r = self.seq(&b.block.stmts, true, &[]);
                self.locals = saved;
                r
            }
            Expr::If(i) if i.else_branch.is_some() => {
                let (c, ct) = self.expr(&i.cond, &Ty::Bool)?;
                if ct != Ty::Bool {
                    return Err("`if` condition is not a bool".into());
                }
                let saved = self.locals.clone();
                let a = self.seq(&i.then_branch.stmts, true, &[])?;
                self.locals = saved.clone();
                let b = self.tail_value(&i.else_branch.as_ref().unwrap().1)?;
                self.locals = saved;
                Ok(L::If(Box::new(c), Box::new(a), Box::new(b)))
            }
            Expr::Match(m) => Ok(self.match_expr(m, &self.ret_ty.clone(), Some((&[], true)))?.0),
            Expr::Return(r) => self.return_(r),
            Expr::If(_) | Expr::Assign(_) | Expr::ForLoop(_) => self.stmt_expr(e, &[]),
            _ => {
                let rt = self.ret_ty.clone();
                let (v, vt) = self.expr(e, &rt)?;
                if !rt.compatible(&vt) {
                    return Err(format!("returned value has type {:?}, declared {:?}", vt, rt));
                }
                self.ret(v)
            }
        }
    }

    fn return_(&mut self, r: &syn::ExprReturn) -> R<L> {
        match &r.expr {
            None => self.ret_unit(),
            Some(e) => {
                let rt = self.ret_ty.clone();
                let (v, vt) = self.expr(e, &rt)?;
                if !rt.compatible(&vt) {
                    return Err(format!("returned value has type {:?}, declared {:?}", vt, rt));
                }
                self.ret(v)
            }
        }
    }

    /// `e` is executed as a statement, then the continuation runs
    pub(crate) fn stmt_expr(&mut self, e: &Expr, conts: &[Frame]) -> R<L> {
        match e {
            Expr::Paren(p) => self.stmt_expr(&p.expr, conts),
            Expr::Tuple(t) if t.elems.is_empty() => self.cont(conts),
            Expr::Block(b) => self.seq(&b.block.stmts, false, conts),
            Expr::Return(r) => self.return_(r),
            Expr::Assign(a) => {
                let (name, v) = self.assign(&a.left, &a.right)?;
                let b = self.cont(conts)?;
                Ok(L::Let(name, Box::new(v), Box::new(b)))
            }
            Expr::If(i) => {
                let (c, ct) = self.expr(&i.cond, &Ty::Bool)?;
                if ct != Ty::Bool {
                    return Err("`if` condition is not a bool".into());
                }
                let saved = self.locals.clone();
                let a = self.seq(&i.then_branch.stmts, false, conts)?;
                self.locals = saved.clone();
                let b = match &i.else_branch {
                    Some((_, eb)) => self.stmt_expr(eb, conts)?,
                    None => self.cont(conts)?,
                };
                self.locals = saved;
                Ok(L::If(Box::new(c), Box::new(a), Box::new(b)))
            }
            Expr::Match(m) => Ok(self.match_expr(m, &Ty::Unit, Some((conts, false)))?.0),
            Expr::ForLoop(f) => self.search_loop(f, conts),
            // `f(&mut x, args…);` with `f` a translated function that updates its first argument:  `let x := f x args…`
            Expr::Call(c) => {
                let name = match &*c.func {
                    Expr::Path(p) if p.path.get_ident().is_some() => p.path.get_ident().unwrap().to_string(),
                    _ => return Err(format!("expression statement `{}` is outside the fragment", quote::quote!(#e))),
                };
                let sig = match self.w.fns.get(&("".to_string(), name.clone())).and_then(|v| v.iter().find(|s| s.mut_first)) {
                    Some(s) => s.clone(),
                    None => return Err(format!("call statement of `{name}`, which is not a translated function with a `&mut` first parameter")),
                };
                let args: Vec<&Expr> = c.args.iter().collect();
                if args.len() != sig.params.len() {
                    return Err(format!("arity mismatch calling {name}"));
                }
                let target = match args[0] {
                    Expr::Reference(r) if r.mutability.is_some() => &*r.expr,
                    _ => return Err(format!("first argument of `{name}` is not `&mut place`")),
                };
                let mut ls = vec![];
                for (a, (_, pt)) in args.iter().zip(sig.params.iter()) {
                    let (l, t) = self.expr(a, pt)?;
                    if !pt.compatible(&t) {
                        return Err(format!("argument of type {:?} where {name} expects {:?}", t, pt));
                    }
                    ls.push(l);
                }
                let (n, v) = self.assign_into(target, L::App(sig.lean.clone(), ls))?;
                let b = self.cont(conts)?;
                Ok(L::Let(n, Box::new(v), Box::new(b)))
            }
            _ => Err(format!("expression statement `{}` is outside the fragment", quote::quote!(#e))),
        }
    }

    /// lvalue `x`, `x.f`, `x.f[i]`, … rooted at a local: returns the local's Lean name and its updated value
    fn assign(&mut self, lhs: &Expr, rhs: &Expr) -> R<(String, L)> {
        let (_, lt) = self.expr(lhs, &Ty::Unknown).or_else(|e| match lhs {
            Expr::Index(ix) => {
                let (_, bt) = self.expr(&ix.expr, &Ty::Unknown)?;
                match bt {
                    Ty::List(t) => Ok((L::a("_"), *t)),
                    _ => Err(e),
                }
            }
            _ => Err(e),
        })?;
        let (v, vt) = self.expr(rhs, &lt)?;
        if !lt.compatible(&vt) {
            return Err(format!("assignment of a value of type {:?} to a place of type {:?}", vt, lt));
        }
        self.assign_into(lhs, v)
    }
    fn assign_into(&mut self, lhs: &Expr, v: L) -> R<(String, L)> {
        match lhs {
            Expr::Paren(p) => self.assign_into(&p.expr, v),
            // destructuring assignment `(a, b) = e` to plain locals
            Expr::Tuple(t) if !t.elems.is_empty() => {
                let mut names = vec![];
                for x in &t.elems {
                    match x {
                        Expr::Path(p) if p.path.get_ident().is_some() => {
                            let n = p.path.get_ident().unwrap().to_string();
                            let (l, _) = self.locals.get(&n).cloned().ok_or(format!("assignment to non-local `{n}`"))?;
                            names.push(l);
                        }
                        _ => return Err("destructuring assignment to something other than plain locals".into()),
                    }
                }
                Ok((format!("({})", names.join(", ")), v))
            }
            Expr::Path(p) => {
                let n = p.path.get_ident().ok_or("assignment to a path")?.to_string();
                let (l, _) = self.locals.get(&n).cloned().ok_or(format!("assignment to non-local `{n}`"))?;
                Ok((l, v))
            }
            Expr::Field(f) => {
                let (b, bt) = self.expr(&f.base, &Ty::Unknown)?;
                let fname = match &f.member {
                    syn::Member::Named(n) => n.to_string(),
                    _ => return Err("assignment to a tuple field".into()),
                };
                let lean_f = match &bt {
                    Ty::Adt(an, _) => match &self.w.adt(an).ok_or("unknown adt")?.kind {
                        AdtKind::Struct(fs) => fs.iter().find(|x| x.rust == fname).map(|x| x.lean.clone()).ok_or(format!("no field {fname}"))?,
                        _ => return Err("assignment to a field of a non-struct".into()),
                    },
                    _ => return Err("assignment to a field of a non-struct".into()),
                };
                self.assign_into(&f.base, L::With(Box::new(b), lean_f, Box::new(v)))
            }
            Expr::Index(ix) => {
                let (b, bt) = self.expr(&ix.expr, &Ty::Unknown)?;
                if !matches!(bt, Ty::List(_)) {
                    return Err("indexed assignment into a non-array".into());
                }
                let (i, it) = self.expr(&ix.index, &Ty::Nat)?;
                if it != Ty::Nat {
                    return Err("index is not an integer".into());
                }
                // Rust panics when the index is out of bounds; `List.set` is then the identity (see the in-range lemma)
                self.assign_into(&ix.expr, L::app("List.set", vec![b, i, v]))
            }
            _ => Err(format!("unsupported assignment target `{}`", quote::quote!(#lhs))),
        }
    }

    /// `for x in it { let …; if c { return e; } }`  ⇒  `match List.find? (fun x => let …; c) it with | some x => let …; e | none => rest`
    fn search_loop(&mut self, f: &syn::ExprForLoop, conts: &[Frame]) -> R<L> {
        let (it, itt) = self.expr(&f.expr, &Ty::Unknown)?;
        let elem = match itt {
            Ty::List(t) => *t,
            _ => return Err("`for` over something that is not a translated list".into()),
        };
        let var = match &*f.pat {
            Pat::Ident(i) => i.ident.to_string(),
            _ => return Err("`for` pattern".into()),
        };
        let stmts = &f.body.stmts;
        let (last, lets) = stmts.split_last().ok_or("empty `for` body")?;
        let iff = match last {
            Stmt::Expr(Expr::If(i), _) if i.else_branch.is_none() => i,
            _ => return Err("`for` body does not end in `if c { return e; }`".into()),
        };
        let ret_e = match iff.then_branch.stmts.as_slice() {
            [Stmt::Expr(Expr::Return(r), _)] => r,
            _ => return Err("`for` body's `if` does not consist of a single `return`".into()),
        };
        let saved = self.locals.clone();
        let x = self.declare(&var, elem.clone(), true);
        let mut let_ls = vec![];
        for st in lets {
            match st {
                Stmt::Local(l) => let_ls.push(self.local(l, true)?),
                _ => return Err("`for` body contains a statement other than `let` before the `if`".into()),
            }
        }
        let (c, ct) = self.expr(&iff.cond, &Ty::Bool)?;
        if ct != Ty::Bool {
            return Err("`if` condition is not a bool".into());
        }
        let wrap = |mut b: L| {
            for (p, v) in let_ls.iter().rev() {
                b = L::Let(p.clone(), Box::new(v.clone()), Box::new(b));
            }
            b
        };
        let pred = L::Fun(vec![format!("({x} : {})", self.w.lean_ty(&elem))], Box::new(wrap(c)));
        let hit = wrap(self.return_(ret_e)?);
        self.locals = saved.clone();
        let miss = self.cont(conts)?;
        self.locals = saved;
        Ok(L::Match(vec![L::app("List.find?", vec![pred, it])], vec![(vec![format!("some {x}")], hit), (vec!["none".into()], miss)]))
    }
}

fn is_assert(m: &syn::Macro) -> bool {
    ["debug_assert", "debug_assert_eq", "debug_assert_ne"].iter().any(|n| m.path.is_ident(n))
}
