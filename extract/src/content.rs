//! src/compute/common/content_size.rs  →  Generated/ContentSize.lean
use crate::emit::{check_adt, free_fns, Out};
use crate::lean::World;
use crate::util::{parse_file, CfgEnv};

pub const REQUIRED: &[&str] = &["compute_content_size_contribution"];

pub fn extract(repo: &str, w: &mut World) -> Result<String, String> {
    let env = CfgEnv::default_build();
    let style = parse_file(&format!("{repo}/src/style/mod.rs"))?;
    check_adt(w, &style.items, &env, "Overflow", true)?;
    let file = parse_file(&format!("{repo}/src/compute/common/content_size.rs"))?;
    let mut out = Out::new("Gen.ContentSize", "src/compute/common/content_size.rs", &["TaffyVerif.Generated.Geometry", "TaffyVerif.Model.Style"]);
    free_fns(&mut out, w, &file.items, &env, REQUIRED, REQUIRED, &[])?;
    out.finish(REQUIRED)
}
