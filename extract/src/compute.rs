//! src/compute/mod.rs  →  Generated/Compute.lean
//!
//! `round_layout` and `compute_hidden_layout` walk the tree through trait calls, which are outside the fragment. What is translated:
//! * `round_layout_inner`: the statements of ONE node between reading the unrounded layout and writing the final layout, as a function
//!   of `(unrounded_layout, cumulative_x, cumulative_y)` returning the final layout and the cumulative coordinates handed to the
//!   children; the statements around that block (read, write, the loop over the children, the initial `0.0, 0.0`) are compared with
//!   their expected text token by token, so that the recursion scheme the model (`RoundModel.roundInner`) mirrors is pinned too;
//! * `round_content_size` (a `&mut Layout` first parameter: the Lean function returns the updated layout);
//! * `compute_hidden_layout`: its skeleton is compared token by token, and the three expressions in it (the layout written to the
//!   node, the input passed to every child, the returned output) are translated as constants.
use crate::emit::{norm, Out, Plan};
use crate::expr::Ctx;
use crate::lean::{Ty, World};
use crate::util::{parse_file, CfgEnv};
use std::collections::HashMap;
use syn::{Item, Stmt};

pub const REQUIRED: &[&str] = &[
    "round_content_size", "round_layout_inner_node", "round_layout_cumulative_start", "compute_hidden_layout_node_layout", "compute_hidden_layout_child_input",
    "compute_hidden_layout_output",
];

fn stmt_str(s: &Stmt) -> String {
    quote::quote!(#s).to_string()
}

fn expect(what: &str, got: &str, want: &str) -> Result<(), String> {
    if got == want {
        Ok(())
    } else {
        Err(format!("{what} changed: the source has `{got}`, the translation scheme expects `{want}`"))
    }
}

/// an expression translated as a constant
fn const_expr(out: &mut Out, w: &mut World, lean_rel: &str, doc: &str, e: &syn::Expr, ty: &Ty) -> Result<(), String> {
    let (l, t) = {
        let mut cx = Ctx::new(w, None, HashMap::new());
        cx.expr(e, ty).map_err(|x| format!("{lean_rel}: {x}"))?
    };
    if !ty.compatible(&t) {
        return Err(format!("{lean_rel}: value of type {:?}, expected {:?}", t, ty));
    }
    let t = ty.join(&t);
    out.text.push_str(&format!("/-- {doc} -/\ndef {lean_rel} {{α : Type}} [Num α] : {} :=\n  {}\n\n", crate::emit::strip_parens(&w.lean_ty(&t)), l.render(2, true)));
    out.translated.push(lean_rel.to_string());
    Ok(())
}

pub fn extract(repo: &str, w: &mut World) -> Result<String, String> {
    let env = CfgEnv::default_build();
    let file = parse_file(&format!("{repo}/src/compute/mod.rs"))?;
    let mut out = Out::new("Gen.Compute", "src/compute/mod.rs (round_layout, compute_hidden_layout)", &["TaffyVerif.Generated.LayoutTypes"]);
    let layout = Ty::adt("Layout", vec![]);
    let find = |name: &str| -> Result<&syn::ItemFn, String> {
        file.items.iter().find_map(|it| match it {
            Item::Fn(f) if f.sig.ident == name => Some(f),
            _ => None,
        }).ok_or(format!("function {name} not found"))
    };

    // ---------------------------------------------------------------------------------------- round_layout
    let rl = find("round_layout")?;
    let mut inner: Option<&syn::ItemFn> = None;
    let mut rcs: Option<&syn::ItemFn> = None;
    let mut top: Vec<&Stmt> = vec![];
    for st in &rl.block.stmts {
        match st {
            Stmt::Item(Item::Fn(f)) if f.sig.ident == "round_layout_inner" => inner = Some(f),
            Stmt::Item(Item::Fn(f)) if f.sig.ident == "round_content_size" && env.enabled(&f.attrs)? => rcs = Some(f),
            Stmt::Item(_) => return Err("round_layout: unexpected nested item".into()),
            s => top.push(s),
        }
    }
    let inner = inner.ok_or("round_layout_inner not found")?;
    let rcs = rcs.ok_or("round_content_size not found (feature content_size)")?;
    if top.len() != 1 {
        return Err("round_layout: expected a single statement besides the nested functions".into());
    }
    expect("round_layout's body", &norm(top[0]), "returnround_layout_inner(tree,node_id,0.0,0.0);")?;
    expect("round_layout_inner's signature", &norm(&inner.sig), "fnround_layout_inner(tree:&mutimplRoundTree,node_id:NodeId,cumulative_x:f32,cumulative_y:f32)")?;
    out.comment("`round_layout(tree, node_id)` is `return round_layout_inner(tree, node_id, 0.0, 0.0);` (compared token by token)");
    {
        let e: syn::Expr = syn::parse_str("(0.0, 0.0)").map_err(|e| e.to_string())?;
        const_expr(&mut out, w, "round_layout_cumulative_start", "the `cumulative_x, cumulative_y` `round_layout` starts `round_layout_inner` with", &e, &Ty::Tuple(vec![Ty::F32, Ty::F32]))?;
    }
    out.function(w, Plan { head: String::new(), rust_name: "round_content_size".into(), lean_rel: "round_content_size".into(), self_ty: None, generics: HashMap::new(), sig: &rcs.sig, block: &rcs.block, required: true, trunc_sub: false, ext: Default::default() });
    // the block of one node
    let st = &inner.block.stmts;
    if st.is_empty() {
        return Err("round_layout_inner: empty body".into());
    }
    expect("round_layout_inner's first statement", &norm(&st[0]), "letunrounded_layout=*tree.get_unrounded_layout(node_id);")?;
    let k = st.iter().position(|s| norm(s) == "tree.set_final_layout(node_id,&layout);").ok_or("round_layout_inner: `tree.set_final_layout(node_id, &layout);` not found")?;
    let rest: String = st[k + 1..].iter().map(|s| norm(s)).collect::<Vec<_>>().join("");
    expect(
        "round_layout_inner's loop over the children",
        &rest,
        "letchild_count=tree.child_count(node_id);forindexin0..child_count{letchild=tree.get_child_id(node_id,index);round_layout_inner(tree,child,cumulative_x,cumulative_y);}",
    )?;
    let body_text = format!("{{ {} (layout, cumulative_x, cumulative_y) }}", st[1..k].iter().map(stmt_str).collect::<Vec<_>>().join(" "));
    let block: syn::Block = syn::parse_str(&body_text).map_err(|e| format!("round_layout_inner: cannot re-parse the node block: {e}"))?;
    let sig: syn::Signature =
        syn::parse_str("fn round_layout_inner_node(unrounded_layout: Layout, cumulative_x: f32, cumulative_y: f32) -> (Layout, f32, f32)").map_err(|e| e.to_string())?;
    out.comment("`round_layout_inner`: the statements of one node, between `let unrounded_layout = *tree.get_unrounded_layout(node_id);` and");
    out.comment("`tree.set_final_layout(node_id, &layout);`, as a function of what they read; the result is `(layout, cumulative_x, cumulative_y)`:");
    out.comment("the layout written, and the cumulative coordinates every child is visited with (the loop after the block, compared token by token)");
    out.function(w, Plan { head: String::new(), rust_name: "round_layout_inner (one node)".into(), lean_rel: "round_layout_inner_node".into(), self_ty: None, generics: HashMap::new(), sig: &sig, block: &block, required: true, trunc_sub: false, ext: Default::default() });

    // ---------------------------------------------------------------------------------------- compute_hidden_layout
    let ch = find("compute_hidden_layout")?;
    expect("compute_hidden_layout's signature", &norm(&ch.sig), "fncompute_hidden_layout(tree:&mut(implLayoutPartialTree+CacheTree),node:NodeId)->LayoutOutput")?;
    let hs = &ch.block.stmts;
    if hs.len() != 4 {
        return Err(format!("compute_hidden_layout: expected 4 statements, found {}", hs.len()));
    }
    expect("compute_hidden_layout's first statement", &norm(&hs[0]), "tree.cache_clear(node);")?;
    // tree.set_unrounded_layout(node, &<E1>);
    let e1 = match &hs[1] {
        Stmt::Expr(syn::Expr::MethodCall(m), Some(_)) if m.method == "set_unrounded_layout" && norm(&m.receiver) == "tree" && m.args.len() == 2 && norm(&m.args[0]) == "node" => match &m.args[1] {
            syn::Expr::Reference(r) if r.mutability.is_none() => (*r.expr).clone(),
            _ => return Err("compute_hidden_layout: second argument of set_unrounded_layout is not `&expr`".into()),
        },
        s => return Err(format!("compute_hidden_layout: second statement is `{}`", norm(s))),
    };
    // for index in 0..tree.child_count(node) { let child_id = tree.get_child_id(node, index); tree.compute_child_layout(child_id, <E2>); }
    let e2 = match &hs[2] {
        Stmt::Expr(syn::Expr::ForLoop(f), _) if norm(&f.pat) == "index" && norm(&f.expr) == "0..tree.child_count(node)" && f.body.stmts.len() == 2 => {
            expect("compute_hidden_layout's loop body", &norm(&f.body.stmts[0]), "letchild_id=tree.get_child_id(node,index);")?;
            match &f.body.stmts[1] {
                Stmt::Expr(syn::Expr::MethodCall(m), Some(_)) if m.method == "compute_child_layout" && norm(&m.receiver) == "tree" && m.args.len() == 2 && norm(&m.args[0]) == "child_id" => m.args[1].clone(),
                s => return Err(format!("compute_hidden_layout: the loop body's second statement is `{}`", norm(s))),
            }
        }
        s => return Err(format!("compute_hidden_layout: third statement is `{}`", norm(s))),
    };
    let e3 = match &hs[3] {
        Stmt::Expr(e, None) => e.clone(),
        s => return Err(format!("compute_hidden_layout: last statement is `{}`", norm(s))),
    };
    out.comment("`compute_hidden_layout(tree, node)`: skeleton compared token by token —");
    out.comment("  tree.cache_clear(node); tree.set_unrounded_layout(node, &NODE_LAYOUT);");
    out.comment("  for index in 0..tree.child_count(node) { let child_id = tree.get_child_id(node, index); tree.compute_child_layout(child_id, CHILD_INPUT); }");
    out.comment("  OUTPUT");
    out.text.push('\n');
    const_expr(&mut out, w, "compute_hidden_layout_node_layout", "`compute_hidden_layout`: the layout written to the node", &e1, &layout)?;
    const_expr(&mut out, w, "compute_hidden_layout_child_input", "`compute_hidden_layout`: the input every child is visited with", &e2, &Ty::adt("LayoutInput", vec![]))?;
    const_expr(&mut out, w, "compute_hidden_layout_output", "`compute_hidden_layout`: the returned output", &e3, &Ty::adt("LayoutOutput", vec![]))?;
    out.finish(REQUIRED)
}
