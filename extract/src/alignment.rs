//! src/compute/common/alignment.rs (+ the enums of src/style/alignment.rs)  →  Generated/Alignment.lean
use crate::emit::{check_adt, check_alias, free_fns, Out};
use crate::lean::World;
use crate::util::{parse_file, CfgEnv};

pub const REQUIRED: &[&str] = &["apply_alignment_fallback", "compute_alignment_offset"];

pub fn extract(repo: &str, w: &mut World) -> Result<String, String> {
    let env = CfgEnv::default_build();
    let style = parse_file(&format!("{repo}/src/style/alignment.rs"))?;
    // the Lean enums `AlignContent` / `AlignItems` of Model/Style.lean against the source (variants, order, derived `==`)
    check_adt(w, &style.items, &env, "AlignContent", true)?;
    check_adt(w, &style.items, &env, "AlignItems", true)?;
    check_alias(w, &style.items, "JustifyContent", "AlignContent")?;
    check_alias(w, &style.items, "JustifyItems", "AlignItems")?;
    check_alias(w, &style.items, "AlignSelf", "AlignItems")?;
    check_alias(w, &style.items, "JustifySelf", "AlignItems")?;
    let file = parse_file(&format!("{repo}/src/compute/common/alignment.rs"))?;
    let mut out = Out::new("Gen.Alignment", "src/compute/common/alignment.rs", &["TaffyVerif.Generated.Prelude", "TaffyVerif.Model.Style"]);
    // `compute_alignment_offset` computes `(num_items - 1) as f32`: the model (GridTracks.computeAlignmentOffset) uses truncated
    // subtraction there; see Props/TieAlignment.lean for the statement that the underflow is unreachable after the fallback
    free_fns(&mut out, w, &file.items, &env, REQUIRED, REQUIRED, &["compute_alignment_offset"])?;
    out.finish(REQUIRED)
}
