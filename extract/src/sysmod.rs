//! src/util/sys.rs (the `std` arm)  →  Generated/Sys.lean
use crate::emit::{Out, Plan};
use crate::lean::World;
use crate::util::{parse_file, CfgEnv};
use std::collections::HashMap;
use syn::Item;

pub const REQUIRED: &[&str] = &["round", "ceil", "floor", "abs", "f32_max", "f32_min"];

pub fn extract(repo: &str, w: &mut World) -> Result<String, String> {
    let file = parse_file(&format!("{repo}/src/util/sys.rs"))?;
    let env = CfgEnv::default_build();
    let mut out = Out::new("Gen.Sys", "src/util/sys.rs (mod std)", &["TaffyVerif.Num"]);
    for it in &file.items {
        if let Item::Mod(m) = it {
            if m.ident == "std" && env.enabled(&m.attrs)? {
                for sub in &m.content.as_ref().ok_or("mod std without body")?.1 {
                    if let Item::Fn(f) = sub {
                        let name = f.sig.ident.to_string();
                        if !env.enabled(&f.attrs)? || !REQUIRED.contains(&name.as_str()) {
                            continue;
                        }
                        out.function(w, Plan { head: String::new(), rust_name: name.clone(), lean_rel: name, self_ty: None, generics: HashMap::new(), sig: &f.sig, block: &f.block, required: true, trunc_sub: false, ext: Default::default() });
                    }
                }
            }
        }
    }
    out.finish(REQUIRED)
}
