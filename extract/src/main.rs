//! tvextract <repo> <outdir>
//! Translator from taffy's Rust source to Lean definitions (tier T of the tie, DESIGN.md §4.1).
//! Anything outside the accepted fragment makes the run fail loudly (exit 1) — never silently skipped.
mod cl;
mod facts;
mod util;

fn main() {
    let args: Vec<String> = std::env::args().collect();
    if args.len() != 3 {
        eprintln!("usage: tvextract <repo> <outdir>");
        std::process::exit(2);
    }
    let repo = &args[1];
    let out = &args[2];
    std::fs::create_dir_all(out).unwrap();
    let mut failed = false;
    match cl::extract(repo) {
        Ok(text) => util::write_if_changed(&format!("{out}/CompactLength.lean"), &text),
        Err(e) => {
            println!("EXTRACT-ERROR compact_length: {e}");
            failed = true;
        }
    }
    match facts::extract(repo) {
        Ok(text) => util::write_if_changed(&format!("{out}/Facts.lean"), &text),
        Err(e) => {
            println!("EXTRACT-ERROR facts: {e}");
            failed = true;
        }
    }
    if failed {
        std::process::exit(1);
    }
    println!("extract ok");
}
