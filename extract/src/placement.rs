//! Grid item placement  →  Generated/Placement.lean (namespace `Gen.Placement`)
//!   src/compute/grid/types/cell_occupancy.rs (CellOccupancyMatrix), src/compute/grid/placement.rs, src/compute/grid/implicit_grid.rs,
//!   + the small helpers they call: `AbsoluteAxis::other_axis`, `InBothAbsAxis::get` (geometry.rs), `GridAutoFlow::{is_dense,primary_axis}`,
//!   `GridItemStyle::grid_placement` (style/grid.rs), `TrackCounts::{from_raw, oz_line_range_to_track_range}` (grid_track_counts.rs).
//!
//! Built on the expression translator of `gridint.rs` (machine integers are `Int`, every arithmetic operation and every `as` cast is a checked
//! operation of `GridPlacement.Outcome`, in Rust's evaluation order; `panic!`/`unwrap()` on `None` are `.panic`), through the extension hooks
//! `*_ext` that `gridint.rs` calls where it used to give up. This file adds the statement level that the placement code needs:
//!   * mutation: an assignment shadows (`x = e` ↦ `let x := e`), `x += e` is the checked operator, `self.a.b += e` is a nested structure update of
//!     `self_`; a `&mut self` method returns the new `self_`, a free function returns the tuple of its `&mut` parameters;
//!   * `if c { … }` / `if c { … } else { … }` statements yield the tuple of the outer locals their branches assign; a branch that ends in
//!     `return`/`continue` makes the rest of the block the other branch; `||` in a condition short-circuits (the right operand's checked operations
//!     are evaluated only when the left operand is false);
//!   * `for x in a..b { … }` / `for x in range { … }` is `Occ.forM (rangeI a b) state (fun x state => …)` over the tuple of assigned outer locals;
//!     a `for` nest whose only exits are `continue` and `return false`, followed by `true`, is `List.all`;
//!   * `loop { … }` in tail position is `Occ.loop fuel state (fun state => …)`: `continue` / falling off the end ↦ `Sum.inl state`, `return e` ↦
//!     `Sum.inr e`; the function (and every function that calls it) takes the model's `fuel`;
//!   * `match b { true => x, false => y }` on a `bool` is `if b then x else y`;
//!   * closures bound by `let` are inlined at their call sites; `opt.map(|x| effectful)` is a `match`;
//!   * the `grid` crate's `Grid<CellOccupancyState>` is the row-major list `GridPlacement.Grid` with bounds-checked access (vocabulary `Occ.*` in
//!     Model/PlacementOps.lean): an index written `e as usize` directly in the argument of `get`/`get_mut`/`iter_row`/`iter_col` is passed uncast —
//!     a negative i16 wraps to ≥ 2^63, which is out of bounds for every grid, and that is what the accessors answer for a negative index;
//!   * `Vec<CellOccupancyState>` is a list (`push` appends), `Vec::with_capacity(n)` is `[]` after evaluating `n`.
//!   * a parameter `impl Iterator<Item = S>` (S: GridItemStyle) is the list of the styles it yields; `iter.for_each(|x| { … });` as a statement
//!     is `Occ.forM iter state (fun x state => …)` over the tuple of the captured outer locals the closure assigns (a `return` inside the
//!     closure — "skip this element" — is rejected); integer literals in a `let (a, b, c) = (…, 0)` are `u16` like a lone literal.
//!   * `place_grid_items`: the parameter `children_iter: impl Fn() -> ChildIter` (`Item = (usize, NodeId, S)`) is the list `List (Nat × Child)` that
//!     every call yields (ASSUMED: the closure is pure, each call enumerates the same children; the NodeId is not modelled);
//!     `let f = { let a = …; move |…| … };` hoists the inner `let`s (fresh names) and remembers the closure; a statement
//!     `list.filter(|(_, _, s)| pure).map(f).for_each(|(a, b, c, d)| { … });` is `Occ.forM (List.filter p list) state (fun (index, style) state => …)`
//!     whose body is the `let`s of `f`, then the statements of the `for_each` closure — in that order per element, as lazy adaptors run (the
//!     conversion of element k+1 comes after element k has been processed); `let mut idx = 0;` whose only uses are `idx += literal;` (read by
//!     cfg(test) code only) is dropped together with those statements.
//! Anything else in a required function is an EXTRACT-ERROR.
use crate::gridint::{extract_with_fns, lname, segs, Cx, Pre, Sig, R, T};
use crate::util::{parse_file, CfgEnv};
use std::collections::{HashMap, HashSet};
use syn::{BinOp, Expr, ImplItem, Item, Pat, Stmt, UnOp};

#[derive(Default, Clone)]
pub(crate) struct Ext {
    pub fn_name: String,
    /// lean names of the functions that take `fuel`
    pub fuel_fns: HashSet<String>,
    /// lean name ↦ names... of `&mut self` methods (return the new self)
    pub mut_self: HashSet<String>,
    /// free functions: lean name ↦ indices of `&mut` parameters (returned as a tuple)
    pub mut_params: HashMap<String, Vec<usize>>,
    /// closures bound by `let`, inlined at the call
    pub closures: HashMap<String, syn::ExprClosure>,
    pub uses_fuel: bool,
    /// `use GenericGridPlacement::*;` seen
    pub glob_placement: bool,
    /// parameters that are dropped (only forwarded to `GridItem::new_with_placement_style_and_order`)
    pub dropped: HashSet<String>,
    /// `let mut idx = 0;` whose only uses are `idx += literal` statements (read only by cfg(test) code): the local and those statements are dropped
    pub dead: HashSet<String>,
}

pub(crate) fn lean_ty(t: &T) -> String {
    match t {
        T::Axis => "Axis".into(),
        T::Flow => "AutoFlow".into(),
        T::Cell => "Cell".into(),
        T::Matrix => "Matrix".into(),
        T::Grid => "Grid".into(),
        T::InBoth => "Occ.InBoth".into(),
        T::Child => "Child".into(),
        T::IdxChild => "(Nat × Child)".into(),
        T::OzChild => "(Nat × Occ.InBoth)".into(),
        T::Items => "(List Occ.PlacedItem)".into(),
        T::Tuple(ts) => format!("({})", ts.iter().map(|t| t.lean()).collect::<Vec<_>>().join(" × ")),
        T::List(t) => format!("(List {})", t.lean()),
        T::Unit => "Unit".into(),
        _ => "?".into(),
    }
}

fn split_top(s: &str) -> Vec<String> {
    let mut out = vec![];
    let mut depth = 0;
    let mut cur = String::new();
    for c in s.chars() {
        match c {
            '<' | '(' => {
                depth += 1;
                cur.push(c)
            }
            '>' | ')' => {
                depth -= 1;
                cur.push(c)
            }
            ',' if depth == 0 => {
                out.push(cur.clone());
                cur.clear()
            }
            _ => cur.push(c),
        }
    }
    if !cur.is_empty() {
        out.push(cur);
    }
    out
}

pub(crate) fn ty_ext(s: &str) -> R<T> {
    let s = s.trim_start_matches('&').trim_start_matches("mut");
    Ok(match s {
        "i16" => T::I16,
        "u16" => T::U16,
        "usize" => T::Usize,
        "bool" => T::Bool,
        "OriginZeroLine" => T::Oz,
        "TrackCounts" => T::Counts,
        "AbsoluteAxis" => T::Axis,
        "GridAutoFlow" => T::Flow,
        "CellOccupancyState" => T::Cell,
        "CellOccupancyMatrix" => T::Matrix,
        "Range<i16>" => T::Line(Box::new(T::I16)),
        "Line<OriginZeroLine>" => T::Line(Box::new(T::Oz)),
        "Line<GridPlacement>" => T::Line(Box::new(T::Placement(Box::new(T::Gl)))),
        "Line<OriginZeroGridPlacement>" => T::Line(Box::new(T::Placement(Box::new(T::Oz)))),
        "InBothAbsAxis<Line<OriginZeroGridPlacement>>" => T::InBoth,
        "Option<OriginZeroLine>" => T::Option(Box::new(T::Oz)),
        "Vec<GridItem>" => T::Items,
        "T" => T::Line(Box::new(T::Placement(Box::new(T::Oz)))),
        "S" => T::Child,
        // an iterator over the children's styles, consumed once (`for_each`): the list of the styles it yields
        "implIterator<Item=S>" => T::List(Box::new(T::Child)),
        // `children_iter: impl Fn() -> ChildIter`, `ChildIter: Iterator<Item = (usize, NodeId, S)>`: the list every call yields (the closure is
        // taken to be pure: each of its calls enumerates the same children); the NodeId is not modelled
        "implFn()->ChildIter" => T::List(Box::new(T::IdxChild)),
        _ if s.starts_with('(') && s.ends_with(')') => {
            let inner = &s[1..s.len() - 1];
            let mut ts = vec![];
            for p in split_top(inner) {
                ts.push(ty_ext(&p)?);
            }
            T::Tuple(ts)
        }
        _ => return Err(format!("unsupported type `{s}`")),
    })
}

pub(crate) fn cmp_ext(l: &str, lt: &T, op: &str, r: &str, rt: &T) -> R<(String, T)> {
    match (lt, rt, op) {
        (T::Cell, T::Cell, "=") => Ok((format!("({l} == {r})"), T::Bool)),
        (T::Line(a), T::Line(b), _) if **a == T::I16 && **b == T::I16 => Err("comparison of ranges".into()),
        _ => Err(format!("comparison at types {:?} / {:?}", lt, rt)),
    }
}

fn tuple_proj(b: &str, i: usize, n: usize) -> String {
    let mut s = b.to_string();
    for _ in 0..i.min(n - 1) {
        s.push_str(".2");
    }
    if i < n - 1 {
        s.push_str(".1");
    }
    s
}

fn variant(ty: &str, v: &str) -> Option<(&'static str, T)> {
    Some(match (ty, v) {
        ("AbsoluteAxis", "Horizontal") => ("Axis.horizontal", T::Axis),
        ("AbsoluteAxis", "Vertical") => ("Axis.vertical", T::Axis),
        ("CellOccupancyState", "Unoccupied") => ("Cell.unoccupied", T::Cell),
        ("CellOccupancyState", "DefinitelyPlaced") => ("Cell.definitelyPlaced", T::Cell),
        ("CellOccupancyState", "AutoPlaced") => ("Cell.autoPlaced", T::Cell),
        ("GridAutoFlow", "Row") => ("AutoFlow.row", T::Flow),
        ("GridAutoFlow", "Column") => ("AutoFlow.column", T::Flow),
        ("GridAutoFlow", "RowDense") => ("AutoFlow.rowDense", T::Flow),
        ("GridAutoFlow", "ColumnDense") => ("AutoFlow.columnDense", T::Flow),
        _ => return None,
    })
}

fn strip_usize_cast(e: &Expr) -> &Expr {
    match e {
        Expr::Paren(p) => strip_usize_cast(&p.expr),
        Expr::Cast(c) if crate::emit::norm(&c.ty) == "usize" => &c.expr,
        _ => e,
    }
}

impl<'a> Cx<'a> {
    fn self_ty_name(&self) -> &'static str {
        match &self.self_ty {
            Some(T::Axis) => "AbsoluteAxis",
            Some(T::Flow) => "GridAutoFlow",
            Some(T::Cell) => "CellOccupancyState",
            _ => "",
        }
    }
    fn enum_variant(&self, s: &[String]) -> Option<(&'static str, T)> {
        if s.len() < 2 {
            return None;
        }
        let tn = s[s.len() - 2].as_str();
        let tn = if tn == "Self" { self.self_ty_name() } else { tn };
        variant(tn, s.last().unwrap())
    }

    pub(crate) fn path_ext(&mut self, s: &[String], expect: Option<&T>) -> R<(String, T)> {
        if let Some((l, t)) = self.enum_variant(s) {
            return Ok((l.to_string(), t));
        }
        if self.ext.glob_placement && s.len() == 1 && s[0] == "Auto" {
            let t = match expect {
                Some(t @ T::Placement(_)) => t.clone(),
                _ => T::Placement(Box::new(T::Oz)),
            };
            return Ok(("Placement.auto".into(), t));
        }
        if s.len() == 1 && self.ext.dropped.contains(&s[0]) {
            return Err(format!("`{}` (a parameter that is not modelled) is used outside GridItem::new_with_placement_style_and_order", s[0]));
        }
        Err(format!("unresolved path `{}`", s.join("::")))
    }

    pub(crate) fn field_ext(&mut self, b: String, bt: T, m: &syn::Member) -> R<(String, T)> {
        match (m, &bt) {
            (syn::Member::Named(n), T::Matrix) => match n.to_string().as_str() {
                "inner" => Ok((format!("{b}.inner"), T::Grid)),
                "columns" => Ok((format!("{b}.columns"), T::Counts)),
                "rows" => Ok((format!("{b}.rows"), T::Counts)),
                o => Err(format!("CellOccupancyMatrix has no field {o}")),
            },
            (syn::Member::Named(n), T::InBoth) if n == "horizontal" || n == "vertical" => Ok((format!("{b}.{n}"), T::Line(Box::new(T::Placement(Box::new(T::Oz)))))),
            (syn::Member::Unnamed(i), T::Tuple(ts)) if (i.index as usize) < ts.len() => Ok((tuple_proj(&b, i.index as usize, ts.len()), ts[i.index as usize].clone())),
            _ => Err(format!("unsupported field access `.{}` on {:?}", quote::quote!(#m), bt)),
        }
    }

    pub(crate) fn binop_ext(&mut self, b: &syn::ExprBinary, l: String, lt: T, r: String, rt: T) -> R<(String, T)> {
        let as_bool = |s: String, t: &T| -> R<String> {
            match t {
                T::Bool => Ok(s),
                T::Prop => Ok(format!("decide ({s})")),
                _ => Err("boolean operator on a non-boolean".to_string()),
            }
        };
        match &b.op {
            BinOp::And(_) => Ok((format!("({} && {})", as_bool(l, &lt)?, as_bool(r, &rt)?), T::Bool)),
            BinOp::Or(_) => Ok((format!("({} || {})", as_bool(l, &lt)?, as_bool(r, &rt)?), T::Bool)),
            _ => Err(format!("unsupported operator in `{}`", quote::quote!(#b))),
        }
    }

    fn closure_params(&mut self, c: &syn::ExprClosure, tys: &[T]) -> R<Vec<String>> {
        if c.inputs.len() != tys.len() {
            return Err("closure arity".into());
        }
        let mut names = vec![];
        for (p, t) in c.inputs.iter().zip(tys) {
            let ps = self.pat(p, t)?;
            if ps.len() != 1 {
                return Err("closure parameter pattern".into());
            }
            names.push(ps[0].clone());
        }
        Ok(names)
    }

    /// a closure whose body is a pure expression
    fn pure_closure(&mut self, e: &Expr, tys: &[T]) -> R<(String, T)> {
        let c = match e {
            Expr::Closure(c) => c,
            _ => return Err("closure expected".into()),
        };
        let saved = self.locals.clone();
        let names = self.closure_params(c, tys)?;
        let mut pre = vec![];
        let (b, bt) = self.ex(&c.body, None, &mut pre)?;
        self.locals = saved;
        if !pre.is_empty() {
            return Err("closure with a checked operation inside (not a pure function)".into());
        }
        let b = if bt == T::Prop { format!("decide ({b})") } else { b };
        Ok((format!("(fun {} => {b})", names.join(" ")), if bt == T::Prop { T::Bool } else { bt }))
    }

    pub(crate) fn call_ext(&mut self, p: &[String], args: &[&Expr], expect: Option<&T>, pre: &mut Vec<Pre>) -> R<(String, T)> {
        let name = p.last().unwrap().as_str();
        let path = p.join("::");
        // a closure bound by `let`: inlined
        if p.len() == 1 {
            if let Some(c) = self.ext.closures.get(name).cloned() {
                if c.inputs.len() != args.len() {
                    return Err("closure arity".into());
                }
                let saved = self.locals.clone();
                for (pt, a) in c.inputs.iter().zip(args) {
                    let (l, t) = self.ex(a, None, pre)?;
                    let n = match pt {
                        Pat::Ident(i) => i.ident.to_string(),
                        _ => return Err("parameter pattern of an inlined closure".into()),
                    };
                    self.locals.insert(n, (l, t));
                }
                let r = self.ex(&c.body, expect, pre);
                self.locals = saved;
                return r;
            }
        }
        if p.len() == 1 && args.is_empty() {
            if let Some((l, t @ T::List(_))) = self.locals.get(name).cloned() {
                if t == T::List(Box::new(T::IdxChild)) {
                    return Ok((l, t));
                }
            }
        }
        if self.ext.glob_placement && p.len() == 1 && (name == "Line" || name == "Span") {
            let q = vec!["GenericGridPlacement".to_string(), name.to_string()];
            if let Some((ctor, t)) = self.placement_variant(&q, expect) {
                let want = if name == "Line" { T::Oz } else { T::U16 };
                let (a, _) = self.ex(args[0], Some(&want), pre)?;
                return Ok((format!("({ctor} {a})"), t));
            }
        }
        match path.as_str() {
            "Grid::new" if args.len() == 2 => {
                let (a, _) = self.ex(args[0], Some(&T::Usize), pre)?;
                let (b, _) = self.ex(args[1], Some(&T::Usize), pre)?;
                return Ok((format!("(Occ.gridNew {a} {b})"), T::Grid));
            }
            "Grid::from_vec" if args.len() == 2 => {
                let (a, at) = self.ex(args[0], None, pre)?;
                if !matches!(at, T::List(_)) {
                    return Err("Grid::from_vec of a non-Vec".into());
                }
                let (b, _) = self.ex(args[1], Some(&T::Usize), pre)?;
                let x = self.tmp();
                pre.push(Pre::Bind(x.clone(), format!("Occ.gridFromVec {a} {b}")));
                return Ok((x, T::Grid));
            }
            "Vec::with_capacity" if args.len() == 1 => {
                // the capacity is evaluated (its checked operations stay) and not used
                let (c, _) = self.ex(args[0], Some(&T::Usize), pre)?;
                if let Some(Pre::Bind(x, _)) = pre.last_mut() {
                    if *x == c {
                        *x = "_capacity".into();
                    }
                }
                return Ok(("([] : List Cell)".into(), T::List(Box::new(T::Cell))));
            }
            "GridItem::new_with_placement_style_and_order" if args.len() == 7 => {
                // (node, col_span, row_span, style, parent_align_items, parent_justify_items, source_order): node, style and the two alignments are not modelled
                let (c, ct) = self.ex(args[1], None, pre)?;
                let (r, rt) = self.ex(args[2], None, pre)?;
                let (o, ot) = self.ex(args[6], Some(&T::U16), pre)?;
                if ct != T::Line(Box::new(T::Oz)) || rt != ct || ot != T::U16 {
                    return Err("GridItem::new_with_placement_style_and_order: argument types".into());
                }
                return Ok((format!("(Occ.PlacedItem.mk {o} {r} {c})"), T::Unit));
            }
            _ => {}
        }
        // functions of this module
        let key = if p.len() == 1 { (String::new(), name.to_string()) } else { (p[p.len() - 2].clone(), name.to_string()) };
        if let Some(sig) = self.fns.get(&key).cloned() {
            return self.call_fn(&sig, None, args, pre);
        }
        Err(format!("call of unknown function `{path}`"))
    }

    fn call_fn(&mut self, sig: &Sig, recv: Option<String>, args: &[&Expr], pre: &mut Vec<Pre>) -> R<(String, T)> {
        let mut ls = vec![];
        if self.ext.fuel_fns.contains(&sig.lean) {
            self.ext.uses_fuel = true;
            ls.push("fuel".to_string());
        }
        if let Some(r) = recv {
            ls.push(r);
        }
        // parameters of the callee that are dropped are marked by T::Unit
        if sig.params.len() != args.len() {
            return Err(format!("arity of {}", sig.lean));
        }
        for (a, pt) in args.iter().zip(&sig.params) {
            if *pt == T::Unit {
                continue;
            }
            let (l, at) = self.ex(a, Some(pt), pre)?;
            if at != *pt && at != T::IntLit {
                return Err(format!("argument of {}: {:?} where {:?} is expected", sig.lean, at, pt));
            }
            ls.push(l);
        }
        Ok(self.call_sig(sig, ls, pre))
    }

    pub(crate) fn method_ext(&mut self, recv: String, rt: T, name: &str, args: &[&Expr], _expect: Option<&T>, pre: &mut Vec<Pre>) -> R<(String, T)> {
        match (&rt, name, args.len()) {
            (_, "clone", 0) => Ok((recv, rt)),
            (T::Matrix, _, _) | (T::Axis, _, _) | (T::Flow, _, _) | (T::InBoth, _, _) | (T::Counts, _, _) | (T::Child, _, _) if self.fns.contains_key(&(format!("{:?}", rt), name.to_string())) => {
                let sig = self.fns[&(format!("{:?}", rt), name.to_string())].clone();
                self.call_fn(&sig, Some(recv), args, pre)
            }
            (T::Child, "grid_row", 0) => Ok((format!("{recv}.row"), T::Line(Box::new(T::Placement(Box::new(T::Gl)))))),
            (T::Child, "grid_column", 0) => Ok((format!("{recv}.column"), T::Line(Box::new(T::Placement(Box::new(T::Gl)))))),
            (T::Grid, "get", 2) => {
                let (a, at) = self.ex(strip_usize_cast(args[0]), None, pre)?;
                let (b, bt) = self.ex(strip_usize_cast(args[1]), None, pre)?;
                if !at.is_int() || !bt.is_int() {
                    return Err("Grid::get index".into());
                }
                Ok((format!("(Grid.get {recv} {a} {b})"), T::Option(Box::new(T::Cell))))
            }
            (T::Grid, "rows", 0) => Ok((format!("(Occ.gridRows {recv})"), T::Usize)),
            (T::Grid, "cols", 0) => Ok((format!("(Occ.gridCols {recv})"), T::Usize)),
            (T::Grid, "iter_row" | "iter_col", 1) => {
                let (a, at) = self.ex(strip_usize_cast(args[0]), None, pre)?;
                if !at.is_int() {
                    return Err("Grid::iter_row index".into());
                }
                let x = self.tmp();
                pre.push(Pre::Bind(x.clone(), format!("Grid.{} {recv} {a}", if name == "iter_row" { "iterRow" } else { "iterCol" })));
                Ok((x, T::List(Box::new(T::Cell))))
            }
            (T::Option(t), "unwrap", 0) => {
                let x = self.tmp();
                pre.push(Pre::Bind(x.clone(), format!("Occ.unwrap {:?} {recv}", self.ext.fn_name)));
                Ok((x, (**t).clone()))
            }
            (T::Option(t), "unwrap_or", 1) => {
                let (a, at) = self.ex(args[0], Some(t), pre)?;
                if at != **t {
                    return Err("unwrap_or: type of the default".into());
                }
                Ok((format!("(Option.getD {recv} {a})"), at))
            }
            (T::List(t), "rposition", 1) => {
                let (f, ft) = self.pure_closure(args[0], &[(**t).clone()])?;
                if ft != T::Bool {
                    return Err("rposition: predicate".into());
                }
                Ok((format!("(Occ.rposition {f} {recv})"), T::Option(Box::new(T::Usize))))
            }
            (T::List(t), "any", 1) => {
                let (f, ft) = self.pure_closure(args[0], &[(**t).clone()])?;
                if ft != T::Bool {
                    return Err("any: predicate".into());
                }
                Ok((format!("(List.any {recv} {f})"), T::Bool))
            }
            // `Line<GridPlacement>::map(|placement| placement.into_origin_zero_placement(n))`: start, then end
            (T::Line(t), "map", 1) if matches!(**t, T::Placement(_)) => {
                let c = match args[0] {
                    Expr::Closure(c) => c.clone(),
                    _ => return Err("Line::map of a non-closure".into()),
                };
                let mut out = vec![];
                let mut ot = None;
                for side in ["start", "«end»"] {
                    let saved = self.locals.clone();
                    let n = match c.inputs.first() {
                        Some(Pat::Ident(i)) if c.inputs.len() == 1 => i.ident.to_string(),
                        _ => return Err("Line::map closure parameter".into()),
                    };
                    self.locals.insert(n, (format!("{recv}.{side}"), (**t).clone()));
                    let (v, vt) = self.ex(&c.body, None, pre)?;
                    self.locals = saved;
                    out.push(v);
                    ot = Some(vt);
                }
                Ok((format!("(Line.mk {} {})", out[0], out[1]), T::Line(Box::new(ot.unwrap()))))
            }
            _ => Err(format!("method `{name}` on {:?} is not translated", rt)),
        }
    }

    pub(crate) fn ex_ext(&mut self, e: &Expr, expect: Option<&T>, pre: &mut Vec<Pre>) -> R<(String, T)> {
        match e {
            Expr::Unary(u) if matches!(u.op, UnOp::Not(_)) => {
                let (a, at) = self.ex(&u.expr, None, pre)?;
                match at {
                    T::Bool => Ok((format!("(!{a})"), T::Bool)),
                    T::Prop => Ok((format!("(!decide ({a}))"), T::Bool)),
                    _ => Err("`!` on a non-boolean".into()),
                }
            }
            Expr::Range(r) => {
                let (a, at) = self.ex(r.start.as_ref().ok_or("open range")?, None, pre)?;
                let (b, bt) = self.ex(r.end.as_ref().ok_or("open range")?, Some(&at), pre)?;
                if !matches!(r.limits, syn::RangeLimits::HalfOpen(_)) {
                    return Err("closed range".into());
                }
                let t = if at == T::IntLit { bt.clone() } else { at.clone() };
                if !(at.is_int() && bt.is_int()) {
                    return Err("range of non-integers".into());
                }
                Ok((format!("(Line.mk {a} {b})"), T::Line(Box::new(t))))
            }
            Expr::Tuple(t) => {
                let wants: Vec<Option<T>> = match expect {
                    Some(T::Tuple(ts)) if ts.len() == t.elems.len() => ts.iter().cloned().map(Some).collect(),
                    _ => vec![None; t.elems.len()],
                };
                let mut ls = vec![];
                let mut ts = vec![];
                for (x, w) in t.elems.iter().zip(&wants) {
                    let (l, ty) = self.ex(x, w.as_ref(), pre)?;
                    let ty = match (&ty, w) {
                        (T::IntLit, Some(w)) => w.clone(),
                        _ => ty,
                    };
                    ls.push(l);
                    ts.push(ty);
                }
                Ok((format!("({})", ls.join(", ")), T::Tuple(ts)))
            }
            Expr::Struct(s) => {
                let n = segs(&s.path).last().unwrap().clone();
                let st = match (n.as_str(), &self.self_ty) {
                    ("Self", Some(t)) => t.clone(),
                    ("TrackCounts", _) => T::Counts,
                    ("CellOccupancyMatrix", _) => T::Matrix,
                    ("InBothAbsAxis", _) => T::InBoth,
                    _ => return Err(format!("struct literal `{n}`")),
                };
                let fields: Vec<(&str, &str, T)> = match st {
                    T::Counts => vec![("negative_implicit", "negativeImplicit", T::U16), ("explicit", "explicit", T::U16), ("positive_implicit", "positiveImplicit", T::U16)],
                    T::Matrix => vec![("inner", "inner", T::Grid), ("columns", "columns", T::Counts), ("rows", "rows", T::Counts)],
                    T::InBoth => {
                        let l = T::Line(Box::new(T::Placement(Box::new(T::Oz))));
                        vec![("horizontal", "horizontal", l.clone()), ("vertical", "vertical", l)]
                    }
                    _ => return Err(format!("struct literal `{n}`")),
                };
                if s.rest.is_some() || s.fields.len() != fields.len() {
                    return Err(format!("struct literal `{n}`: fields"));
                }
                let mut parts = vec![];
                // in source order
                for f in &s.fields {
                    let fname = match &f.member {
                        syn::Member::Named(n) => n.to_string(),
                        _ => return Err("positional field".into()),
                    };
                    let (_, ln, ft) = fields.iter().find(|(r, _, _)| *r == fname).ok_or(format!("{n} has no field {fname}"))?.clone();
                    let (v, vt) = self.ex(&f.expr, Some(&ft), pre)?;
                    if vt != ft && vt != T::IntLit {
                        return Err(format!("field {fname}: {:?} where {:?} is expected", vt, ft));
                    }
                    parts.push(format!("{ln} := {v}"));
                }
                Ok((format!("({{ {} }} : {})", parts.join(", "), st.lean()), st))
            }
            Expr::Block(b) if b.block.stmts.len() == 1 => match &b.block.stmts[0] {
                Stmt::Expr(e, None) => self.ex(e, expect, pre),
                _ => Err("block expression".into()),
            },
            Expr::If(i) => {
                // pure conditional expression
                let (c, ct) = self.ex(&i.cond, None, pre)?;
                if !matches!(ct, T::Prop | T::Bool) {
                    return Err("`if` condition".into());
                }
                let mut p1 = vec![];
                let th = match i.then_branch.stmts.as_slice() {
                    [Stmt::Expr(e, None)] => self.ex(e, expect, &mut p1)?,
                    _ => return Err("`if` expression with statements".into()),
                };
                let el = self.ex(&i.else_branch.as_ref().ok_or("`if` expression without else")?.1, Some(&th.1), &mut p1)?;
                if !p1.is_empty() {
                    return Err("`if` expression with checked operations in a branch (not in tail position)".into());
                }
                Ok((format!("(if {c} then {} else {})", th.0, el.0), th.1))
            }
            _ => Err(format!("unsupported expression `{}`", quote::quote!(#e))),
        }
    }

    pub(crate) fn pat_ext(&mut self, p: &Pat, t: &T) -> R<Vec<String>> {
        match p {
            Pat::Path(pp) => {
                let s = segs(&pp.path);
                if let Some((l, vt)) = self.enum_variant(&s) {
                    if vt == *t {
                        return Ok(vec![format!(".{}", l.split('.').nth(1).unwrap())]);
                    }
                }
                Err(format!("pattern `{}`", quote::quote!(#pp)))
            }
            Pat::Ident(i) if i.ident == "None" && matches!(t, T::Option(_)) => Ok(vec!["none".into()]),
            Pat::Ident(i) if self.ext.glob_placement && i.ident == "Auto" && matches!(t, T::Placement(_)) => Ok(vec![".auto".into()]),
            Pat::TupleStruct(ts) => {
                let s = segs(&ts.path);
                if s.len() == 1 && s[0] == "Some" && ts.elems.len() == 1 {
                    if let T::Option(it) = t {
                        let subs = self.pat(&ts.elems[0], it)?;
                        return Ok(subs.into_iter().map(|s| format!("some ({s})").replace("(.", "(Cell.")).collect());
                    }
                }
                if self.ext.glob_placement && s.len() == 1 && (s[0] == "Line" || s[0] == "Span") && ts.elems.len() == 1 {
                    if let T::Placement(c) = t {
                        let inner = if s[0] == "Line" { (**c).clone() } else { T::U16 };
                        let subs = self.pat(&ts.elems[0], &inner)?;
                        return Ok(subs.into_iter().map(|x| format!(".{} {x}", s[0].to_lowercase())).collect());
                    }
                }
                Err(format!("pattern `{}`", quote::quote!(#ts)))
            }
            Pat::Lit(l) => match &l.lit {
                syn::Lit::Bool(b) if *t == T::Bool => Ok(vec![b.value.to_string()]),
                _ => Err("literal pattern".into()),
            },
            Pat::Tuple(tp) => match t {
                T::Tuple(ts) if ts.len() == tp.elems.len() => {
                    let mut alts: Vec<Vec<String>> = vec![vec![]];
                    for (sp, st) in tp.elems.iter().zip(ts) {
                        let subs = self.pat(sp, st)?;
                        alts = alts.iter().flat_map(|a| subs.iter().map(move |s| { let mut x = a.clone(); x.push(s.clone()); x })).collect();
                    }
                    Ok(alts.into_iter().map(|a| format!("({})", a.join(", "))).collect())
                }
                _ => Err("tuple pattern on a non-tuple".into()),
            },
            Pat::Reference(r) => self.pat(&r.pat, t),
            Pat::Type(pt) => self.pat(&pt.pat, t),
            Pat::Paren(pp) => self.pat(&pp.pat, t),
            _ => Err(format!("unsupported pattern `{}`", quote::quote!(#p))),
        }
    }
}

// ---------------------------------------------------------------------------------------------------------------------------------
// statement level

#[derive(Clone, Debug)]
pub(crate) enum PS {
    Let(String, String, Box<PS>),
    Bind(String, String, Box<PS>),
    BindBlock(String, Box<PS>, Box<PS>),
    If(String, Box<PS>, Box<PS>),
    Match(Vec<String>, Vec<(Vec<String>, PS)>),
    Ret(String),
    Panic(String),
    For { st: String, var: String, list: String, body: Box<PS>, rest: Box<PS> },
    Loop { st: String, init: String, body: Box<PS> },
}

impl PS {
    fn effectful(&self) -> bool {
        match self {
            PS::Let(_, _, r) => r.effectful(),
            PS::Bind(..) | PS::Panic(_) | PS::For { .. } | PS::Loop { .. } => true,
            PS::BindBlock(_, b, r) => b.effectful() || r.effectful(),
            PS::If(_, a, b) => a.effectful() || b.effectful(),
            PS::Match(_, arms) => arms.iter().any(|(_, s)| s.effectful()),
            PS::Ret(_) => false,
        }
    }
    fn simple(&self) -> bool {
        matches!(self, PS::Ret(_) | PS::Panic(_)) || matches!(self, PS::Bind(x, _, r) if matches!(&**r, PS::Ret(y) if x == y))
    }
    fn render(&self, ind: usize, m: bool) -> String {
        let pad = " ".repeat(ind);
        let sub = |s: &PS, ind: usize| -> String {
            if s.simple() {
                format!(" {}", s.render(ind, m))
            } else if m {
                format!(" do\n{}{}", " ".repeat(ind), s.render(ind, m))
            } else {
                format!("\n{}{}", " ".repeat(ind), s.render(ind, m))
            }
        };
        match self {
            PS::Let(x, e, r) => format!("let {x} := {e}\n{pad}{}", r.render(ind, m)),
            PS::Bind(x, e, r) => match &**r {
                PS::Ret(y) if x == y => e.clone(),
                _ => format!("let {x} ← {e}\n{pad}{}", r.render(ind, m)),
            },
            PS::BindBlock(x, b, r) => {
                if b.effectful() {
                    format!("let {x} ← (({} : Outcome _))\n{pad}{}", sub(b, ind + 4).trim_start(), r.render(ind, m))
                } else {
                    format!("let {x} := ({})\n{pad}{}", b.render(ind + 4, false), r.render(ind, m))
                }
            }
            PS::If(c, a, b) => {
                let else_part = match &**b {
                    PS::If(..) => format!("else {}", b.render(ind, m)),
                    _ => format!("else{}", sub(b, ind + 2)),
                };
                format!("if {c} then{}\n{pad}{else_part}", sub(a, ind + 2))
            }
            PS::Match(sc, arms) => {
                let mut s = format!("match {} with", sc.join(", "));
                for (p, b) in arms {
                    s.push_str(&format!("\n{pad}| {} =>{}", p.join(", "), sub(b, ind + 4)));
                }
                s
            }
            PS::Ret(x) => {
                if m {
                    format!("pure {x}")
                } else {
                    x.clone()
                }
            }
            PS::Panic(msg) => format!(".panic {:?}", msg),
            PS::For { st, var, list, body, rest } => {
                format!("let {st} ← Occ.forM {list} {st} (fun {var} {st} => do\n{}{})\n{pad}{}", " ".repeat(ind + 4), body.render(ind + 4, true), rest.render(ind, m))
            }
            PS::Loop { st, init, body } => {
                format!("Occ.loop fuel {init} (fun {st} => do\n{}{})", " ".repeat(ind + 4), body.render(ind + 4, true))
            }
        }
    }
}

fn pwrap(pre: Vec<Pre>, mut s: PS) -> PS {
    for p in pre.into_iter().rev() {
        s = match p {
            Pre::Let(x, e) => PS::Let(x, e, Box::new(s)),
            Pre::Bind(x, e) => PS::Bind(x, e, Box::new(s)),
        };
    }
    s
}

#[derive(Clone)]
enum End {
    /// the block's tail expression is its value
    Value,
    /// statement block: hand on the tuple of assigned outer locals
    Tuple(String),
}

#[derive(Clone)]
struct Ctl {
    end: End,
    /// inside a `loop`: the loop's state tuple
    in_loop: Option<String>,
}

fn tuple_of(vars: &[String]) -> String {
    match vars.len() {
        0 => "()".into(),
        1 => vars[0].clone(),
        _ => format!("({})", vars.join(", ")),
    }
}

fn root_ident(e: &Expr) -> Option<String> {
    match e {
        Expr::Path(p) if p.path.segments.len() == 1 => Some(p.path.segments[0].ident.to_string()),
        Expr::Field(f) => root_ident(&f.base),
        Expr::Paren(p) => root_ident(&p.expr),
        Expr::Reference(r) => root_ident(&r.expr),
        Expr::Unary(u) if matches!(u.op, UnOp::Deref(_)) => root_ident(&u.expr),
        Expr::MethodCall(m) if m.method == "unwrap" || m.method == "get_mut" => root_ident(&m.receiver),
        _ => None,
    }
}

/// `*g.get_mut(r, c).unwrap()` ↦ (g, r, c)
fn get_mut_place(e: &Expr) -> Option<(&Expr, &Expr, &Expr)> {
    let inner = match e {
        Expr::Unary(u) if matches!(u.op, UnOp::Deref(_)) => &*u.expr,
        _ => return None,
    };
    let un = match inner {
        Expr::MethodCall(m) if m.method == "unwrap" && m.args.is_empty() => &*m.receiver,
        _ => return None,
    };
    match un {
        Expr::MethodCall(m) if m.method == "get_mut" && m.args.len() == 2 => Some((&*m.receiver, &m.args[0], &m.args[1])),
        _ => None,
    }
}

fn diverges(stmts: &[Stmt]) -> bool {
    matches!(stmts.last(), Some(Stmt::Expr(Expr::Return(_) | Expr::Continue(_), _)))
}

fn contains_return(stmts: &[Stmt]) -> bool {
    struct V(bool);
    impl<'ast> syn::visit::Visit<'ast> for V {
        fn visit_expr_return(&mut self, _: &'ast syn::ExprReturn) {
            self.0 = true;
        }
        fn visit_expr_closure(&mut self, _: &'ast syn::ExprClosure) {}
    }
    let mut v = V(false);
    for s in stmts {
        syn::visit::Visit::visit_stmt(&mut v, s);
    }
    v.0
}

impl<'a> Cx<'a> {
    fn lvar(&self, n: &str) -> String {
        self.locals.get(n).map(|x| x.0.clone()).unwrap_or_else(|| lname(n))
    }

    /// outer locals assigned somewhere in `stmts` (in order of first occurrence)
    fn assigned(&self, stmts: &[Stmt], out: &mut Vec<String>) {
        let mut add = |n: Option<String>, out: &mut Vec<String>| {
            if let Some(n) = n {
                if self.locals.contains_key(&n) && !out.contains(&n) {
                    out.push(n);
                }
            }
        };
        for st in stmts {
            match st {
                Stmt::Expr(e, _) => self.assigned_expr(e, out, &mut add),
                Stmt::Local(l) => {
                    if let Some(i) = &l.init {
                        self.assigned_expr(&i.expr, out, &mut add);
                    }
                }
                _ => {}
            }
        }
    }
    fn assigned_expr(&self, e: &Expr, out: &mut Vec<String>, add: &mut dyn FnMut(Option<String>, &mut Vec<String>)) {
        match e {
            Expr::Assign(a) => add(root_ident(&a.left), out),
            Expr::Binary(b) if matches!(b.op, BinOp::AddAssign(_) | BinOp::SubAssign(_)) => add(root_ident(&b.left), out),
            Expr::MethodCall(m) if m.method == "for_each" && m.args.len() == 1 && matches!(&m.args[0], Expr::Closure(_)) => {
                if let Expr::Closure(c) = &m.args[0] {
                    match &*c.body {
                        Expr::Block(b) => self.assigned(&b.block.stmts, out),
                        e => self.assigned_expr(e, out, add),
                    }
                }
            }
            Expr::MethodCall(m) => {
                let name = m.method.to_string();
                if name == "push" || self.ext.mut_self.iter().any(|f| f.ends_with(&format!(".{name}"))) {
                    add(root_ident(&m.receiver), out);
                }
            }
            Expr::Call(c) => {
                if let Expr::Path(p) = &*c.func {
                    let s = segs(&p.path);
                    if let Some(sig) = self.fns.get(&(String::new(), s.last().unwrap().clone())) {
                        if let Some(idx) = self.ext.mut_params.get(&sig.lean) {
                            for i in idx {
                                if let Some(a) = c.args.iter().nth(*i) {
                                    add(root_ident(a), out);
                                }
                            }
                        }
                    }
                }
            }
            Expr::If(i) => {
                self.assigned(&i.then_branch.stmts, out);
                if let Some((_, e)) = &i.else_branch {
                    self.assigned_expr(e, out, add);
                }
            }
            Expr::Block(b) => self.assigned(&b.block.stmts, out),
            Expr::ForLoop(f) => self.assigned(&f.body.stmts, out),
            Expr::Loop(l) => self.assigned(&l.body.stmts, out),
            Expr::Match(m) => {
                for a in &m.arms {
                    self.assigned_expr(&a.body, out, add);
                }
            }
            _ => {}
        }
    }

    /// bind the Lean variable(s) of a `let` pattern; returns the Lean pattern text
    fn let_pat(&mut self, p: &Pat, t: &T) -> R<String> {
        match p {
            Pat::Ident(i) => {
                let n = i.ident.to_string();
                let l = if n == "min" || n == "max" { format!("{n}_") } else { lname(&n) };
                self.locals.insert(n, (l.clone(), t.clone()));
                Ok(l)
            }
            Pat::Wild(_) => Ok("_".into()),
            Pat::Type(pt) => self.let_pat(&pt.pat, t),
            Pat::Tuple(tp) => match t {
                T::Tuple(ts) if ts.len() == tp.elems.len() => {
                    let mut v = vec![];
                    for (sp, st) in tp.elems.iter().zip(ts) {
                        v.push(self.let_pat(sp, st)?);
                    }
                    Ok(format!("({})", v.join(", ")))
                }
                _ => Err(format!("tuple pattern for a value of type {:?}", t)),
            },
            _ => Err(format!("let pattern `{}`", quote::quote!(#p))),
        }
    }

    /// `if c { a } else { b }` with short-circuiting `||`
    fn pcond_if(&mut self, c: &Expr, a: PS, b: PS) -> R<PS> {
        match c {
            Expr::Paren(p) => self.pcond_if(&p.expr, a, b),
            Expr::Binary(bin) if matches!(bin.op, BinOp::Or(_)) => {
                let inner = self.pcond_if(&bin.right, a.clone(), b)?;
                self.pcond_if(&bin.left, a, inner)
            }
            _ => {
                let mut pre = vec![];
                let (cl, ct) = self.ex(c, None, &mut pre)?;
                if !matches!(ct, T::Prop | T::Bool) {
                    return Err("`if` condition".into());
                }
                Ok(pwrap(pre, PS::If(cl, Box::new(a), Box::new(b))))
            }
        }
    }

    fn ret_value(&self, ctl: &Ctl, v: String) -> PS {
        match &ctl.in_loop {
            Some(_) => PS::Ret(format!("(Sum.inr {v})")),
            None => PS::Ret(v),
        }
    }

    fn note_ty(out_ty: &mut Option<T>, t: T) -> R<()> {
        match out_ty {
            None => *out_ty = Some(t),
            Some(o) if *o == t || t == T::IntLit => {}
            Some(o) if *o == T::IntLit => *out_ty = Some(t),
            Some(o) => return Err(format!("branches have different types {:?} / {:?}", o, t)),
        }
        Ok(())
    }

    /// the value `e` in tail position
    fn ptail(&mut self, e: &Expr, ctl: &Ctl, expect: Option<&T>, out_ty: &mut Option<T>) -> R<PS> {
        match e {
            Expr::Paren(p) => self.ptail(&p.expr, ctl, expect, out_ty),
            Expr::Block(b) => {
                let saved = self.locals.clone();
                let r = self.pblock(&b.block.stmts, ctl, expect, out_ty);
                self.locals = saved;
                r
            }
            Expr::If(i) => {
                let saved = self.locals.clone();
                let a = self.pblock(&i.then_branch.stmts, ctl, expect, out_ty)?;
                self.locals = saved.clone();
                let b = match &i.else_branch {
                    Some((_, e)) => self.ptail(e, ctl, expect, out_ty)?,
                    None => match &ctl.end {
                        End::Tuple(s) => PS::Ret(s.clone()),
                        End::Value => return Err("`if` without else as a value".into()),
                    },
                };
                self.locals = saved;
                self.pcond_if(&i.cond, a, b)
            }
            Expr::Macro(m) if m.mac.path.is_ident("panic") => {
                let msg: syn::LitStr = m.mac.parse_body().map_err(|_| "panic! with a non-literal message".to_string())?;
                Ok(PS::Panic(msg.value()))
            }
            Expr::Match(m) => self.pmatch(m, ctl, expect, out_ty),
            Expr::Return(r) => {
                let mut fn_ctl = ctl.clone();
                fn_ctl.end = End::Value;
                let e = r.expr.as_ref().ok_or("return without value")?;
                let mut pre = vec![];
                let (v, _) = self.ex(e, None, &mut pre)?;
                Ok(pwrap(pre, self.ret_value(&fn_ctl, v)))
            }
            Expr::Continue(_) => match &ctl.in_loop {
                Some(st) => Ok(PS::Ret(format!("(Sum.inl {st})"))),
                None => Err("`continue` outside `loop`".into()),
            },
            Expr::Loop(l) => {
                if ctl.in_loop.is_some() {
                    return Err("nested loop".into());
                }
                let mut vars = vec![];
                self.assigned(&l.body.stmts, &mut vars);
                let lv: Vec<String> = vars.iter().map(|v| self.lvar(v)).collect();
                let st = tuple_of(&lv);
                self.ext.uses_fuel = true;
                let saved = self.locals.clone();
                let body = self.pblock(&l.body.stmts, &Ctl { end: End::Tuple(format!("(Sum.inl {st})")), in_loop: Some(st.clone()) }, None, &mut None)?;
                self.locals = saved;
                Ok(PS::Loop { st: st.clone(), init: st, body: Box::new(body) })
            }
            // `opt.map(|x| e)` with checked operations in `e`
            Expr::MethodCall(mc) if mc.method == "map" && mc.args.len() == 1 && matches!(mc.args[0], Expr::Closure(_)) && matches!(ctl.end, End::Value) && ctl.in_loop.is_none() => {
                let mut pre = vec![];
                let (r, rt) = self.ex(&mc.receiver, None, &mut pre)?;
                let it = match rt {
                    T::Option(t) => (*t).clone(),
                    _ => return Err("`.map(closure)` on a non-Option in tail position".into()),
                };
                let c = match &mc.args[0] {
                    Expr::Closure(c) => c.clone(),
                    _ => unreachable!(),
                };
                let saved = self.locals.clone();
                let names = self.closure_params(&c, &[it])?;
                let mut p2 = vec![];
                let (b, bt) = self.ex(&c.body, None, &mut p2)?;
                self.locals = saved;
                Self::note_ty(out_ty, T::Option(Box::new(bt)))?;
                let some_arm = pwrap(p2, PS::Ret(format!("(some {b})")));
                Ok(pwrap(pre, PS::Match(vec![r], vec![(vec!["none".into()], PS::Ret("none".into())), (vec![format!("some {}", names[0])], some_arm)])))
            }
            _ => {
                let mut pre = vec![];
                let (v, t) = self.ex(e, expect, &mut pre)?;
                let t = if t == T::IntLit { expect.cloned().unwrap_or(T::IntLit) } else { t };
                let (v, t) = if t == T::Prop { (format!("decide ({v})"), T::Bool) } else { (v, t) };
                match &ctl.end {
                    End::Value => {
                        if ctl.in_loop.is_none() {
                            Self::note_ty(out_ty, t)?;
                        }
                        Ok(pwrap(pre, PS::Ret(v)))
                    }
                    End::Tuple(_) => Err(format!("value `{}` at the end of a statement block", quote::quote!(#e))),
                }
            }
        }
    }

    fn pmatch(&mut self, m: &syn::ExprMatch, ctl: &Ctl, expect: Option<&T>, out_ty: &mut Option<T>) -> R<PS> {
        let mut pre = vec![];
        let (sc, tys) = self.scrutinee(&m.expr, &mut pre)?;
        // `match b { true => x, false => y }` on a bool is `if b then x else y`
        if tys == [T::Bool] && m.arms.len() == 2 {
            let lit = |p: &Pat| match p {
                Pat::Lit(l) => match &l.lit {
                    syn::Lit::Bool(b) => Some(b.value),
                    _ => None,
                },
                _ => None,
            };
            if let (Some(a), Some(b)) = (lit(&m.arms[0].pat), lit(&m.arms[1].pat)) {
                if a != b && m.arms.iter().all(|x| x.guard.is_none()) {
                    let (ti, fi) = if a { (0, 1) } else { (1, 0) };
                    let saved = self.locals.clone();
                    let tb = self.ptail(&m.arms[ti].body, ctl, expect, out_ty)?;
                    self.locals = saved.clone();
                    let fb = self.ptail(&m.arms[fi].body, ctl, expect, out_ty)?;
                    self.locals = saved;
                    return Ok(pwrap(pre, PS::If(sc[0].clone(), Box::new(tb), Box::new(fb))));
                }
            }
        }
        let mut arms = vec![];
        for arm in &m.arms {
            if arm.guard.is_some() {
                return Err("match guard".into());
            }
            let saved = self.locals.clone();
            let alts = self.arm_pats(&arm.pat, &tys)?;
            let body = self.ptail(&arm.body, ctl, expect, out_ty)?;
            self.locals = saved;
            for a in alts {
                arms.push((a, body.clone()));
            }
        }
        Ok(pwrap(pre, PS::Match(sc, arms)))
    }

    /// rebinding of the place `lhs` (a local or a field path of a local) to the value `v`
    fn assign_place(&mut self, lhs: &Expr, v: String, vt: &T, rest: PS) -> R<PS> {
        match lhs {
            Expr::Paren(p) => self.assign_place(&p.expr, v, vt, rest),
            Expr::Path(p) if p.path.segments.len() == 1 => {
                let n = p.path.segments[0].ident.to_string();
                let (l, t) = self.locals.get(&n).cloned().ok_or(format!("assignment to unknown `{n}`"))?;
                let ok = t == *vt || *vt == T::IntLit || matches!((&t, vt), (T::List(_), T::List(_)));
                if !ok {
                    return Err(format!("assignment of {:?} to `{n}` : {:?}", vt, t));
                }
                Ok(PS::Let(l, v, Box::new(rest)))
            }
            Expr::Field(f) => {
                let mut pre = vec![];
                let (b, bt) = self.ex(&f.base, None, &mut pre)?;
                if !pre.is_empty() {
                    return Err("assignment through a computed place".into());
                }
                let (_, ft) = self.ex(lhs, None, &mut pre)?;
                if ft != *vt && *vt != T::IntLit {
                    return Err(format!("assignment of {:?} to a field of type {:?}", vt, ft));
                }
                let fname = match &f.member {
                    syn::Member::Named(n) => n.to_string(),
                    _ => return Err("assignment to a tuple field".into()),
                };
                let lf = match fname.as_str() {
                    "negative_implicit" => "negativeImplicit".to_string(),
                    "positive_implicit" => "positiveImplicit".to_string(),
                    o => o.to_string(),
                };
                let upd = format!("{{ {b} with {lf} := {v} }}");
                self.assign_place(&f.base, upd, &bt, rest)
            }
            _ => Err(format!("assignment to `{}`", quote::quote!(#lhs))),
        }
    }

    fn list_of_iter(&mut self, e: &Expr, pre: &mut Vec<Pre>) -> R<(String, T)> {
        // `for y in &mut range` advances `range` itself (a later loop over it sees what is left): not in the fragment
        if matches!(e, Expr::Reference(r) if r.mutability.is_some()) {
            return Err(format!("`for` over `{}`: iterating by `&mut` advances the iterator in place (not translated)", quote::quote!(#e)));
        }
        if let Expr::Range(r) = e {
            if let (Some(a), Some(b), syn::RangeLimits::HalfOpen(_)) = (&r.start, &r.end, &r.limits) {
                let (al, at) = self.ex(a, None, pre)?;
                let (bl, bt) = self.ex(b, Some(&at), pre)?;
                if !(at.is_int() && bt.is_int()) {
                    return Err("range of non-integers".into());
                }
                return Ok((format!("(rangeI {al} {bl})"), if at == T::IntLit { bt } else { at }));
            }
        }
        let (r, rt) = self.ex(e, None, pre)?;
        match rt {
            T::Line(t) if t.is_int() => Ok((format!("(rangeI {r}.start {r}.«end»)"), (*t).clone())),
            T::List(t) => Ok((r, (*t).clone())),
            t => Err(format!("`for` over {:?}", t)),
        }
    }

    /// a `for` nest whose only exits are `continue` / `return false`
    fn all_expr(&mut self, stmts: &[Stmt]) -> R<String> {
        let mut parts = vec![];
        for st in stmts {
            match st {
                Stmt::Expr(Expr::ForLoop(f), _) => {
                    let mut pre = vec![];
                    let (list, it) = self.list_of_iter(&f.expr, &mut pre)?;
                    if !pre.is_empty() {
                        return Err("checked operation in the range of a search loop".into());
                    }
                    let saved = self.locals.clone();
                    let var = self.let_pat(&f.pat, &it)?;
                    let inner = self.all_expr(&f.body.stmts)?;
                    self.locals = saved;
                    parts.push(format!("({list}).all fun {var} => {inner}"));
                }
                Stmt::Expr(Expr::Match(m), _) => {
                    let mut pre = vec![];
                    let (sc, tys) = self.scrutinee(&m.expr, &mut pre)?;
                    if !pre.is_empty() {
                        return Err("checked operation in a search loop".into());
                    }
                    let mut s = format!("(match {} with", sc.join(", "));
                    for arm in &m.arms {
                        let saved = self.locals.clone();
                        let alts = self.arm_pats(&arm.pat, &tys)?;
                        self.locals = saved;
                        let v = match &*arm.body {
                            Expr::Continue(_) => "true",
                            Expr::Return(r) if matches!(r.expr.as_deref(), Some(Expr::Lit(l)) if matches!(&l.lit, syn::Lit::Bool(b) if !b.value)) => "false",
                            _ => return Err("arm of a search loop is neither `continue` nor `return false`".into()),
                        };
                        for a in alts {
                            s.push_str(&format!(" | {} => {v}", a.join(", ")));
                        }
                    }
                    s.push(')');
                    parts.push(s);
                }
                _ => return Err(format!("statement of a search loop: `{}`", quote::quote!(#st))),
            }
        }
        if parts.len() == 1 {
            Ok(parts.pop().unwrap())
        } else {
            Ok(parts.iter().map(|p| format!("({p})")).collect::<Vec<_>>().join(" && "))
        }
    }

    fn pblock(&mut self, stmts: &[Stmt], ctl: &Ctl, expect: Option<&T>, out_ty: &mut Option<T>) -> R<PS> {
        let env = CfgEnv::default_build();
        let (st, rest) = match stmts.split_first() {
            Some(x) => x,
            None => {
                return match &ctl.end {
                    End::Tuple(s) => Ok(PS::Ret(s.clone())),
                    End::Value => Err("block without value".into()),
                }
            }
        };
        match st {
            Stmt::Item(Item::Use(u)) => {
                match &u.tree {
                    syn::UseTree::Rename(r) => {
                        self.aliases.insert(r.rename.to_string(), r.ident.to_string());
                    }
                    syn::UseTree::Path(p) if p.ident == "GenericGridPlacement" && matches!(*p.tree, syn::UseTree::Glob(_)) => self.ext.glob_placement = true,
                    _ => return Err("`use` inside a function".into()),
                }
                self.pblock(rest, ctl, expect, out_ty)
            }
            Stmt::Macro(m) if !env.enabled(&m.attrs)? => self.pblock(rest, ctl, expect, out_ty),
            Stmt::Local(l) if !env.enabled(&l.attrs)? => self.pblock(rest, ctl, expect, out_ty),
            // `let name = { let a = …; let b = …; move |…| … };`: the inner `let`s are hoisted (their names must be fresh), the closure is remembered
            Stmt::Local(l) if env.enabled(&l.attrs)? && matches!(l.init.as_ref().map(|i| &*i.expr), Some(Expr::Block(b)) if matches!(b.block.stmts.last(), Some(Stmt::Expr(Expr::Closure(_), None)))) => {
                let b = match &*l.init.as_ref().unwrap().expr {
                    Expr::Block(b) => b.block.stmts.clone(),
                    _ => unreachable!(),
                };
                let (last, init) = b.split_last().unwrap();
                let mut all: Vec<Stmt> = vec![];
                for st in init {
                    match st {
                        Stmt::Local(il) => match &il.pat {
                            Pat::Ident(i) if !self.locals.contains_key(&i.ident.to_string()) => all.push(st.clone()),
                            _ => return Err("hoisted `let` of a closure-building block: pattern / name already in use".into()),
                        },
                        _ => return Err("statement in a closure-building block".into()),
                    }
                }
                let pat = &l.pat;
                let c = match last {
                    Stmt::Expr(c, None) => c,
                    _ => unreachable!(),
                };
                all.push(syn::parse_quote!(let #pat = #c;));
                all.extend_from_slice(rest);
                self.pblock(&all, ctl, expect, out_ty)
            }
            // a counter that is only incremented (read by cfg(test) code only): dropped
            Stmt::Local(l) if env.enabled(&l.attrs)? && matches!((&l.pat, l.init.as_ref().map(|i| &*i.expr)), (Pat::Ident(i), Some(Expr::Lit(_))) if i.mutability.is_some() && { let n = i.ident.to_string(); let (a, b) = counter_uses(rest, &n); a == b }) => {
                if let Pat::Ident(i) = &l.pat {
                    self.locals.remove(&i.ident.to_string());
                    self.ext.dead.insert(i.ident.to_string());
                }
                self.pblock(rest, ctl, expect, out_ty)
            }
            Stmt::Expr(Expr::Binary(b), _) if matches!(b.op, BinOp::AddAssign(_)) && matches!(&*b.left, Expr::Path(p) if p.path.segments.len() == 1 && self.ext.dead.contains(&p.path.segments[0].ident.to_string()) && !self.locals.contains_key(&p.path.segments[0].ident.to_string())) => {
                self.pblock(rest, ctl, expect, out_ty)
            }
            // `list.filter(…).map(name).for_each(|…| { … });`
            Stmt::Expr(Expr::MethodCall(m), Some(_)) if m.method == "for_each" && matches!(&*m.receiver, Expr::MethodCall(x) if x.method == "map") => {
                self.chain_stmt(m, rest, ctl, expect, out_ty)
            }
            Stmt::Local(l) => {
                let init = &l.init.as_ref().ok_or("let without value")?.expr;
                // a closure: remembered, inlined at its calls
                if let (Pat::Ident(i), Expr::Closure(c)) = (&l.pat, &**init) {
                    self.ext.closures.insert(i.ident.to_string(), c.clone());
                    return self.pblock(rest, ctl, expect, out_ty);
                }
                match &**init {
                    Expr::Match(_) | Expr::If(_) => {
                        let mut t = None;
                        let b = self.ptail(init, &Ctl { end: End::Value, in_loop: None }, None, &mut t)?;
                        let pat = self.let_pat(&l.pat, &t.ok_or("untyped let")?)?;
                        let r = self.pblock(rest, ctl, expect, out_ty)?;
                        Ok(PS::BindBlock(pat, Box::new(b), Box::new(r)))
                    }
                    _ => {
                        let mut pre = vec![];
                        let (v, t) = self.ex(init, None, &mut pre)?;
                        fn lit_u16(t: T) -> T {
                            match t {
                                T::IntLit => T::U16,
                                T::Tuple(ts) => T::Tuple(ts.into_iter().map(lit_u16).collect()),
                                t => t,
                            }
                        }
                        let t = lit_u16(t);
                        let pat = self.let_pat(&l.pat, &t)?;
                        let r = self.pblock(rest, ctl, expect, out_ty)?;
                        if let Some(Pre::Bind(x, e)) = pre.last() {
                            if *x == v {
                                let e = e.clone();
                                pre.pop();
                                return Ok(pwrap(pre, PS::Bind(pat, e, Box::new(r))));
                            }
                        }
                        Ok(pwrap(pre, PS::Let(pat, v, Box::new(r))))
                    }
                }
            }
            // `*g.get_mut(r as usize, c as usize).unwrap() = v`
            Stmt::Expr(Expr::Assign(a), _) if get_mut_place(&a.left).is_some() => {
                let (g, r, c) = get_mut_place(&a.left).unwrap();
                let mut pre = vec![];
                let (gl, gt) = self.ex(g, None, &mut pre)?;
                if gt != T::Grid {
                    return Err("get_mut on a non-Grid".into());
                }
                let (rl, rt) = self.ex(strip_usize_cast(r), None, &mut pre)?;
                let (cl, ct) = self.ex(strip_usize_cast(c), None, &mut pre)?;
                if !rt.is_int() || !ct.is_int() {
                    return Err("Grid::get_mut index".into());
                }
                let (v, vt) = self.ex(&a.right, Some(&T::Cell), &mut pre)?;
                if vt != T::Cell {
                    return Err("Grid cell assignment of a non-cell".into());
                }
                let x = self.tmp();
                pre.push(Pre::Bind(x.clone(), format!("Grid.set {gl} {rl} {cl} {v}")));
                let rest_ps = self.pblock(rest, ctl, expect, out_ty)?;
                let asg = self.assign_place(g, x, &T::Grid, rest_ps)?;
                Ok(pwrap(pre, asg))
            }
            Stmt::Expr(Expr::Assign(a), _) => match &*a.right {
                Expr::Match(_) | Expr::If(_) => {
                    let mut t = None;
                    let b = self.ptail(&a.right, &Ctl { end: End::Value, in_loop: None }, None, &mut t)?;
                    let r = self.pblock(rest, ctl, expect, out_ty)?;
                    let tmp = self.tmp();
                    let asg = self.assign_place(&a.left, tmp.clone(), &t.ok_or("untyped assignment")?, r)?;
                    Ok(PS::BindBlock(tmp, Box::new(b), Box::new(asg)))
                }
                _ => {
                    let mut pre = vec![];
                    let (v, t) = self.ex(&a.right, None, &mut pre)?;
                    let r = self.pblock(rest, ctl, expect, out_ty)?;
                    let asg = self.assign_place(&a.left, v, &t, r)?;
                    Ok(pwrap(pre, asg))
                }
            },
            Stmt::Expr(Expr::Binary(b), _) if matches!(b.op, BinOp::AddAssign(_) | BinOp::SubAssign(_)) => {
                let op: BinOp = if matches!(b.op, BinOp::AddAssign(_)) { syn::parse_quote!(+) } else { syn::parse_quote!(-) };
                let (l, rr) = (&b.left, &b.right);
                let synthetic: Expr = syn::parse_quote!(#l #op #rr);
                let mut pre = vec![];
                let (v, t) = self.ex(&synthetic, None, &mut pre)?;
                let r = self.pblock(rest, ctl, expect, out_ty)?;
                let asg = self.assign_place(&b.left, v, &t, r)?;
                Ok(pwrap(pre, asg))
            }
            // `iter.for_each(|x| { … })` as a statement, `iter` a list-valued local that is not used afterwards: a `for` loop whose
            // state is the tuple of the captured outer locals the closure assigns
            Stmt::Expr(Expr::MethodCall(m), Some(_)) if m.method == "for_each" && m.args.len() == 1 && matches!(&m.args[0], Expr::Closure(_)) => {
                let c = match &m.args[0] {
                    Expr::Closure(c) => c.clone(),
                    _ => unreachable!(),
                };
                let mut pre = vec![];
                let (list, lt) = self.ex(&m.receiver, None, &mut pre)?;
                let it = match lt {
                    T::List(t) => (*t).clone(),
                    t => return Err(format!("`for_each` on {:?}", t)),
                };
                let body_stmts: Vec<Stmt> = match &*c.body {
                    Expr::Block(b) => b.block.stmts.clone(),
                    _ => return Err("`for_each` closure whose body is not a block".into()),
                };
                if contains_return(&body_stmts) || c.inputs.len() != 1 {
                    return Err("`for_each` closure with `return` / several parameters".into());
                }
                let mut vars = vec![];
                self.assigned(&body_stmts, &mut vars);
                let lv: Vec<String> = vars.iter().map(|v| self.lvar(v)).collect();
                let tup = tuple_of(&lv);
                let saved = self.locals.clone();
                let var = self.let_pat(&c.inputs[0], &it)?;
                let body = self.pblock(&body_stmts, &Ctl { end: End::Tuple(tup.clone()), in_loop: None }, None, &mut None)?;
                self.locals = saved;
                let r = self.pblock(rest, ctl, expect, out_ty)?;
                Ok(pwrap(pre, PS::For { st: tup, var, list, body: Box::new(body), rest: Box::new(r) }))
            }
            // `v.push(x)` and `&mut self` methods as statements
            Stmt::Expr(Expr::MethodCall(m), Some(_)) => {
                let name = m.method.to_string();
                let mut pre = vec![];
                let (recv, rt) = self.ex(&m.receiver, None, &mut pre)?;
                if name == "push" && m.args.len() == 1 {
                    let (a, at) = self.ex(&m.args[0], None, &mut pre)?;
                    let (newv, nt) = match (&rt, &at) {
                        (T::List(t), _) if **t == at => (format!("({recv} ++ [{a}])"), rt.clone()),
                        (T::Items, T::Unit) => (format!("({recv} ++ [{a}])"), T::Items),
                        _ => return Err(format!("push of {:?} onto {:?}", at, rt)),
                    };
                    let r = self.pblock(rest, ctl, expect, out_ty)?;
                    let asg = self.assign_place(&m.receiver, newv, &nt, r)?;
                    return Ok(pwrap(pre, asg));
                }
                let sig = self.fns.get(&(format!("{:?}", rt), name.clone())).cloned().ok_or(format!("method `{name}` on {:?} as a statement", rt))?;
                if !self.ext.mut_self.contains(&sig.lean) {
                    return Err(format!("`{name}` is called as a statement but does not take `&mut self`"));
                }
                let args: Vec<&Expr> = m.args.iter().collect();
                let (v, t) = self.call_fn(&sig, Some(recv), &args, &mut pre)?;
                let r = self.pblock(rest, ctl, expect, out_ty)?;
                let asg = self.assign_place(&m.receiver, v, &t, r)?;
                Ok(pwrap(pre, asg))
            }
            // a free function with `&mut` parameters, as a statement
            Stmt::Expr(Expr::Call(c), Some(_)) => {
                let p = match &*c.func {
                    Expr::Path(p) => segs(&p.path),
                    _ => return Err("call of a non-path".into()),
                };
                let sig = self.fns.get(&(String::new(), p.last().unwrap().clone())).cloned().ok_or(format!("call of `{}` as a statement", p.join("::")))?;
                let idx = self.ext.mut_params.get(&sig.lean).cloned().ok_or(format!("`{}` is called as a statement but has no `&mut` parameter", sig.lean))?;
                let args: Vec<&Expr> = c.args.iter().collect();
                let mut pre = vec![];
                let (v, _) = self.call_fn(&sig, None, &args, &mut pre)?;
                let mut names = vec![];
                for i in &idx {
                    let n = root_ident(args[*i]).ok_or("`&mut` argument is not a local")?;
                    names.push(self.lvar(&n));
                }
                let r = self.pblock(rest, ctl, expect, out_ty)?;
                Ok(pwrap(pre, PS::Let(tuple_of(&names), v, Box::new(r))))
            }
            Stmt::Expr(Expr::If(i), _) if !rest.is_empty() || matches!(ctl.end, End::Tuple(_)) => {
                if i.else_branch.is_none() && diverges(&i.then_branch.stmts) {
                    // `if c { …; return e; }` rest
                    let saved = self.locals.clone();
                    let a = self.pblock(&i.then_branch.stmts, ctl, expect, out_ty)?;
                    self.locals = saved;
                    let b = self.pblock(rest, ctl, expect, out_ty)?;
                    return self.pcond_if(&i.cond, a, b);
                }
                if diverges(&i.then_branch.stmts) {
                    // `if c { …; return e; } else { B }` rest  ==  `if c { …; return e; }` B rest
                    let saved = self.locals.clone();
                    let a = self.pblock(&i.then_branch.stmts, ctl, expect, out_ty)?;
                    self.locals = saved;
                    let eb = match &i.else_branch.as_ref().unwrap().1.as_ref() {
                        Expr::Block(b) => b.block.stmts.clone(),
                        _ => return Err("else-if after a diverging branch".into()),
                    };
                    if eb.iter().any(|s| matches!(s, Stmt::Local(_))) {
                        return Err("`let` in the else branch of a diverging `if`".into());
                    }
                    let mut all = eb;
                    all.extend_from_slice(rest);
                    let b = self.pblock(&all, ctl, expect, out_ty)?;
                    return self.pcond_if(&i.cond, a, b);
                }
                // both branches fall through: they yield the tuple of the outer locals they assign
                let mut vars = vec![];
                self.assigned(std::slice::from_ref(st), &mut vars);
                let lv: Vec<String> = vars.iter().map(|v| self.lvar(v)).collect();
                let tup = tuple_of(&lv);
                let inner = Ctl { end: End::Tuple(tup.clone()), in_loop: ctl.in_loop.clone() };
                let saved = self.locals.clone();
                let a = self.pblock(&i.then_branch.stmts, &inner, None, &mut None)?;
                self.locals = saved.clone();
                let b = match &i.else_branch {
                    Some((_, e)) => self.ptail(e, &inner, None, &mut None)?,
                    None => PS::Ret(tup.clone()),
                };
                self.locals = saved;
                if contains_return(&i.then_branch.stmts) {
                    return Err("`return` inside a branch that also falls through".into());
                }
                let blk = self.pcond_if(&i.cond, a, b)?;
                let r = self.pblock(rest, ctl, expect, out_ty)?;
                Ok(PS::BindBlock(tup, Box::new(blk), Box::new(r)))
            }
            Stmt::Expr(Expr::ForLoop(f), _) => {
                if contains_return(&f.body.stmts) {
                    // search loop: `for … { … continue / return false … }  true`
                    let is_true = matches!(rest, [Stmt::Expr(Expr::Lit(l), None)] if matches!(&l.lit, syn::Lit::Bool(b) if b.value));
                    if !is_true || ctl.in_loop.is_some() || !matches!(ctl.end, End::Value) {
                        return Err("`for` with `return` inside that is not of the form `for … { … return false … } true`".into());
                    }
                    let v = self.all_expr(std::slice::from_ref(st))?;
                    Self::note_ty(out_ty, T::Bool)?;
                    return Ok(PS::Ret(format!("({v})")));
                }
                let mut pre = vec![];
                let (list, it) = self.list_of_iter(&f.expr, &mut pre)?;
                let mut vars = vec![];
                self.assigned(&f.body.stmts, &mut vars);
                let lv: Vec<String> = vars.iter().map(|v| self.lvar(v)).collect();
                let tup = tuple_of(&lv);
                let saved = self.locals.clone();
                let var = self.let_pat(&f.pat, &it)?;
                let body = self.pblock(&f.body.stmts, &Ctl { end: End::Tuple(tup.clone()), in_loop: None }, None, &mut None)?;
                self.locals = saved;
                let r = self.pblock(rest, ctl, expect, out_ty)?;
                Ok(pwrap(pre, PS::For { st: tup, var, list, body: Box::new(body), rest: Box::new(r) }))
            }
            Stmt::Expr(e @ (Expr::Return(_) | Expr::Continue(_)), _) if rest.is_empty() => self.ptail(e, ctl, expect, out_ty),
            Stmt::Expr(e @ Expr::Loop(_), _) if rest.is_empty() => self.ptail(e, ctl, expect, out_ty),
            Stmt::Expr(e, None) if rest.is_empty() => self.ptail(e, ctl, expect, out_ty),
            Stmt::Expr(e @ (Expr::If(_) | Expr::Match(_)), _) if rest.is_empty() => self.ptail(e, ctl, expect, out_ty),
            _ => Err(format!("unsupported statement `{}`", quote::quote!(#st))),
        }
    }
}


/// number of occurrences of the path `name` in enabled code, and how many of them are the left side of `name += literal;`
fn counter_uses(stmts: &[Stmt], name: &str) -> (usize, usize) {
    struct V<'n>(&'n str, usize, usize);
    impl<'ast, 'n> syn::visit::Visit<'ast> for V<'n> {
        fn visit_expr_path(&mut self, p: &'ast syn::ExprPath) {
            if p.path.is_ident(self.0) {
                self.1 += 1;
            }
        }
        fn visit_expr_binary(&mut self, b: &'ast syn::ExprBinary) {
            if matches!(b.op, BinOp::AddAssign(_)) && matches!(&*b.left, Expr::Path(p) if p.path.is_ident(self.0)) && matches!(&*b.right, Expr::Lit(_)) {
                self.2 += 1;
            }
            syn::visit::visit_expr_binary(self, b);
        }
    }
    let mut v = V(name, 0, 0);
    for s in stmts {
        syn::visit::Visit::visit_stmt(&mut v, s);
    }
    (v.1, v.2)
}

/// `recv.filter(F).map(NAME).for_each(C)` ↦ (recv, F, NAME, C)
fn chain_parts(m: &syn::ExprMethodCall) -> Option<(&Expr, &syn::ExprClosure, String, &syn::ExprClosure)> {
    if m.method != "for_each" || m.args.len() != 1 {
        return None;
    }
    let c = match &m.args[0] {
        Expr::Closure(c) => c,
        _ => return None,
    };
    let mp = match &*m.receiver {
        Expr::MethodCall(x) if x.method == "map" && x.args.len() == 1 => x,
        _ => return None,
    };
    let name = match &mp.args[0] {
        Expr::Path(p) if p.path.segments.len() == 1 => p.path.segments[0].ident.to_string(),
        _ => return None,
    };
    let fl = match &*mp.receiver {
        Expr::MethodCall(x) if x.method == "filter" && x.args.len() == 1 => x,
        _ => return None,
    };
    let f = match &fl.args[0] {
        Expr::Closure(c) => c,
        _ => return None,
    };
    Some((&*fl.receiver, f, name, c))
}

fn strip_pat(p: &Pat) -> &Pat {
    match p {
        Pat::Type(t) => strip_pat(&t.pat),
        Pat::Paren(t) => strip_pat(&t.pat),
        Pat::Reference(t) => strip_pat(&t.pat),
        _ => p,
    }
}

impl<'a> Cx<'a> {
    /// bind the pattern `(index, node, style)` of an element `(usize, NodeId, S)`; returns the Lean pattern `(index, style)`
    fn idx_child_pat(&mut self, p: &Pat) -> R<String> {
        let elems = match strip_pat(p) {
            Pat::Tuple(t) if t.elems.len() == 3 => t.elems.iter().collect::<Vec<_>>(),
            _ => return Err("pattern of an element `(usize, NodeId, S)`".into()),
        };
        let mut out = vec![];
        for (i, e) in elems.iter().enumerate() {
            match (i, strip_pat(e)) {
                (1, Pat::Wild(_)) => {}
                (1, Pat::Ident(id)) => {
                    self.locals.remove(&id.ident.to_string());
                    self.ext.dropped.insert(id.ident.to_string());
                }
                (_, Pat::Wild(_)) => out.push("_".to_string()),
                (_, Pat::Ident(id)) => {
                    let n = id.ident.to_string();
                    let l = lname(&n);
                    self.locals.insert(n, (l.clone(), if i == 0 { T::Usize } else { T::Child }));
                    out.push(l);
                }
                _ => return Err("pattern of an element `(usize, NodeId, S)`".into()),
            }
        }
        Ok(format!("({})", out.join(", ")))
    }

    /// `list.filter(|(_, _, s)| pure).map(NAME).for_each(|(a, b, c, d)| { … });` — lazily, as the iterator adaptors run: for each element that
    /// passes the (pure) filter, the statements of the closure NAME, then the statements of the `for_each` closure
    fn chain_stmt(&mut self, m: &syn::ExprMethodCall, rest: &[Stmt], ctl: &Ctl, expect: Option<&T>, out_ty: &mut Option<T>) -> R<PS> {
        let (recv, fc, name, body_c) = chain_parts(m).ok_or("iterator chain that is not `filter(closure).map(named closure).for_each(closure)`")?;
        let mut pre = vec![];
        let (list, lt) = self.ex(recv, None, &mut pre)?;
        if lt != T::List(Box::new(T::IdxChild)) {
            return Err(format!("iterator chain over {:?}", lt));
        }
        // the filter: a pure predicate
        let saved = self.locals.clone();
        let saved_dropped = self.ext.dropped.clone();
        if fc.inputs.len() != 1 {
            return Err("filter closure arity".into());
        }
        let fpat = self.idx_child_pat(&fc.inputs[0])?;
        let mut fpre = vec![];
        let (fb, fbt) = self.ex(&fc.body, None, &mut fpre)?;
        self.locals = saved.clone();
        if !fpre.is_empty() || !matches!(fbt, T::Bool | T::Prop) {
            return Err("filter predicate with a checked operation inside / not a boolean".into());
        }
        let fb = if fbt == T::Prop { format!("decide ({fb})") } else { fb };
        let list = format!("(List.filter (fun {fpat} => {fb}) {list})");
        // the map closure and the for_each closure
        let mc = self.ext.closures.get(&name).cloned().ok_or(format!("`.map({name})`: not a closure bound by `let`"))?;
        if mc.inputs.len() != 1 || body_c.inputs.len() != 1 {
            return Err("closure arity in an iterator chain".into());
        }
        let (m_stmts, m_tuple): (Vec<Stmt>, syn::ExprTuple) = match &*mc.body {
            Expr::Block(b) => match b.block.stmts.split_last() {
                Some((Stmt::Expr(Expr::Tuple(t), None), init)) => (init.to_vec(), t.clone()),
                _ => return Err("map closure that does not end in a tuple".into()),
            },
            _ => return Err("map closure whose body is not a block".into()),
        };
        let b_stmts: Vec<Stmt> = match &*body_c.body {
            Expr::Block(b) => b.block.stmts.clone(),
            _ => return Err("`for_each` closure whose body is not a block".into()),
        };
        if contains_return(&b_stmts) || contains_return(&m_stmts) || m_stmts.iter().any(|s| !matches!(s, Stmt::Local(_))) {
            return Err("`return` / non-`let` statement in a closure of an iterator chain".into());
        }
        // the state: outer locals assigned by the for_each body
        let mut vars = vec![];
        self.assigned(&b_stmts, &mut vars);
        let lv: Vec<String> = vars.iter().map(|v| self.lvar(v)).collect();
        let tup = tuple_of(&lv);
        let var = self.idx_child_pat(&mc.inputs[0])?;
        // the `let`s of the map closure are translated in front of the body; its result tuple is matched with the for_each pattern by name
        let bpat = match strip_pat(&body_c.inputs[0]) {
            Pat::Tuple(t) if t.elems.len() == m_tuple.elems.len() => t.elems.iter().cloned().collect::<Vec<_>>(),
            _ => return Err("for_each pattern does not match the tuple of the map closure".into()),
        };
        // names introduced by the map closure's lets must be known before the aliasing: translate them first, in a nested scope
        let mut all = m_stmts.clone();
        let mut alias: Vec<(String, String)> = vec![];
        for (bp, te) in bpat.iter().zip(m_tuple.elems.iter()) {
            let src = match te {
                Expr::Path(p) if p.path.segments.len() == 1 => p.path.segments[0].ident.to_string(),
                _ => return Err("element of the map closure's tuple is not a local".into()),
            };
            match strip_pat(bp) {
                Pat::Wild(_) => {}
                Pat::Ident(id) => alias.push((id.ident.to_string(), src)),
                _ => return Err("for_each pattern element".into()),
            }
        }
        // `let dst = src;` for every renamed element (dropped ones stay dropped)
        for (dst, src) in &alias {
            if self.ext.dropped.contains(src) {
                self.ext.dropped.insert(dst.clone());
                continue;
            }
            if dst != src {
                let d = syn::Ident::new(dst, proc_macro2::Span::call_site());
                let sr = syn::Ident::new(src, proc_macro2::Span::call_site());
                all.push(syn::parse_quote!(let #d = #sr;));
            }
        }
        all.extend(b_stmts);
        let body = self.pblock(&all, &Ctl { end: End::Tuple(tup.clone()), in_loop: None }, None, &mut None)?;
        self.locals = saved;
        self.ext.dropped = saved_dropped;
        let r = self.pblock(rest, ctl, expect, out_ty)?;
        Ok(pwrap(pre, PS::For { st: tup, var, list, body: Box::new(body), rest: Box::new(r) }))
    }
}

// ---------------------------------------------------------------------------------------------------------------------------------
// driver

struct Target {
    file: &'static str,
    /// `impl` self type as written (empty: a free function; `trait X`: a provided method of trait X)
    self_ty: &'static str,
    func: &'static str,
    required: bool,
}
const fn t(file: &'static str, self_ty: &'static str, func: &'static str, required: bool) -> Target {
    Target { file, self_ty, func, required }
}

const GE: &str = "src/geometry.rs";
const SG: &str = "src/style/grid.rs";
const TC: &str = "src/compute/grid/types/grid_track_counts.rs";
const CO: &str = "src/compute/grid/types/cell_occupancy.rs";
const PL: &str = "src/compute/grid/placement.rs";
const IG: &str = "src/compute/grid/implicit_grid.rs";

/// in dependency order
const TARGETS: &[Target] = &[
    t(GE, "AbsoluteAxis", "other_axis", true),
    t(GE, "InBothAbsAxis<T>", "get", true),
    t(SG, "GridAutoFlow", "is_dense", true),
    t(SG, "GridAutoFlow", "primary_axis", true),
    t(SG, "trait GridItemStyle", "grid_placement", true),
    t(TC, "TrackCounts", "from_raw", true),
    t(TC, "TrackCounts", "oz_line_range_to_track_range", true),
    t(CO, "CellOccupancyMatrix", "track_counts", true),
    t(CO, "CellOccupancyMatrix", "with_track_counts", true),
    t(CO, "CellOccupancyMatrix", "is_area_in_range", true),
    t(CO, "CellOccupancyMatrix", "expand_to_fit_range", true),
    t(CO, "CellOccupancyMatrix", "mark_area_as", true),
    t(CO, "CellOccupancyMatrix", "track_area_is_unoccupied", true),
    t(CO, "CellOccupancyMatrix", "line_area_is_unoccupied", true),
    t(CO, "CellOccupancyMatrix", "row_is_occupied", true),
    t(CO, "CellOccupancyMatrix", "column_is_occupied", true),
    t(CO, "CellOccupancyMatrix", "last_of_type", true),
    t(PL, "", "place_definite_grid_item", true),
    t(PL, "", "place_definite_secondary_axis_item", true),
    t(PL, "", "place_indefinitely_positioned_item", true),
    t(PL, "", "record_grid_placement", true),
    t(IG, "", "child_min_line_max_line_span", true),
    t(IG, "", "get_known_child_positions", true),
    t(IG, "", "compute_grid_size_estimate", true),
    t(PL, "", "place_grid_items", true),
];

fn self_t(s: &str) -> R<Option<T>> {
    Ok(Some(match s {
        "" => return Ok(None),
        "AbsoluteAxis" => T::Axis,
        "InBothAbsAxis<T>" => T::InBoth,
        "GridAutoFlow" => T::Flow,
        "trait GridItemStyle" => T::Child,
        "TrackCounts" => T::Counts,
        "CellOccupancyMatrix" => T::Matrix,
        o => return Err(format!("self type {o}")),
    }))
}

/// parameter types that are not modelled: only forwarded to `GridItem::new_with_placement_style_and_order`
fn dropped_ty(s: &str) -> bool {
    matches!(s, "NodeId" | "AlignItems")
}

fn find_fn<'f>(file: &'f syn::File, env: &CfgEnv, tg: &Target) -> R<(&'f syn::Signature, &'f syn::Block)> {
    for it in &file.items {
        match it {
            Item::Fn(f) if tg.self_ty.is_empty() && f.sig.ident == tg.func && env.enabled(&f.attrs)? => return Ok((&f.sig, &f.block)),
            Item::Impl(im) if !tg.self_ty.is_empty() && im.trait_.is_none() && crate::emit::norm(&im.self_ty) == tg.self_ty && env.enabled(&im.attrs)? => {
                for ii in &im.items {
                    if let ImplItem::Fn(f) = ii {
                        if f.sig.ident == tg.func {
                            return Ok((&f.sig, &f.block));
                        }
                    }
                }
            }
            Item::Trait(tr) if tg.self_ty.strip_prefix("trait ") == Some(tr.ident.to_string().as_str()) => {
                for ti in &tr.items {
                    if let syn::TraitItem::Fn(f) = ti {
                        if f.sig.ident == tg.func {
                            return Ok((&f.sig, f.default.as_ref().ok_or("trait method without a provided body")?));
                        }
                    }
                }
            }
            _ => {}
        }
    }
    Err("not found in the source".into())
}

struct Shared {
    fuel_fns: HashSet<String>,
    mut_self: HashSet<String>,
    mut_params: HashMap<String, Vec<usize>>,
}

fn translate(fns: &HashMap<(String, String), Sig>, sh: &mut Shared, tg: &Target, sig: &syn::Signature, block: &syn::Block) -> R<(String, (String, String), Sig)> {
    let self_ty = self_t(tg.self_ty)?;
    let ns = match tg.self_ty {
        "" => String::new(),
        "InBothAbsAxis<T>" => "InBothAbsAxis.".into(),
        "trait GridItemStyle" => "GridItemStyle.".into(),
        o => format!("{o}."),
    };
    let lean = format!("{ns}{}", tg.func);
    let mut cx = Cx { fns, self_ty: self_ty.clone(), generic_coord: None, locals: HashMap::new(), aliases: HashMap::new(), n: 0, ext: Default::default() };
    cx.ext.fn_name = tg.func.to_string();
    cx.ext.fuel_fns = sh.fuel_fns.clone();
    cx.ext.mut_self = sh.mut_self.clone();
    cx.ext.mut_params = sh.mut_params.clone();
    let mut binders = String::new();
    let mut params = vec![];
    let mut has_self = false;
    let mut self_mut = false;
    let mut mut_idx = vec![];
    let mut mut_names = vec![];
    for a in &sig.inputs {
        match a {
            syn::FnArg::Receiver(r) => {
                has_self = true;
                self_mut = r.mutability.is_some();
                let st = self_ty.clone().ok_or("self outside impl")?;
                cx.locals.insert("self".into(), ("self_".into(), st.clone()));
                binders.push_str(&format!(" (self_ : {})", st.lean()));
            }
            syn::FnArg::Typed(pt) => {
                let n = match &*pt.pat {
                    Pat::Ident(i) => i.ident.to_string(),
                    _ => return Err("parameter pattern".into()),
                };
                let tn = crate::emit::norm(&pt.ty);
                if dropped_ty(&tn) || (tn == "S" && tg.func == "record_grid_placement") {
                    cx.ext.dropped.insert(n);
                    params.push(T::Unit);
                    continue;
                }
                let ty = cx.ty(&pt.ty)?;
                if matches!(&*pt.ty, syn::Type::Reference(r) if r.mutability.is_some()) {
                    mut_idx.push(params.len());
                    mut_names.push((lname(&n), ty.clone()));
                }
                cx.locals.insert(n.clone(), (lname(&n), ty.clone()));
                binders.push_str(&format!(" ({} : {})", lname(&n), ty.lean()));
                params.push(ty);
            }
        }
    }
    let declared = match &sig.output {
        syn::ReturnType::Type(_, t) => Some(cx.ty(t)?),
        syn::ReturnType::Default => None,
    };
    let mut out_ty = None;
    let (body, ret) = match (&declared, self_mut, mut_names.is_empty()) {
        (Some(r), false, true) => (cx.pblock(&block.stmts, &Ctl { end: End::Value, in_loop: None }, Some(r), &mut out_ty)?, r.clone()),
        (None, true, true) => (cx.pblock(&block.stmts, &Ctl { end: End::Tuple("self_".into()), in_loop: None }, None, &mut out_ty)?, self_ty.clone().unwrap()),
        (None, false, false) => {
            let names: Vec<String> = mut_names.iter().map(|x| x.0.clone()).collect();
            let tys: Vec<T> = mut_names.iter().map(|x| x.1.clone()).collect();
            let rt = if tys.len() == 1 { tys[0].clone() } else { T::Tuple(tys) };
            (cx.pblock(&block.stmts, &Ctl { end: End::Tuple(tuple_of(&names)), in_loop: None }, None, &mut out_ty)?, rt)
        }
        _ => return Err("combination of return type and `&mut` parameters".into()),
    };
    if let (Some(d), Some(o)) = (&declared, &out_ty) {
        let same = o == d || *o == T::IntLit || matches!((o, d), (T::Line(a), T::Line(b)) if a.is_int() && b.is_int()) || matches!((o, d), (T::Line(a), T::Line(b)) if matches!((&**a, &**b), (T::Placement(_), T::Placement(_))));
        if !same {
            return Err(format!("body has type {:?}, declared {:?}", o, d));
        }
    }
    let monadic = body.effectful();
    let fuel = cx.ext.uses_fuel;
    let fb = if fuel { " (fuel : Nat)" } else { "" };
    let full = format!("Gen.Placement.{lean}");
    if fuel {
        sh.fuel_fns.insert(full.clone());
    }
    if self_mut {
        sh.mut_self.insert(full.clone());
    }
    if !mut_idx.is_empty() {
        sh.mut_params.insert(full.clone(), mut_idx);
    }
    let rt = ret.lean();
    let what = if tg.self_ty.is_empty() { tg.func.to_string() } else { format!("{}::{}", tg.self_ty.trim_start_matches("trait "), tg.func) };
    let text = if monadic {
        format!("/-- `{what}` -/\ndef {lean}{fb}{binders} : Outcome {rt} := do\n  {}\n\n", body.render(2, true))
    } else {
        format!("/-- `{what}` (no checked operation inside: pure) -/\ndef {lean}{fb}{binders} : {rt} :=\n  {}\n\n", body.render(2, false))
    };
    let key = (self_ty.as_ref().map(|t| format!("{:?}", t)).unwrap_or_default(), tg.func.to_string());
    let key = if key.0 == "Counts" { ("TrackCounts".to_string(), key.1) } else { key };
    Ok((text, key, Sig { lean: full, self_ty: if has_self { self_ty } else { None }, params, ret, monadic }))
}

pub fn extract(repo: &str) -> Result<String, String> {
    let env = CfgEnv::default_build();
    let (_, mut fns) = extract_with_fns(repo)?;
    let mut files: HashMap<&str, syn::File> = HashMap::new();
    for f in [GE, SG, TC, CO, PL, IG] {
        files.insert(f, parse_file(&format!("{repo}/{f}"))?);
    }
    // the shapes the translation relies on
    let mut ok_matrix = false;
    let mut ok_cell = false;
    for it in &files[CO].items {
        match it {
            Item::Struct(s) if s.ident == "CellOccupancyMatrix" => {
                let fs: Vec<String> = s.fields.iter().map(|f| format!("{}:{}", f.ident.as_ref().unwrap(), crate::emit::norm(&f.ty))).collect();
                ok_matrix = fs == ["inner:Grid<CellOccupancyState>", "columns:TrackCounts", "rows:TrackCounts"];
            }
            Item::Enum(e) if e.ident == "CellOccupancyState" => {
                let vs: Vec<String> = e.variants.iter().map(|v| v.ident.to_string()).collect();
                ok_cell = vs == ["Unoccupied", "DefinitelyPlaced", "AutoPlaced"] && e.variants.iter().all(|v| v.fields.is_empty());
            }
            _ => {}
        }
    }
    if !ok_matrix {
        return Err("struct CellOccupancyMatrix changed (expected inner: Grid<CellOccupancyState>, columns, rows: TrackCounts)".into());
    }
    if !ok_cell {
        return Err("enum CellOccupancyState changed (expected Unoccupied, DefinitelyPlaced, AutoPlaced)".into());
    }
    let mut out = String::new();
    out.push_str("-- generated by tvextract from src/compute/grid/{placement,implicit_grid}.rs, src/compute/grid/types/cell_occupancy.rs (+ helpers of\n");
    out.push_str("-- geometry.rs, style/grid.rs, grid_track_counts.rs) — do not edit.  Conventions: extract/src/placement.rs (header) and Model/PlacementOps.lean.\n");
    out.push_str("-- Model/GridPlacement is imported for the TYPES (Outcome, Placement, TrackCounts, Axis, AutoFlow, Cell, Grid, Matrix, Child) and the\n");
    out.push_str("-- checked machine-integer primitives; `Occ.*` is the vocabulary for the `grid` crate's Grid, Vec and loops.\n");
    out.push_str("import TaffyVerif.Generated.GridCoords\nimport TaffyVerif.Model.PlacementOps\n\nnamespace Gen.Placement\n");
    out.push_str("open GridPlacement (Outcome Placement TrackCounts Axis AutoFlow Cell Grid Matrix Child i16 u16 usize rangeI)\n\n");
    let mut sh = Shared { fuel_fns: HashSet::new(), mut_self: HashSet::new(), mut_params: HashMap::new() };
    let mut errors = vec![];
    let mut done = vec![];
    for tg in TARGETS {
        let r = find_fn(&files[tg.file], &env, tg).and_then(|(sig, block)| translate(&fns, &mut sh, tg, sig, block));
        match r {
            Ok((text, key, sig)) => {
                out.push_str(&text);
                done.push(sig.lean.clone());
                fns.insert(key, sig);
            }
            Err(e) if tg.required => errors.push(format!("required function `{}{}{}` is outside the translated fragment: {e}", tg.self_ty, if tg.self_ty.is_empty() { "" } else { "::" }, tg.func)),
            Err(e) => out.push_str(&format!("-- not translated: {}: {}\n\n", tg.func, e.replace('\n', " "))),
        }
    }
    if !errors.is_empty() {
        return Err(errors.join("\n"));
    }
    out.push_str("end Gen.Placement\n");
    Ok(out)
}
