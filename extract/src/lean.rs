//! Types of the translated fragment, the registry of known Lean types, and a small Lean term IR with a printer.
use std::collections::HashMap;

#[derive(Clone, PartialEq, Debug)]
pub enum Ty {
    F32,
    Bool,
    Nat,
    Unit,
    Unknown,
    Opt(Box<Ty>),
    List(Box<Ty>),
    Tuple(Vec<Ty>),
    Adt(String, Vec<Ty>),
    Param(usize),
    /// a type parameter of a generic `impl<T>` that is kept abstract: the Lean definition is polymorphic in it
    /// (values of this type can only be moved around)
    Var(String),
    /// a pure function value (a closure parameter `F: Fn(A, B) -> R` of a helper such as `Size::map`): Lean `A → B → R`
    Fn(Vec<Ty>, Box<Ty>),
}

impl Ty {
    pub fn opt(t: Ty) -> Ty {
        Ty::Opt(Box::new(t))
    }
    pub fn adt(n: &str, args: Vec<Ty>) -> Ty {
        Ty::Adt(n.to_string(), args)
    }
    pub fn head(&self) -> String {
        match self {
            Ty::F32 => "f32".into(),
            Ty::Bool => "bool".into(),
            Ty::Nat => "usize".into(),
            Ty::Unit => "()".into(),
            Ty::Unknown => "?".into(),
            Ty::Opt(_) => "Option".into(),
            Ty::List(_) => "List".into(),
            Ty::Tuple(_) => "tuple".into(),
            Ty::Adt(n, _) => n.clone(),
            Ty::Param(i) => format!("#{i}"),
            Ty::Var(v) => format!("'{v}"),
            Ty::Fn(..) => "fn".into(),
        }
    }
    /// the abstract type variables mentioned, in order of first occurrence
    pub fn vars(&self, out: &mut Vec<String>) {
        match self {
            Ty::Var(v) => {
                if !out.contains(v) {
                    out.push(v.clone())
                }
            }
            Ty::Opt(t) | Ty::List(t) => t.vars(out),
            Ty::Tuple(v) | Ty::Adt(_, v) => v.iter().for_each(|t| t.vars(out)),
            Ty::Fn(a, r) => {
                a.iter().for_each(|t| t.vars(out));
                r.vars(out)
            }
            _ => {}
        }
    }
    /// the type as an expectation: what is still an abstract variable is not known yet
    pub fn vars_to_unknown(&self) -> Ty {
        match self {
            Ty::Var(_) => Ty::Unknown,
            Ty::Opt(t) => Ty::Opt(Box::new(t.vars_to_unknown())),
            Ty::List(t) => Ty::List(Box::new(t.vars_to_unknown())),
            Ty::Tuple(v) => Ty::Tuple(v.iter().map(|t| t.vars_to_unknown()).collect()),
            Ty::Adt(n, v) => Ty::Adt(n.clone(), v.iter().map(|t| t.vars_to_unknown()).collect()),
            Ty::Fn(a, r) => Ty::Fn(a.iter().map(|t| t.vars_to_unknown()).collect(), Box::new(r.vars_to_unknown())),
            t => t.clone(),
        }
    }
    /// match a declared type mentioning abstract type variables against an actual one, extending the instantiation `s`
    /// (`Unknown` on either side matches anything); false when the two cannot be made equal
    pub fn unify(&self, actual: &Ty, s: &mut HashMap<String, Ty>) -> bool {
        match (self, actual) {
            (Ty::Var(v), a) => match s.get(v).cloned() {
                Some(t) => {
                    if t.compatible(a) {
                        s.insert(v.clone(), t.join(a));
                        true
                    } else {
                        false
                    }
                }
                None => {
                    s.insert(v.clone(), a.clone());
                    true
                }
            },
            (Ty::Unknown, _) | (_, Ty::Unknown) => true,
            (Ty::Opt(a), Ty::Opt(b)) | (Ty::List(a), Ty::List(b)) => a.unify(b, s),
            (Ty::Tuple(a), Ty::Tuple(b)) => a.len() == b.len() && a.iter().zip(b).all(|(x, y)| x.unify(y, s)),
            (Ty::Adt(n, a), Ty::Adt(m, b)) => n == m && a.len() == b.len() && a.iter().zip(b).all(|(x, y)| x.unify(y, s)),
            (Ty::Fn(a, r), Ty::Fn(b, q)) => a.len() == b.len() && a.iter().zip(b).all(|(x, y)| x.unify(y, s)) && r.unify(q, s),
            (a, b) => a == b,
        }
    }
    /// instantiate the abstract type variables
    pub fn subst_vars(&self, s: &HashMap<String, Ty>) -> Ty {
        match self {
            Ty::Var(v) => s.get(v).cloned().unwrap_or_else(|| self.clone()),
            Ty::Opt(t) => Ty::Opt(Box::new(t.subst_vars(s))),
            Ty::List(t) => Ty::List(Box::new(t.subst_vars(s))),
            Ty::Tuple(v) => Ty::Tuple(v.iter().map(|t| t.subst_vars(s)).collect()),
            Ty::Adt(n, v) => Ty::Adt(n.clone(), v.iter().map(|t| t.subst_vars(s)).collect()),
            Ty::Fn(a, r) => Ty::Fn(a.iter().map(|t| t.subst_vars(s)).collect(), Box::new(r.subst_vars(s))),
            t => t.clone(),
        }
    }
    pub fn has_unknown(&self) -> bool {
        match self {
            Ty::Unknown | Ty::Param(_) => true,
            Ty::Opt(t) | Ty::List(t) => t.has_unknown(),
            Ty::Tuple(v) | Ty::Adt(_, v) => v.iter().any(|t| t.has_unknown()),
            Ty::Fn(a, r) => a.iter().any(|t| t.has_unknown()) || r.has_unknown(),
            _ => false,
        }
    }
    /// structural compatibility; `Unknown` matches anything
    pub fn compatible(&self, o: &Ty) -> bool {
        match (self, o) {
            (Ty::Unknown, _) | (_, Ty::Unknown) => true,
            (Ty::Opt(a), Ty::Opt(b)) | (Ty::List(a), Ty::List(b)) => a.compatible(b),
            (Ty::Tuple(a), Ty::Tuple(b)) => a.len() == b.len() && a.iter().zip(b).all(|(x, y)| x.compatible(y)),
            (Ty::Adt(n, a), Ty::Adt(m, b)) => n == m && a.len() == b.len() && a.iter().zip(b).all(|(x, y)| x.compatible(y)),
            (Ty::Fn(a, r), Ty::Fn(b, q)) => a.len() == b.len() && a.iter().zip(b).all(|(x, y)| x.compatible(y)) && r.compatible(q),
            (a, b) => a == b,
        }
    }
    /// fill the unknown parts of `self` from `o`
    pub fn join(&self, o: &Ty) -> Ty {
        match (self, o) {
            (Ty::Unknown, b) => b.clone(),
            (Ty::Opt(a), Ty::Opt(b)) => Ty::Opt(Box::new(a.join(b))),
            (Ty::List(a), Ty::List(b)) => Ty::List(Box::new(a.join(b))),
            (Ty::Tuple(a), Ty::Tuple(b)) if a.len() == b.len() => Ty::Tuple(a.iter().zip(b).map(|(x, y)| x.join(y)).collect()),
            (Ty::Adt(n, a), Ty::Adt(m, b)) if n == m && a.len() == b.len() => Ty::Adt(n.clone(), a.iter().zip(b).map(|(x, y)| x.join(y)).collect()),
            (Ty::Fn(a, r), Ty::Fn(b, q)) if a.len() == b.len() => Ty::Fn(a.iter().zip(b).map(|(x, y)| x.join(y)).collect(), Box::new(r.join(q))),
            (a, _) => a.clone(),
        }
    }
    pub fn subst(&self, args: &[Ty]) -> Ty {
        match self {
            Ty::Param(i) => args.get(*i).cloned().unwrap_or(Ty::Unknown),
            Ty::Opt(t) => Ty::Opt(Box::new(t.subst(args))),
            Ty::List(t) => Ty::List(Box::new(t.subst(args))),
            Ty::Tuple(v) => Ty::Tuple(v.iter().map(|t| t.subst(args)).collect()),
            Ty::Adt(n, v) => Ty::Adt(n.clone(), v.iter().map(|t| t.subst(args)).collect()),
            Ty::Fn(a, r) => Ty::Fn(a.iter().map(|t| t.subst(args)).collect(), Box::new(r.subst(args))),
            t => t.clone(),
        }
    }
    /// match a declared type with parameters against an actual one, recording parameter instantiations
    pub fn infer_params(&self, actual: &Ty, out: &mut Vec<Ty>) {
        match (self, actual) {
            (Ty::Param(i), a) => {
                if *i < out.len() {
                    out[*i] = out[*i].join(a);
                }
            }
            (Ty::Opt(a), Ty::Opt(b)) | (Ty::List(a), Ty::List(b)) => a.infer_params(b, out),
            (Ty::Tuple(a), Ty::Tuple(b)) | (Ty::Adt(_, a), Ty::Adt(_, b)) => {
                for (x, y) in a.iter().zip(b) {
                    x.infer_params(y, out)
                }
            }
            _ => {}
        }
    }
}

#[derive(Clone, Debug)]
pub struct Field {
    pub rust: String,
    pub lean: String,
    pub ty: Ty,
}
#[derive(Clone, Debug)]
pub struct Variant {
    pub rust: String,
    pub lean: String,
    pub args: Vec<Ty>,
}
#[derive(Clone, Debug)]
pub enum AdtKind {
    Struct(Vec<Field>),
    Enum(Vec<Variant>),
    /// a style length wrapper around `CompactLength`: abstract inductive, only the tag-match shape is accepted;
    /// variants: (tag constant, constructor, has payload)
    Length(Vec<(String, String, bool)>),
}
#[derive(Clone, Debug)]
pub struct Adt {
    pub rust: String,
    pub lean: String,
    /// the Lean type constructor takes the number type `α` as its first argument
    pub alpha: bool,
    pub nparams: usize,
    pub kind: AdtKind,
}

#[derive(Clone, Debug)]
pub struct FnSig {
    pub lean: String,
    pub self_ty: Option<Ty>,
    pub params: Vec<(String, Ty)>,
    pub ret: Ty,
    pub alpha: bool,
    /// `&mut self` method: the Lean function returns the new `self` (paired with the value unless unit)
    pub mut_self: bool,
    /// number of trailing Rust parameters that are not translated (the `calc` resolver)
    pub dropped: usize,
    /// free function whose first parameter is `&mut T` and which returns `()`: the Lean function returns the updated first argument
    pub mut_first: bool,
    /// translated in interaction form: the Lean function returns an interaction program (`ret` is the Rust return type);
    /// callable only from a function translated over the same program type, as a bind
    pub prog: bool,
}

#[derive(Clone)]
pub struct World {
    /// set by the module that has compared `CompactLength::{length, percent, auto}` and `CompactLength::{ZERO, AUTO}` with the
    /// source: the constructor side of the tag ↦ constructor convention (`Self(CompactLength::length(v))` ↦ `.length v`, …)
    pub length_ctors_checked: bool,
    /// `pub type A = B;` aliases of registered types (checked against the source by the module that uses them)
    pub aliases: HashMap<String, String>,
    pub adts: Vec<Adt>,
    pub fns: HashMap<(String, String), Vec<FnSig>>,
    pub consts: HashMap<(String, String), (String, Ty, bool)>,
    /// the query type of the tree traits (set by `treemod`): functions with a `tree` parameter are translated over it
    pub tree_plan: Option<crate::emit::ProgPlan>,
}

fn snake_to_camel(s: &str) -> String {
    let mut out = String::new();
    let mut up = false;
    for c in s.chars() {
        if c == '_' {
            up = true;
        } else if up {
            out.extend(c.to_uppercase());
            up = false;
        } else {
            out.push(c);
        }
    }
    out
}
fn lower_first(s: &str) -> String {
    let mut c = s.chars();
    match c.next() {
        Some(f) => f.to_lowercase().collect::<String>() + c.as_str(),
        None => String::new(),
    }
}
pub const RESERVED: &[&str] = &[
    "calc", "from", "end", "at", "fun", "open", "have", "show", "do", "then", "else", "if", "let", "in", "by", "match", "with", "where",
    "instance", "class", "structure", "def", "theorem", "example", "section", "namespace", "variable", "import", "then", "from", "self",
    "Type", "Prop", "Sort", "default", "none", "some", "id",
];
pub fn ident(name: &str) -> String {
    if RESERVED.contains(&name) {
        format!("{name}_")
    } else {
        name.to_string()
    }
}
fn lean_member(name: &str) -> String {
    if ["end", "from", "at", "open", "then", "else", "in", "do"].contains(&name) {
        format!("«{name}»")
    } else {
        name.to_string()
    }
}

impl World {
    pub fn new() -> World {
        let mut w = World { length_ctors_checked: false, aliases: HashMap::new(), adts: vec![], fns: HashMap::new(), consts: HashMap::new(), tree_plan: None };
        let p0 = Ty::Param(0);
        let f = Ty::F32;
        let of = Ty::opt(Ty::F32);
        let st = |w: &mut World, rust: &str, lean: &str, alpha: bool, np: usize, fields: Vec<(&str, Ty)>| {
            w.adts.push(Adt {
                rust: rust.into(),
                lean: lean.into(),
                alpha,
                nparams: np,
                kind: AdtKind::Struct(fields.into_iter().map(|(n, t)| Field { rust: n.into(), lean: lean_member(&snake_to_camel(n)), ty: t }).collect()),
            })
        };
        let en = |w: &mut World, rust: &str, lean: &str, alpha: bool, vars: Vec<(&str, Vec<Ty>)>| {
            w.adts.push(Adt {
                rust: rust.into(),
                lean: lean.into(),
                alpha,
                nparams: 0,
                kind: AdtKind::Enum(vars.into_iter().map(|(n, a)| Variant { rust: n.into(), lean: lean_member(&lower_first(n)), args: a }).collect()),
            })
        };
        // TaffyVerif/Model/Geometry.lean
        st(&mut w, "Size", "Size", false, 1, vec![("width", p0.clone()), ("height", p0.clone())]);
        st(&mut w, "Point", "Point", false, 1, vec![("x", p0.clone()), ("y", p0.clone())]);
        st(&mut w, "Rect", "Rect", false, 1, vec![("left", p0.clone()), ("right", p0.clone()), ("top", p0.clone()), ("bottom", p0.clone())]);
        st(&mut w, "Line", "Line", false, 1, vec![("start", p0.clone()), ("end", p0.clone())]);
        en(&mut w, "AvailableSpace", "AvailableSpace", true, vec![("Definite", vec![f.clone()]), ("MinContent", vec![]), ("MaxContent", vec![])]);
        en(&mut w, "RunMode", "RunMode", false, vec![("PerformLayout", vec![]), ("ComputeSize", vec![]), ("PerformHiddenLayout", vec![])]);
        en(&mut w, "SizingMode", "SizingMode", false, vec![("ContentSize", vec![]), ("InherentSize", vec![])]);
        en(&mut w, "RequestedAxis", "RequestedAxis", false, vec![("Horizontal", vec![]), ("Vertical", vec![]), ("Both", vec![])]);
        st(&mut w, "CollapsibleMarginSet", "MarginSet", true, 0, vec![("positive", f.clone()), ("negative", f.clone())]);
        let size_f = Ty::adt("Size", vec![f.clone()]);
        let rect_f = Ty::adt("Rect", vec![f.clone()]);
        let cms = Ty::adt("CollapsibleMarginSet", vec![]);
        st(
            &mut w,
            "LayoutOutput",
            "LayoutOutput",
            true,
            0,
            vec![
                ("size", size_f.clone()),
                ("content_size", size_f.clone()),
                ("first_baselines", Ty::adt("Point", vec![of.clone()])),
                ("top_margin", cms.clone()),
                ("bottom_margin", cms.clone()),
                ("margins_can_collapse_through", Ty::Bool),
            ],
        );
        st(
            &mut w,
            "Layout",
            "Layout",
            true,
            0,
            vec![
                ("order", Ty::Nat),
                ("location", Ty::adt("Point", vec![f.clone()])),
                ("size", size_f.clone()),
                ("content_size", size_f.clone()),
                ("scrollbar_size", size_f.clone()),
                ("border", rect_f.clone()),
                ("padding", rect_f.clone()),
                ("margin", rect_f.clone()),
            ],
        );
        st(
            &mut w,
            "LayoutInput",
            "LayoutInput",
            true,
            0,
            vec![
                ("run_mode", Ty::adt("RunMode", vec![])),
                ("sizing_mode", Ty::adt("SizingMode", vec![])),
                ("axis", Ty::adt("RequestedAxis", vec![])),
                ("known_dimensions", Ty::adt("Size", vec![of.clone()])),
                ("parent_size", Ty::adt("Size", vec![of.clone()])),
                ("available_space", Ty::adt("Size", vec![Ty::adt("AvailableSpace", vec![])])),
                ("vertical_margins_are_collapsible", Ty::adt("Line", vec![Ty::Bool])),
            ],
        );
        // TaffyVerif/Model/Style.lean: the payload-free style enums (constructor = lower-camel-case variant name)
        en(&mut w, "Display", "Display", false, vec![("Block", vec![]), ("Flex", vec![]), ("Grid", vec![]), ("None", vec![])]);
        en(&mut w, "Position", "Position", false, vec![("Relative", vec![]), ("Absolute", vec![])]);
        en(&mut w, "BoxSizing", "BoxSizing", false, vec![("BorderBox", vec![]), ("ContentBox", vec![])]);
        en(&mut w, "Overflow", "Overflow", false, vec![("Visible", vec![]), ("Clip", vec![]), ("Hidden", vec![]), ("Scroll", vec![])]);
        en(&mut w, "TextAlign", "TextAlign", false, vec![("Auto", vec![]), ("LegacyLeft", vec![]), ("LegacyRight", vec![]), ("LegacyCenter", vec![])]);
        en(&mut w, "FlexDirection", "FlexDirection", false, vec![("Row", vec![]), ("Column", vec![]), ("RowReverse", vec![]), ("ColumnReverse", vec![])]);
        en(&mut w, "FlexWrap", "FlexWrap", false, vec![("NoWrap", vec![]), ("Wrap", vec![]), ("WrapReverse", vec![])]);
        en(
            &mut w,
            "AlignItems",
            "AlignItems",
            false,
            vec![("Start", vec![]), ("End", vec![]), ("FlexStart", vec![]), ("FlexEnd", vec![]), ("Center", vec![]), ("Baseline", vec![]), ("Stretch", vec![])],
        );
        en(
            &mut w,
            "AlignContent",
            "AlignContent",
            false,
            vec![
                ("Start", vec![]),
                ("End", vec![]),
                ("FlexStart", vec![]),
                ("FlexEnd", vec![]),
                ("Center", vec![]),
                ("Stretch", vec![]),
                ("SpaceBetween", vec![]),
                ("SpaceEvenly", vec![]),
                ("SpaceAround", vec![]),
            ],
        );
        // TaffyVerif/Model/GridTypes.lean
        en(&mut w, "GridAutoFlow", "GridPlacement.AutoFlow", false, vec![("Row", vec![]), ("Column", vec![]), ("RowDense", vec![]), ("ColumnDense", vec![])]);
        // `Style` without its grid fields (those live in the Lean field `grid : GridExt α`; see extract/src/style.rs)
        let lpa = || Ty::adt("LengthPercentageAuto", vec![]);
        let lp_ = || Ty::adt("LengthPercentage", vec![]);
        let dim = || Ty::adt("Dimension", vec![]);
        let oai = || Ty::opt(Ty::adt("AlignItems", vec![]));
        let oac = || Ty::opt(Ty::adt("AlignContent", vec![]));
        st(
            &mut w,
            "Style",
            "Style",
            true,
            0,
            vec![
                ("display", Ty::adt("Display", vec![])),
                ("item_is_table", Ty::Bool),
                ("item_is_replaced", Ty::Bool),
                ("box_sizing", Ty::adt("BoxSizing", vec![])),
                ("overflow", Ty::adt("Point", vec![Ty::adt("Overflow", vec![])])),
                ("scrollbar_width", f.clone()),
                ("position", Ty::adt("Position", vec![])),
                ("inset", Ty::adt("Rect", vec![lpa()])),
                ("size", Ty::adt("Size", vec![dim()])),
                ("min_size", Ty::adt("Size", vec![dim()])),
                ("max_size", Ty::adt("Size", vec![dim()])),
                ("aspect_ratio", of.clone()),
                ("margin", Ty::adt("Rect", vec![lpa()])),
                ("padding", Ty::adt("Rect", vec![lp_()])),
                ("border", Ty::adt("Rect", vec![lp_()])),
                ("align_items", oai()),
                ("align_self", oai()),
                ("justify_items", oai()),
                ("justify_self", oai()),
                ("align_content", oac()),
                ("justify_content", oac()),
                ("gap", Ty::adt("Size", vec![lp_()])),
                ("text_align", Ty::adt("TextAlign", vec![])),
                ("flex_direction", Ty::adt("FlexDirection", vec![])),
                ("flex_wrap", Ty::adt("FlexWrap", vec![])),
                ("flex_basis", dim()),
                ("flex_grow", f.clone()),
                ("flex_shrink", f.clone()),
            ],
        );
        // TaffyVerif/Model/GridItem.lean: `AbstractAxis` is `GridModel.Ax` (`inl` = Inline, `blk` = Block)
        en(&mut w, "AbstractAxis", "GridModel.Ax", false, vec![("Inline", vec![]), ("Block", vec![])]);
        if let AdtKind::Enum(vs) = &mut w.adts.last_mut().unwrap().kind {
            vs[0].lean = "inl".into();
            vs[1].lean = "blk".into();
        }
        // TaffyVerif/Model/Cache.lean (types only)
        let size_of = Ty::adt("Size", vec![of.clone()]);
        let size_av = Ty::adt("Size", vec![Ty::adt("AvailableSpace", vec![])]);
        st(&mut w, "CacheEntry", "CacheModel.Entry", true, 1, vec![("known_dimensions", size_of.clone()), ("available_space", size_av.clone()), ("content", p0.clone())]);
        st(
            &mut w,
            "Cache",
            "CacheModel.Cache",
            true,
            0,
            vec![
                ("final_layout_entry", Ty::opt(Ty::adt("CacheEntry", vec![Ty::adt("LayoutOutput", vec![])]))),
                ("measure_entries", Ty::List(Box::new(Ty::opt(Ty::adt("CacheEntry", vec![size_f.clone()]))))),
                ("is_empty", Ty::Bool),
            ],
        );
        // the Lean field for the `is_empty` flag is called `isEmptyFlag` (the observer has the name `isEmpty`)
        if let AdtKind::Struct(fs) = &mut w.adts.last_mut().unwrap().kind {
            fs[2].lean = "isEmptyFlag".into();
        }
        en(&mut w, "ClearState", "CacheModel.ClearState", false, vec![("Cleared", vec![]), ("AlreadyEmpty", vec![])]);
        // TaffyVerif/Model/Style.lean: abstract lengths
        let lp = vec![("LENGTH_TAG".to_string(), "length".to_string(), true), ("PERCENT_TAG".to_string(), "percent".to_string(), true)];
        let mut lpa = lp.clone();
        lpa.push(("AUTO_TAG".to_string(), "auto".to_string(), false));
        w.adts.push(Adt { rust: "LengthPercentage".into(), lean: "LP".into(), alpha: true, nparams: 0, kind: AdtKind::Length(lp) });
        w.adts.push(Adt { rust: "LengthPercentageAuto".into(), lean: "LPA".into(), alpha: true, nparams: 0, kind: AdtKind::Length(lpa.clone()) });
        w.adts.push(Adt { rust: "Dimension".into(), lean: "LPA".into(), alpha: true, nparams: 0, kind: AdtKind::Length(lpa) });
        w
    }
    pub fn adt(&self, name: &str) -> Option<&Adt> {
        self.adts.iter().find(|a| a.rust == name)
    }
    pub fn add_fn(&mut self, head: &str, name: &str, sig: FnSig) {
        self.fns.entry((head.to_string(), name.to_string())).or_default().push(sig);
    }
    pub fn lean_ty(&self, t: &Ty) -> String {
        match t {
            Ty::F32 => "α".into(),
            Ty::Bool => "Bool".into(),
            Ty::Nat => "Nat".into(),
            Ty::Unit => "Unit".into(),
            Ty::Unknown | Ty::Param(_) => "_".into(),
            Ty::Var(v) => v.clone(),
            Ty::Opt(t) => format!("(Option {})", self.lean_ty(t)),
            Ty::List(t) => format!("(List {})", self.lean_ty(t)),
            Ty::Tuple(v) => format!("({})", v.iter().map(|t| self.lean_ty(t)).collect::<Vec<_>>().join(" × ")),
            Ty::Fn(a, r) => format!("({})", a.iter().chain(std::iter::once(&**r)).map(|t| self.lean_ty(t)).collect::<Vec<_>>().join(" → ")),
            Ty::Adt(n, args) => {
                let a = self.adt(n).expect("unknown adt");
                let mut s = a.lean.clone();
                if a.alpha {
                    s.push_str(" α");
                }
                for x in args {
                    s.push(' ');
                    s.push_str(&self.lean_ty(x));
                }
                if a.alpha || !args.is_empty() {
                    format!("({s})")
                } else {
                    s
                }
            }
        }
    }
    pub fn mentions_alpha(&self, t: &Ty) -> bool {
        match t {
            Ty::F32 => true,
            Ty::Opt(t) | Ty::List(t) => self.mentions_alpha(t),
            Ty::Tuple(v) => v.iter().any(|t| self.mentions_alpha(t)),
            Ty::Fn(a, r) => a.iter().any(|t| self.mentions_alpha(t)) || self.mentions_alpha(r),
            Ty::Adt(n, v) => self.adt(n).map(|a| a.alpha).unwrap_or(false) || v.iter().any(|t| self.mentions_alpha(t)),
            _ => false,
        }
    }
}

/// Lean term IR
#[derive(Clone, Debug)]
pub enum L {
    A(String),
    App(String, Vec<L>),
    Let(String, Box<L>, Box<L>),
    If(Box<L>, Box<L>, Box<L>),
    /// scrutinees, arms (one pattern per scrutinee)
    Match(Vec<L>, Vec<(Vec<String>, L)>),
    Fun(Vec<String>, Box<L>),
    With(Box<L>, String, Box<L>),
    Tuple(Vec<L>),
    Bin(String, Box<L>, Box<L>),
    Not(Box<L>),
    Field(Box<L>, String),
}

impl L {
    pub fn a(s: &str) -> L {
        L::A(s.to_string())
    }
    pub fn app(f: &str, args: Vec<L>) -> L {
        L::App(f.to_string(), args)
    }
    fn is_simple(&self) -> bool {
        match self {
            L::A(s) => !s.contains(' ') || s.starts_with('('),
            L::Field(b, _) => b.is_simple(),
            L::Tuple(_) => true,
            L::App(_, a) => a.is_empty(),
            _ => false,
        }
    }
    fn single_line(&self) -> Option<String> {
        let s = self.render(0, true);
        if s.contains('\n') || s.len() > 100 {
            None
        } else {
            Some(s)
        }
    }
    /// argument position: compound terms are parenthesised
    pub fn arg(&self, ind: usize) -> String {
        match self {
            L::App(_, a) if !a.is_empty() => self.render(ind, false),
            L::Bin(..) | L::With(..) | L::Fun(..) | L::Not(_) => self.render(ind, false),
            _ if self.is_simple() => self.render(ind, false),
            _ => format!("({})", self.render(ind + 1, false)),
        }
    }
    /// `top`: statement position (no parentheses needed around let/if/match)
    pub fn render(&self, ind: usize, top: bool) -> String {
        let pad = |n: usize| " ".repeat(n);
        match self {
            L::A(s) => s.clone(),
            L::App(f, args) => {
                if args.is_empty() {
                    return f.clone();
                }
                let mut s = format!("({f}");
                for a in args {
                    s.push(' ');
                    s.push_str(&a.arg(ind + 2));
                }
                s.push(')');
                s
            }
            L::Let(p, v, b) => {
                let body = format!("let {p} := {}\n{}{}", v.render(ind + 2, true), pad(ind), b.render(ind, true));
                if top {
                    body
                } else {
                    format!("({})", format!("let {p} := {}\n{}{}", v.render(ind + 3, true), pad(ind + 1), b.render(ind + 1, true)))
                }
            }
            L::If(c, a, b) => {
                let cs = c.render(ind + 3, true);
                let i = if top { ind } else { ind + 1 };
                let one = match (a.single_line(), b.single_line()) {
                    (Some(x), Some(y)) if x.len() + y.len() + cs.len() < 90 && !matches!(**b, L::If(..)) => Some(format!("if {cs} then {x} else {y}")),
                    _ => None,
                };
                let s = match one {
                    Some(s) => s,
                    None => {
                        let else_part = match &**b {
                            L::If(..) => format!("else {}", b.render(i, true)),
                            _ => format!("else\n{}{}", pad(i + 2), b.render(i + 2, true)),
                        };
                        format!("if {cs} then\n{}{}\n{}{}", pad(i + 2), a.render(i + 2, true), pad(i), else_part)
                    }
                };
                if top {
                    s
                } else {
                    format!("({s})")
                }
            }
            L::Match(sc, arms) => {
                let i = if top { ind } else { ind + 1 };
                // a `match` / `if` / `let` in scrutinee position is parenthesised
                let scs: Vec<String> = sc.iter().map(|s| s.render(i + 6, !matches!(s, L::Match(..) | L::If(..) | L::Let(..)))).collect();
                let mut s = format!("match {} with", scs.join(", "));
                for (ps, body) in arms {
                    s.push_str(&format!("\n{}| {} =>", pad(i), ps.join(", ")));
                    match body.single_line() {
                        Some(b) => {
                            s.push(' ');
                            s.push_str(&b)
                        }
                        None => s.push_str(&format!("\n{}{}", pad(i + 4), body.render(i + 4, true))),
                    }
                }
                if top {
                    s
                } else {
                    format!("({s})")
                }
            }
            L::Fun(ps, b) => {
                let body = b.render(ind + 2, true);
                if body.contains('\n') {
                    format!("(fun {} =>\n{}{})", ps.join(" "), pad(ind + 2), body)
                } else {
                    format!("(fun {} => {})", ps.join(" "), body)
                }
            }
            L::With(b, f, v) => format!("{{ {} with {f} := {} }}", b.render(ind + 2, true), v.render(ind + 4, true)),
            L::Tuple(v) => format!("({})", v.iter().map(|x| x.render(ind + 1, true)).collect::<Vec<_>>().join(", ")),
            L::Bin(op, a, b) => format!("({} {op} {})", a.arg(ind + 1), b.arg(ind + 1)),
            L::Not(a) => format!("(!{})", a.arg(ind + 2)),
            L::Field(b, f) => {
                if b.is_simple() {
                    format!("{}.{f}", b.render(ind, false))
                } else {
                    format!("({}).{f}", b.render(ind + 1, true))
                }
            }
        }
    }
}
