//! C12 site table (DESIGN.md §4.1 "structural facts", §8 C12): every read of the box-sizing-dependent style properties
//! `size() / min_size() / max_size() / flex_basis() / box_sizing()` in the compiled part of `src/compute/**`, and every read
//! of a raw copy of them (`GridItem { size: style.size(), .. }` … `self.size`), as Lean DATA:
//!
//!   file, enclosing function, property, where the value comes from, the normalised chain of method calls / field
//!   accesses the value flows through (in source order), what the whole chain feeds, and — when the chain adds a local
//!   that is bound to `if <x>.box_sizing() == BoxSizing::ContentBox { <padding+border sums> } else { Size::ZERO }` — that
//!   binding, with `let`s inlined.
//!
//! The extractor does NOT classify. It never fails on a read it cannot normalise: such a read is emitted with the parts it
//! does not understand spelled `other …` / `unparsed …`, and the Lean theorem `C12Sites.sites_recognised` fails.
//!
//! Nothing in the table depends on the names of locals, on line numbers, on comments or on how lines are wrapped:
//! receivers and projection arguments are numbered per site in order of first occurrence after `let`-inlining
//! (`Generated/Sites.txt`, not imported by Lean, has the line numbers for people).
use crate::util::{parse_file, CfgEnv};
use proc_macro2::{TokenStream, TokenTree};
use std::collections::{BTreeMap, HashMap};
use syn::spanned::Spanned;
use syn::{Block, Expr, ImplItem, Item, Member, Pat, Stmt, TraitItem};

/// the box-sizing-dependent style getters
const PROPS: [&str; 5] = ["size", "min_size", "max_size", "flex_basis", "box_sizing"];
/// getters whose raw copies are recorded in the copy table (the five above + what the adjustment is made of)
const COPY_GETTERS: [&str; 7] = ["size", "min_size", "max_size", "flex_basis", "box_sizing", "padding", "border"];
/// one-argument methods that project a `Size`/`Rect` to an axis
const PROJ_METHODS: [&str; 4] = ["get", "get_abs", "cross", "main"];
const PROJ_FIELDS: [&str; 2] = ["width", "height"];

// ------------------------------------------------------------------------------------------------------------------
// raw data (before per-site numbering)

#[derive(Clone, Debug, PartialEq)]
enum Src {
    /// `<recv>.getter()`; the receiver as a key (binding id or canonical tokens)
    Method(String, String),
    /// `self.field` inside `impl Struct` (or a receiver whose declared type names `Struct`)
    CopyField(String, String),
    /// `.field` of something the extractor cannot tie to a raw-copy struct: (origin, field)
    FieldOf(String, String),
    Unparsed(String),
}

#[derive(Clone, Debug, PartialEq)]
struct Proj {
    kind: String,
    arg: Option<String>,
}

#[derive(Clone, Debug, PartialEq)]
enum Step {
    Call(String),
    Field(String),
    Proj(Proj),
    AddAdj(Vec<Proj>),
}

#[derive(Clone, Debug, PartialEq)]
enum PB {
    Resolved(Src, String, String),
    Add(Box<PB>, Box<PB>),
    SumAxes(Box<PB>),
    Other(String),
}

#[derive(Clone, Debug, PartialEq)]
struct Adj {
    cond_src: Src,
    cond_op: String,
    cond_rhs: String,
    then_sum: PB,
    els: String,
    projs: Vec<Proj>,
}

#[derive(Clone, Debug, PartialEq)]
enum Ctx {
    LetBind,
    StructField(String, String),
    BlockTail,
    ClosureTail,
    Operand(String),
    Arg(String),
    Cond,
    AdjCond,
    Assign,
    Ret,
    Stmt,
    Other(String),
}

#[derive(Clone, Debug)]
struct Site {
    file: String,
    func: String,
    prop: String,
    source: Src,
    chain: Vec<Step>,
    ctx: Ctx,
    adj: Option<Adj>,
    line: usize,
}

#[derive(Clone, Debug)]
struct Copy {
    file: String,
    func: String,
    strukt: String,
    field: String,
    getter: String,
    recv: String,
    /// identity of the struct literal (so that numbering is per literal)
    literal: usize,
    line: usize,
}

/// struct name -> field name -> getter, for the raw copies found in pass 1
type CopyInfo = BTreeMap<String, BTreeMap<String, String>>;

// ------------------------------------------------------------------------------------------------------------------
// scanning one function

type Env = HashMap<String, usize>;

struct Binding<'a> {
    init: Option<&'a Expr>,
    env: Env,
    mutable: bool,
    origin: String,
}

struct Scan<'a, 'c> {
    cfg: &'c CfgEnv,
    file: String,
    func: String,
    impl_ty: Option<String>,
    copy_info: &'c CopyInfo,
    /// raw-copy structs whose name occurs in this file
    mentioned: Vec<String>,
    debug_macros_off: bool,
    env: Env,
    bindings: Vec<Binding<'a>>,
    pending_adj: Option<(*const Expr, Adj)>,
    literal_counter: usize,
    sites: Vec<Site>,
    copies: Vec<Copy>,
    nested_fns: Vec<&'a syn::ItemFn>,
}

fn toks<T: quote::ToTokens>(t: &T) -> String {
    quote::quote!(#t).to_string().replace(' ', "")
}

fn strip(e: &Expr) -> &Expr {
    match e {
        Expr::Paren(p) => strip(&p.expr),
        Expr::Group(g) => strip(&g.expr),
        Expr::Reference(r) => strip(&r.expr),
        _ => e,
    }
}

fn path_ident(e: &Expr) -> Option<String> {
    if let Expr::Path(p) = e {
        if p.qself.is_none() && p.path.segments.len() == 1 && p.path.segments[0].arguments.is_none() {
            return Some(p.path.segments[0].ident.to_string());
        }
    }
    None
}

fn member_name(m: &Member) -> String {
    match m {
        Member::Named(i) => i.to_string(),
        Member::Unnamed(i) => i.index.to_string(),
    }
}

fn word_in(hay: &str, w: &str) -> bool {
    let b = hay.as_bytes();
    let mut from = 0;
    while let Some(i) = hay[from..].find(w) {
        let s = from + i;
        let e = s + w.len();
        let before = s == 0 || !(b[s - 1].is_ascii_alphanumeric() || b[s - 1] == b'_');
        let after = e >= b.len() || !(b[e].is_ascii_alphanumeric() || b[e] == b'_');
        if before && after {
            return true;
        }
        from = e;
    }
    false
}

impl<'a, 'c> Scan<'a, 'c> {
    // ---- bindings ------------------------------------------------------------------------------------------------
    fn bind(&mut self, name: String, init: Option<&'a Expr>, mutable: bool, origin: String) {
        let id = self.bindings.len();
        self.bindings.push(Binding { init, env: self.env.clone(), mutable, origin });
        self.env.insert(name, id);
    }

    fn bind_pat(&mut self, p: &'a Pat, origin: &str) {
        match p {
            Pat::Ident(i) => {
                self.bind(i.ident.to_string(), None, i.mutability.is_some(), origin.to_string());
                if let Some((_, sub)) = &i.subpat {
                    self.bind_pat(sub, origin);
                }
            }
            Pat::Or(o) => o.cases.iter().for_each(|c| self.bind_pat(c, origin)),
            Pat::Paren(x) => self.bind_pat(&x.pat, origin),
            Pat::Reference(r) => self.bind_pat(&r.pat, origin),
            Pat::Slice(s) => s.elems.iter().for_each(|c| self.bind_pat(c, origin)),
            Pat::Struct(s) => {
                // destructuring a raw-copy struct reads its fields without a field expression: never analysed, always reported
                let name = s.path.segments.last().map(|x| x.ident.to_string()).unwrap_or_default();
                if let Some(fields) = self.copy_info.get(&name) {
                    for f in &s.fields {
                        let fname = member_name(&f.member);
                        if let Some(g) = fields.get(&fname) {
                            if PROPS.contains(&g.as_str()) {
                                let line = f.member.span().start().line;
                                self.record(
                                    g.clone(),
                                    Src::Unparsed(format!("destructuring pattern {name} {{ {fname} }}")),
                                    vec![],
                                    Ctx::Other("pattern".into()),
                                    None,
                                    line,
                                );
                            }
                        }
                    }
                }
                s.fields.iter().for_each(|f| self.bind_pat(&f.pat, origin))
            }
            Pat::Tuple(t) => t.elems.iter().for_each(|c| self.bind_pat(c, origin)),
            Pat::TupleStruct(t) => t.elems.iter().for_each(|c| self.bind_pat(c, origin)),
            Pat::Type(t) => {
                let o = format!("param:{}", toks(&t.ty));
                self.bind_pat(&t.pat, &o)
            }
            _ => {}
        }
    }

    /// `let <pat> = <init>`: a plain identifier keeps its initialiser (for inlining)
    fn bind_local(&mut self, l: &'a syn::Local) {
        let (pat, ty) = match &l.pat {
            Pat::Type(t) => (&*t.pat, Some(toks(&t.ty))),
            p => (p, None),
        };
        if let (Pat::Ident(i), Some(init)) = (pat, &l.init) {
            if i.subpat.is_none() && i.by_ref.is_none() {
                let origin = match ty {
                    Some(t) => format!("param:{t}"),
                    None => format!("let:{}", head_of(&init.expr)),
                };
                self.bind(i.ident.to_string(), Some(&init.expr), i.mutability.is_some(), origin);
                return;
            }
        }
        self.bind_pat(&l.pat, "pat");
    }

    fn lookup<'e>(&self, env: &'e Env, name: &str) -> Option<usize> {
        env.get(name).copied()
    }

    /// follow `let a = b;` aliases and immutable initialisers: the expression a local stands for, with the
    /// environment it must be read in
    fn inline<'e>(&self, e: &'a Expr, env: &Env, depth: usize) -> (&'a Expr, Env) {
        let e = strip(e);
        if depth < 16 {
            if let Some(n) = path_ident(e) {
                if let Some(id) = self.lookup(env, &n) {
                    let b = &self.bindings[id];
                    if let (Some(init), false) = (b.init, b.mutable) {
                        return self.inline(init, &b.env, depth + 1);
                    }
                }
            }
        }
        (e, env.clone())
    }

    /// canonical text of an expression: no spaces, locals replaced by their binding (immutable `let`s inlined)
    fn canon(&self, e: &'a Expr, env: &Env) -> String {
        let (e, env) = self.inline(e, env, 0);
        self.canon_tokens(quote::quote!(#e), &env)
    }

    fn canon_tokens(&self, ts: TokenStream, env: &Env) -> String {
        let mut out = String::new();
        let mut prev_dot = false;
        for t in ts {
            match t {
                TokenTree::Ident(i) => {
                    let n = i.to_string();
                    match (prev_dot, self.lookup(env, &n)) {
                        (false, Some(id)) => {
                            let b = &self.bindings[id];
                            match (b.init, b.mutable) {
                                (Some(init), false) => {
                                    let s = self.canon(init, &b.env.clone());
                                    out.push('(');
                                    out.push_str(&s);
                                    out.push(')');
                                }
                                _ => out.push_str(&format!("#{id}")),
                            }
                        }
                        _ => out.push_str(&n),
                    }
                    prev_dot = false;
                }
                TokenTree::Group(g) => {
                    let (o, c) = match g.delimiter() {
                        proc_macro2::Delimiter::Parenthesis => ("(", ")"),
                        proc_macro2::Delimiter::Brace => ("{", "}"),
                        proc_macro2::Delimiter::Bracket => ("[", "]"),
                        proc_macro2::Delimiter::None => ("", ""),
                    };
                    out.push_str(o);
                    out.push_str(&self.canon_tokens(g.stream(), env));
                    out.push_str(c);
                    prev_dot = false;
                }
                TokenTree::Punct(p) => {
                    out.push(p.as_char());
                    prev_dot = p.as_char() == '.';
                }
                TokenTree::Literal(l) => {
                    out.push_str(&l.to_string());
                    prev_dot = false;
                }
            }
        }
        out
    }

    /// key of a receiver expression: the binding it names (aliases followed), else its canonical text
    fn recv_key(&self, e: &'a Expr, env: &Env) -> String {
        let mut e = strip(e);
        let mut env = env.clone();
        for _ in 0..16 {
            if let Some(n) = path_ident(e) {
                if n == "self" {
                    return "self".into();
                }
                if let Some(id) = self.lookup(&env, &n) {
                    let b = &self.bindings[id];
                    if let (Some(init), false) = (b.init, b.mutable) {
                        if path_ident(strip(init)).is_some() {
                            e = strip(init);
                            env = b.env.clone();
                            continue;
                        }
                    }
                    return format!("b{id}");
                }
            }
            break;
        }
        format!("t:{}", self.canon_tokens(quote::quote!(#e), &env))
    }

    // ---- what a sub-expression reads -----------------------------------------------------------------------------

    /// is `e` (not stripped further) a read of one of `names` — a zero-argument getter call or a field of a raw copy?
    fn read_of(&self, e: &'a Expr, env: &Env, names: &[&str]) -> Option<(String, Src)> {
        match e {
            Expr::MethodCall(m) if m.args.is_empty() && m.turbofish.is_none() => {
                let n = m.method.to_string();
                if names.contains(&n.as_str()) {
                    return Some((n.clone(), Src::Method(self.recv_key(&m.receiver, env), n)));
                }
                None
            }
            Expr::Field(f) => {
                let field = member_name(&f.member);
                // which raw-copy structs mentioned in this file have a field of that name
                let mut cands: Vec<(&String, &String)> = vec![];
                for s in &self.mentioned {
                    if let Some(g) = self.copy_info.get(s).and_then(|m| m.get(&field)) {
                        if names.contains(&g.as_str()) {
                            cands.push((s, g));
                        }
                    }
                }
                if cands.is_empty() {
                    return None;
                }
                let base = strip(&f.base);
                if let Some(n) = path_ident(base) {
                    if n == "self" {
                        let it = self.impl_ty.clone().unwrap_or_default();
                        return match cands.iter().find(|(s, _)| **s == it) {
                            Some((s, g)) => Some(((*g).clone(), Src::CopyField((*s).clone(), field))),
                            // `self` of another type: its fields are not the copy
                            None => None,
                        };
                    }
                    if let Some(id) = self.lookup(env, &n) {
                        let origin = &self.bindings[id].origin;
                        if let Some(ty) = origin.strip_prefix("param:") {
                            return match cands.iter().find(|(s, _)| word_in(ty, s)) {
                                Some((s, g)) => Some(((*g).clone(), Src::CopyField((*s).clone(), field))),
                                None => Some((cands[0].1.clone(), Src::FieldOf(origin.clone(), field))),
                            };
                        }
                        return Some((cands[0].1.clone(), Src::FieldOf(origin.clone(), field)));
                    }
                    return Some((cands[0].1.clone(), Src::FieldOf("free".into(), field)));
                }
                Some((cands[0].1.clone(), Src::FieldOf(format!("expr:{}", head_of(base)), field)))
            }
            _ => None,
        }
    }

    fn proj_of(&self, e: &'a Expr, env: &Env) -> Option<(Proj, &'a Expr)> {
        match e {
            Expr::MethodCall(m) if m.args.len() == 1 && PROJ_METHODS.contains(&m.method.to_string().as_str()) => {
                Some((Proj { kind: m.method.to_string(), arg: Some(self.canon(&m.args[0], env)) }, &m.receiver))
            }
            Expr::Field(f) if PROJ_FIELDS.contains(&member_name(&f.member).as_str()) => {
                Some((Proj { kind: member_name(&f.member), arg: None }, &f.base))
            }
            _ => None,
        }
    }

    // ---- the adjustment binding ----------------------------------------------------------------------------------

    fn binding_init(&self, env: &Env, name: &str) -> Option<(&'a Expr, Env, bool, String)> {
        let id = self.lookup(env, name)?;
        let b = &self.bindings[id];
        Some((b.init?, b.env.clone(), b.mutable, b.origin.clone()))
    }

    /// `e` = `<local>[.proj]*` where the local is bound to `if <x>.box_sizing() <op> <rhs> { .. } else { .. }[.proj]*`
    fn adj_ref(&mut self, e: &'a Expr, env: &Env, depth: usize) -> Option<(Adj, Vec<Proj>)> {
        if depth > 8 {
            return None;
        }
        let mut projs_rev = vec![];
        let mut cur = strip(e);
        while let Some((p, base)) = self.proj_of(cur, env) {
            projs_rev.push(p);
            cur = strip(base);
        }
        projs_rev.reverse();
        match cur {
            Expr::If(i) => {
                let mut a = self.adj_of_if(i, env)?;
                // projections written on the `if` itself belong to the binding
                a.projs.extend(projs_rev);
                Some((a, vec![]))
            }
            _ => {
                let n = path_ident(cur)?;
                let (init, benv, mutable, _) = self.binding_init(env, &n)?;
                if mutable {
                    return None;
                }
                let (a, mut inner) = self.adj_ref(init, &benv, depth + 1)?;
                inner.extend(projs_rev);
                Some((a, inner))
            }
        }
    }

    fn adj_of_if(&mut self, i: &'a syn::ExprIf, env: &Env) -> Option<Adj> {
        let Expr::Binary(b) = strip(&i.cond) else { return None };
        let (prop, cond_src) = self.read_of(strip(&b.left), env, &["box_sizing"])?;
        if prop != "box_sizing" {
            return None;
        }
        let then_sum = self.pb_block(&i.then_branch, env);
        let els = match &i.else_branch {
            Some((_, e)) => match &**e {
                Expr::Block(bl) if bl.block.stmts.len() == 1 => match &bl.block.stmts[0] {
                    Stmt::Expr(x, None) => toks(x),
                    s => toks(s),
                },
                e => toks(e),
            },
            None => "<none>".into(),
        };
        Some(Adj { cond_src, cond_op: toks(&b.op), cond_rhs: toks(&b.right), then_sum, els, projs: vec![] })
    }

    /// a block `{ let a = ..; let b = ..; tail }` as a padding/border sum (its `let`s are bound in a scratch environment)
    fn pb_block(&mut self, b: &'a Block, env: &Env) -> PB {
        let saved = std::mem::replace(&mut self.env, env.clone());
        let n = b.stmts.len();
        let mut out = PB::Other("block without a tail expression".into());
        for (k, s) in b.stmts.iter().enumerate() {
            match s {
                Stmt::Local(l) => self.bind_local(l),
                Stmt::Expr(e, None) if k + 1 == n => {
                    let env2 = self.env.clone();
                    out = self.pb(e, &env2, 0);
                }
                _ => {
                    out = PB::Other("block with a statement".into());
                    break;
                }
            }
        }
        self.env = saved;
        out
    }

    fn pb(&mut self, e: &'a Expr, env: &Env, depth: usize) -> PB {
        if depth > 24 {
            return PB::Other("too deep".into());
        }
        let e = strip(e);
        match e {
            Expr::Path(_) => {
                let Some(n) = path_ident(e) else { return PB::Other(format!("path {}", toks(e))) };
                match self.lookup(env, &n) {
                    Some(id) => {
                        let (init, benv, mutable, origin) = {
                            let b = &self.bindings[id];
                            (b.init, b.env.clone(), b.mutable, b.origin.clone())
                        };
                        match (init, mutable) {
                            (_, true) => PB::Other("mutable local".into()),
                            (Some(init), false) => self.pb(init, &benv, depth + 1),
                            _ => PB::Other(format!("local ({origin})")),
                        }
                    }
                    None => PB::Other(format!("free {n}")),
                }
            }
            Expr::Binary(b) => match b.op {
                syn::BinOp::Add(_) => {
                    let l = self.pb(&b.left, env, depth + 1);
                    let r = self.pb(&b.right, env, depth + 1);
                    PB::Add(Box::new(l), Box::new(r))
                }
                _ => PB::Other(format!("operator {}", toks(&b.op))),
            },
            Expr::Block(bl) => self.pb_block(&bl.block, env),
            Expr::MethodCall(m) => {
                let name = m.method.to_string();
                if name == "sum_axes" && m.args.is_empty() {
                    return PB::SumAxes(Box::new(self.pb(&m.receiver, env, depth + 1)));
                }
                if name == "resolve_or_zero" && !m.args.is_empty() {
                    if let Some(src) = self.getter_src(&m.receiver, env) {
                        return PB::Resolved(src, "resolve_or_zero".into(), self.canon(&m.args[0], env));
                    }
                }
                if name == "map" && m.args.len() == 1 {
                    if let (Some(src), Expr::Closure(c)) = (self.getter_src(&m.receiver, env), strip(&m.args[0])) {
                        if c.inputs.len() == 1 {
                            if let (Pat::Ident(p), Expr::MethodCall(inner)) = (&c.inputs[0], strip(&c.body)) {
                                if inner.method == "resolve_or_zero"
                                    && !inner.args.is_empty()
                                    && path_ident(strip(&inner.receiver)) == Some(p.ident.to_string())
                                {
                                    return PB::Resolved(src, "map.resolve_or_zero".into(), self.canon(&inner.args[0], env));
                                }
                            }
                        }
                    }
                }
                PB::Other(format!("call {name}"))
            }
            _ => PB::Other(format!("expression {}", head_of(e))),
        }
    }

    /// `<recv>.padding()` / `self.padding` (after inlining locals)
    fn getter_src(&self, e: &'a Expr, env: &Env) -> Option<Src> {
        let (e1, env1) = self.inline(e, env, 0);
        match e1 {
            Expr::MethodCall(m) if m.args.is_empty() => {
                Some(Src::Method(self.recv_key(&m.receiver, &env1), m.method.to_string()))
            }
            Expr::Field(_) => self.read_of(e1, &env1, &COPY_GETTERS).map(|(_, s)| s),
            _ => None,
        }
    }

    // ---- walking -------------------------------------------------------------------------------------------------

    fn walk_block(&mut self, b: &'a Block, tail: Ctx) {
        let saved = self.env.clone();
        let n = b.stmts.len();
        for (k, s) in b.stmts.iter().enumerate() {
            match s {
                Stmt::Local(l) => {
                    if !self.cfg.enabled(&l.attrs).unwrap_or(true) {
                        continue;
                    }
                    if let Some(init) = &l.init {
                        self.walk_expr(&init.expr, Ctx::LetBind);
                        if let Some((_, d)) = &init.diverge {
                            self.walk_expr(d, Ctx::Other("let-else".into()));
                        }
                    }
                    self.bind_local(l);
                }
                Stmt::Item(Item::Fn(f)) => {
                    if self.cfg.enabled(&f.attrs).unwrap_or(true) {
                        self.nested_fns.push(f);
                    }
                }
                Stmt::Item(_) => {}
                Stmt::Expr(e, semi) => {
                    let ctx = if k + 1 == n && semi.is_none() { tail.clone() } else { Ctx::Stmt };
                    self.walk_expr(e, ctx);
                }
                Stmt::Macro(m) => self.walk_macro(&m.mac, Ctx::Stmt),
            }
        }
        self.env = saved;
    }

    fn record(&mut self, prop: String, source: Src, chain: Vec<Step>, ctx: Ctx, adj: Option<Adj>, line: usize) {
        self.sites.push(Site { file: self.file.clone(), func: self.func.clone(), prop, source, chain, ctx, adj, line });
    }

    /// if `e` is the top of a chain whose innermost receiver is a read: record it and walk the arguments
    fn try_chain(&mut self, e: &'a Expr, ctx: &Ctx) -> bool {
        // peel links from the top
        let mut links: Vec<&'a Expr> = vec![];
        let mut cur = e;
        let env = self.env.clone();
        let found = loop {
            if let Some(r) = self.read_of(cur, &env, &PROPS) {
                break Some((r, cur));
            }
            match cur {
                Expr::MethodCall(m) => {
                    links.push(cur);
                    cur = &m.receiver;
                }
                Expr::Field(f) => {
                    links.push(cur);
                    cur = &f.base;
                }
                Expr::Paren(p) => cur = &p.expr,
                Expr::Group(g) => cur = &g.expr,
                Expr::Reference(r) => cur = &r.expr,
                _ => break None,
            }
        };
        let Some(((prop, source), read)) = found else { return false };
        links.reverse();
        let mut chain = vec![];
        let mut adj: Option<Adj> = None;
        for l in &links {
            if let Some((p, _)) = self.proj_of(l, &env) {
                chain.push(Step::Proj(p));
                continue;
            }
            match l {
                Expr::MethodCall(m) => {
                    let name = m.method.to_string();
                    if name == "maybe_add" && m.args.len() == 1 {
                        if let Some((a, projs)) = self.adj_ref(&m.args[0], &env, 0) {
                            match &adj {
                                None => {
                                    adj = Some(a);
                                    chain.push(Step::AddAdj(projs));
                                }
                                Some(prev) if *prev == a => chain.push(Step::AddAdj(projs)),
                                Some(_) => chain.push(Step::Call("maybe_add<a second adjustment binding>".into())),
                            }
                            continue;
                        }
                    }
                    chain.push(Step::Call(name));
                }
                Expr::Field(f) => chain.push(Step::Field(member_name(&f.member))),
                _ => {}
            }
        }
        let mut ctx = ctx.clone();
        if let Some((p, a)) = &self.pending_adj {
            if std::ptr::eq(*p, strip(e) as *const Expr) && prop == "box_sizing" {
                ctx = Ctx::AdjCond;
                adj = Some(a.clone());
            }
        }
        let line = match read {
            Expr::MethodCall(m) => m.method.span().start().line,
            Expr::Field(f) => f.member.span().start().line,
            x => x.span().start().line,
        };
        self.record(prop, source, chain, ctx, adj, line);
        // the rest of the expression: arguments of the links, and the receiver of the read
        for l in links {
            if let Expr::MethodCall(m) = l {
                let callee = m.method.to_string();
                for a in &m.args {
                    self.walk_expr(a, Ctx::Arg(callee.clone()));
                }
            }
        }
        match read {
            Expr::MethodCall(m) => self.walk_expr(&m.receiver, Ctx::Other("receiver".into())),
            Expr::Field(f) => self.walk_expr(&f.base, Ctx::Other("receiver".into())),
            _ => {}
        }
        true
    }

    fn walk_expr(&mut self, e: &'a Expr, ctx: Ctx) {
        if self.try_chain(e, &ctx) {
            return;
        }
        let other = |s: &str| Ctx::Other(s.to_string());
        match e {
            Expr::Array(a) => a.elems.iter().for_each(|x| self.walk_expr(x, other("element"))),
            Expr::Assign(a) => {
                self.walk_expr(&a.left, other("assignee"));
                self.walk_expr(&a.right, Ctx::Assign);
            }
            Expr::Async(a) => self.walk_block(&a.block, Ctx::BlockTail),
            Expr::Await(a) => self.walk_expr(&a.base, other("await")),
            Expr::Binary(b) => {
                let op = toks(&b.op);
                self.walk_expr(&b.left, Ctx::Operand(op.clone()));
                self.walk_expr(&b.right, Ctx::Operand(op));
            }
            Expr::Block(b) => self.walk_block(&b.block, if matches!(ctx, Ctx::ClosureTail) { Ctx::ClosureTail } else { Ctx::BlockTail }),
            Expr::Break(b) => {
                if let Some(x) = &b.expr {
                    self.walk_expr(x, other("break"))
                }
            }
            Expr::Call(c) => {
                self.walk_expr(&c.func, other("callee"));
                let name = match &*c.func {
                    Expr::Path(p) => p.path.segments.last().map(|s| s.ident.to_string()).unwrap_or_default(),
                    _ => "<expr>".into(),
                };
                for a in &c.args {
                    self.walk_expr(a, Ctx::Arg(name.clone()));
                }
            }
            Expr::Cast(c) => self.walk_expr(&c.expr, other("cast")),
            Expr::Closure(c) => {
                let saved = self.env.clone();
                for p in &c.inputs {
                    self.bind_pat(p, "pat");
                }
                self.walk_expr(&c.body, Ctx::ClosureTail);
                self.env = saved;
            }
            Expr::Const(c) => self.walk_block(&c.block, Ctx::BlockTail),
            Expr::Field(f) => self.walk_expr(&f.base, other("receiver")),
            Expr::ForLoop(f) => {
                self.walk_expr(&f.expr, other("iterator"));
                let saved = self.env.clone();
                self.bind_pat(&f.pat, "pat");
                self.walk_block(&f.body, Ctx::Stmt);
                self.env = saved;
            }
            Expr::Group(g) => self.walk_expr(&g.expr, ctx),
            Expr::If(i) => {
                let saved = self.env.clone();
                let prev = self.pending_adj.take();
                if let Expr::Binary(b) = strip(&i.cond) {
                    if let Some(a) = self.adj_of_if(i, &saved) {
                        self.pending_adj = Some((strip(&b.left) as *const Expr, a));
                    }
                }
                self.walk_expr(&i.cond, Ctx::Cond);
                self.pending_adj = prev;
                self.walk_block(&i.then_branch, Ctx::BlockTail);
                self.env = saved;
                if let Some((_, e)) = &i.else_branch {
                    self.walk_expr(e, Ctx::BlockTail);
                }
            }
            Expr::Index(i) => {
                self.walk_expr(&i.expr, other("indexed"));
                self.walk_expr(&i.index, other("index"));
            }
            Expr::Let(l) => {
                self.walk_expr(&l.expr, other("scrutinee"));
                self.bind_pat(&l.pat, "pat");
            }
            Expr::Loop(l) => self.walk_block(&l.body, Ctx::Stmt),
            Expr::Macro(m) => self.walk_macro(&m.mac, ctx),
            Expr::Match(m) => {
                self.walk_expr(&m.expr, other("scrutinee"));
                for arm in &m.arms {
                    if !self.cfg.enabled(&arm.attrs).unwrap_or(true) {
                        continue;
                    }
                    let saved = self.env.clone();
                    self.bind_pat(&arm.pat, "pat");
                    if let Some((_, g)) = &arm.guard {
                        self.walk_expr(g, Ctx::Cond);
                    }
                    self.walk_expr(&arm.body, Ctx::BlockTail);
                    self.env = saved;
                }
            }
            Expr::MethodCall(m) => {
                self.walk_expr(&m.receiver, other("receiver"));
                let callee = m.method.to_string();
                for a in &m.args {
                    self.walk_expr(a, Ctx::Arg(callee.clone()));
                }
            }
            Expr::Paren(p) => self.walk_expr(&p.expr, ctx),
            Expr::Range(r) => {
                if let Some(x) = &r.start {
                    self.walk_expr(x, other("range"));
                }
                if let Some(x) = &r.end {
                    self.walk_expr(x, other("range"));
                }
            }
            Expr::RawAddr(r) => self.walk_expr(&r.expr, other("address")),
            Expr::Reference(r) => self.walk_expr(&r.expr, ctx),
            Expr::Repeat(r) => {
                self.walk_expr(&r.expr, other("element"));
                self.walk_expr(&r.len, other("length"));
            }
            Expr::Return(r) => {
                if let Some(x) = &r.expr {
                    self.walk_expr(x, Ctx::Ret)
                }
            }
            Expr::Struct(s) => {
                let name = s.path.segments.last().map(|x| x.ident.to_string()).unwrap_or_default();
                self.literal_counter += 1;
                let literal = self.literal_counter;
                for f in &s.fields {
                    if !self.cfg.enabled(&f.attrs).unwrap_or(true) {
                        continue;
                    }
                    let field = member_name(&f.member);
                    // a raw copy: the whole initialiser is a bare getter call
                    let env = self.env.clone();
                    if let Some((getter, Src::Method(recv, _))) = self.read_of(strip(&f.expr), &env, &COPY_GETTERS) {
                        self.copies.push(Copy {
                            file: self.file.clone(),
                            func: self.func.clone(),
                            strukt: name.clone(),
                            field: field.clone(),
                            getter,
                            recv,
                            literal,
                            line: f.member.span().start().line,
                        });
                    }
                    self.walk_expr(&f.expr, Ctx::StructField(name.clone(), field));
                }
                if let Some(r) = &s.rest {
                    self.walk_expr(r, other("struct-rest"));
                }
            }
            Expr::Try(t) => self.walk_expr(&t.expr, other("try")),
            Expr::TryBlock(t) => self.walk_block(&t.block, Ctx::BlockTail),
            Expr::Tuple(t) => t.elems.iter().for_each(|x| self.walk_expr(x, other("element"))),
            Expr::Unary(u) => self.walk_expr(&u.expr, Ctx::Operand(toks(&u.op))),
            Expr::Unsafe(u) => self.walk_block(&u.block, Ctx::BlockTail),
            Expr::While(w) => {
                let saved = self.env.clone();
                self.walk_expr(&w.cond, Ctx::Cond);
                self.walk_block(&w.body, Ctx::Stmt);
                self.env = saved;
            }
            Expr::Yield(y) => {
                if let Some(x) = &y.expr {
                    self.walk_expr(x, other("yield"))
                }
            }
            Expr::Verbatim(ts) => self.scan_tokens(ts.clone(), "verbatim expression"),
            _ => {}
        }
    }

    fn walk_macro(&mut self, mac: &'a syn::Macro, _ctx: Ctx) {
        let name = mac.path.segments.last().map(|s| s.ident.to_string()).unwrap_or_default();
        if self.debug_macros_off && name.starts_with("debug_") {
            // compiled out without the `debug` feature (checked against src/util/debug.rs by `debug_macros_compiled_out`)
            return;
        }
        // the macro's arguments cannot be walked as borrowed syntax (they are parsed here, not owned by the file):
        // parse them as comma-separated expressions only to scan them; any read found inside a macro is reported
        // as unparsed, whatever it is, so that a read can never hide in one
        self.scan_tokens(mac.tokens.clone(), &format!("inside {name}!"));
    }

    /// token-level fallback: `. <prop> (` / `. <prop>` occurrences in something that is not walked as syntax
    fn scan_tokens(&mut self, ts: TokenStream, what: &str) {
        let v: Vec<TokenTree> = ts.into_iter().collect();
        for (i, t) in v.iter().enumerate() {
            match t {
                TokenTree::Group(g) => self.scan_tokens(g.stream(), what),
                TokenTree::Ident(id) => {
                    let n = id.to_string();
                    let after_dot = i > 0 && matches!(&v[i - 1], TokenTree::Punct(p) if p.as_char() == '.');
                    let is_call = matches!(v.get(i + 1), Some(TokenTree::Group(g)) if g.delimiter() == proc_macro2::Delimiter::Parenthesis && g.stream().is_empty());
                    let next_is_group = matches!(v.get(i + 1), Some(TokenTree::Group(g)) if g.delimiter() == proc_macro2::Delimiter::Parenthesis);
                    let copy_field = !next_is_group
                        && self.mentioned.iter().any(|s| {
                            self.copy_info.get(s).and_then(|m| m.get(&n)).map(|g| PROPS.contains(&g.as_str())).unwrap_or(false)
                        });
                    if after_dot && ((is_call && PROPS.contains(&n.as_str())) || copy_field) {
                        let line = id.span().start().line;
                        self.record(n, Src::Unparsed(what.to_string()), vec![], Ctx::Other("unparsed".into()), None, line);
                    }
                }
                _ => {}
            }
        }
    }
}

/// the callee an expression ends in (for the origin of a `let`): rename-proof description of where a local comes from
fn head_of(e: &Expr) -> String {
    match strip(e) {
        Expr::MethodCall(m) => m.method.to_string(),
        Expr::Call(c) => match &*c.func {
            Expr::Path(p) => p.path.segments.last().map(|s| s.ident.to_string()).unwrap_or_default(),
            _ => "call".into(),
        },
        Expr::Struct(s) => format!("struct {}", s.path.segments.last().map(|x| x.ident.to_string()).unwrap_or_default()),
        Expr::Try(t) => head_of(&t.expr),
        Expr::Field(f) => format!("field {}", member_name(&f.member)),
        Expr::Path(_) => "path".into(),
        Expr::If(_) => "if".into(),
        Expr::Match(_) => "match".into(),
        Expr::Block(_) => "block".into(),
        Expr::Closure(_) => "closure".into(),
        Expr::Lit(_) => "literal".into(),
        Expr::Binary(_) => "operator".into(),
        _ => "expression".into(),
    }
}

// ------------------------------------------------------------------------------------------------------------------
// files and functions

struct Unit {
    rel: String,
    text: String,
    items: Vec<Item>,
}

/// the compiled module tree below `src/compute/mod.rs` (a `mod x;` that is cfg'd out is not followed)
fn load_modules(repo: &str, cfg: &CfgEnv, rel_file: &str, units: &mut Vec<Unit>, notes: &mut Vec<String>) -> Result<(), String> {
    let path = format!("{repo}/{rel_file}");
    let text = std::fs::read_to_string(&path).map_err(|e| format!("{path}: {e}"))?;
    let file = parse_file(&path)?;
    let dir = if rel_file.ends_with("/mod.rs") {
        rel_file.trim_end_matches("/mod.rs").to_string()
    } else {
        rel_file.trim_end_matches(".rs").to_string()
    };
    let mut children = vec![];
    for it in &file.items {
        if let Item::Mod(m) = it {
            if m.content.is_none() {
                let name = m.ident.to_string();
                match cfg.enabled(&m.attrs) {
                    Ok(false) => {
                        notes.push(format!("module {dir}/{name} is not compiled in the default build: not scanned"));
                        continue;
                    }
                    Ok(true) => {}
                    Err(e) => notes.push(format!("module {dir}/{name}: {e}: scanned")),
                }
                let a = format!("{dir}/{name}.rs");
                let b = format!("{dir}/{name}/mod.rs");
                if std::path::Path::new(&format!("{repo}/{a}")).exists() {
                    children.push(a);
                } else if std::path::Path::new(&format!("{repo}/{b}")).exists() {
                    children.push(b);
                } else {
                    return Err(format!("module {name} declared in {rel_file} not found"));
                }
            }
        }
    }
    units.push(Unit { rel: rel_file.to_string(), text, items: file.items });
    for c in children {
        load_modules(repo, cfg, &c, units, notes)?;
    }
    Ok(())
}

struct FnItem<'a> {
    name: String,
    impl_ty: Option<String>,
    sig: &'a syn::Signature,
    block: &'a Block,
}

fn collect_fns<'a>(items: &'a [Item], cfg: &CfgEnv, prefix: &str, out: &mut Vec<FnItem<'a>>) {
    for it in items {
        match it {
            Item::Fn(f) if cfg.enabled(&f.attrs).unwrap_or(true) => {
                out.push(FnItem { name: format!("{prefix}{}", f.sig.ident), impl_ty: None, sig: &f.sig, block: &f.block });
            }
            Item::Impl(im) if cfg.enabled(&im.attrs).unwrap_or(true) => {
                let ty = match &*im.self_ty {
                    syn::Type::Path(p) => p.path.segments.last().map(|s| s.ident.to_string()).unwrap_or_default(),
                    t => toks(t),
                };
                for ii in &im.items {
                    if let ImplItem::Fn(f) = ii {
                        if cfg.enabled(&f.attrs).unwrap_or(true) {
                            out.push(FnItem {
                                name: format!("{prefix}{ty}::{}", f.sig.ident),
                                impl_ty: Some(ty.clone()),
                                sig: &f.sig,
                                block: &f.block,
                            });
                        }
                    }
                }
            }
            Item::Trait(t) if cfg.enabled(&t.attrs).unwrap_or(true) => {
                for ti in &t.items {
                    if let TraitItem::Fn(f) = ti {
                        if let (Some(b), true) = (&f.default, cfg.enabled(&f.attrs).unwrap_or(true)) {
                            out.push(FnItem {
                                name: format!("{prefix}{}::{}", t.ident, f.sig.ident),
                                impl_ty: Some(t.ident.to_string()),
                                sig: &f.sig,
                                block: b,
                            });
                        }
                    }
                }
            }
            Item::Mod(m) if cfg.enabled(&m.attrs).unwrap_or(true) => {
                if let Some((_, items)) = &m.content {
                    collect_fns(items, cfg, &format!("{prefix}{}::", m.ident), out);
                }
            }
            _ => {}
        }
    }
}

fn scan_fn<'a>(
    cfg: &CfgEnv,
    unit: &'a Unit,
    f: &FnItem<'a>,
    copy_info: &CopyInfo,
    debug_off: bool,
    literal_counter: &mut usize,
    sites: &mut Vec<Site>,
    copies: &mut Vec<Copy>,
) {
    let mentioned: Vec<String> = copy_info.keys().filter(|s| word_in(&unit.text, s)).cloned().collect();
    let mut nested: Vec<(String, &'a syn::ItemFn)> = vec![];
    {
        let mut sc = Scan {
            cfg,
            file: unit.rel.clone(),
            func: f.name.clone(),
            impl_ty: f.impl_ty.clone(),
            copy_info,
            mentioned,
            debug_macros_off: debug_off,
            env: Env::new(),
            bindings: vec![],
            pending_adj: None,
            literal_counter: *literal_counter,
            sites: vec![],
            copies: vec![],
            nested_fns: vec![],
        };
        for a in f.sig.inputs.iter() {
            if let syn::FnArg::Typed(t) = a {
                let origin = format!("param:{}", toks(&t.ty));
                sc.bind_pat(&t.pat, &origin);
            }
        }
        sc.walk_block(f.block, Ctx::BlockTail);
        for n in sc.nested_fns.drain(..) {
            nested.push((format!("{}::{}", f.name, n.sig.ident), n));
        }
        *literal_counter = sc.literal_counter;
        sites.append(&mut sc.sites);
        copies.append(&mut sc.copies);
    }
    for (name, n) in nested {
        let fi = FnItem { name, impl_ty: f.impl_ty.clone(), sig: &n.sig, block: &n.block };
        scan_fn(cfg, unit, &fi, copy_info, debug_off, literal_counter, sites, copies);
    }
}

/// `debug_log!` & co. expand to nothing unless the `debug` feature is on: every statement of every arm of the macros in
/// src/util/debug.rs whose name starts with `debug_` must be under a `#[cfg(..)]` that is false in the default build, or be
/// another `debug_*!` call
fn debug_macros_compiled_out(repo: &str) -> bool {
    let Ok(file) = parse_file(&format!("{repo}/src/util/debug.rs")) else { return false };
    let mut seen = false;
    for it in &file.items {
        if let Item::Macro(m) = it {
            let Some(id) = &m.ident else { continue };
            if !id.to_string().starts_with("debug_") {
                continue;
            }
            seen = true;
            let cfg_on = match CfgEnv::default_build().enabled(&m.attrs) {
                Ok(b) => b,
                Err(_) => true,
            };
            if !cfg_on {
                continue;
            }
            // arms: `( pattern ) => {{ body }} ;`
            let v: Vec<TokenTree> = m.mac.tokens.clone().into_iter().collect();
            let mut i = 0;
            while i < v.len() {
                // find `=>` then the body group
                if let TokenTree::Punct(p) = &v[i] {
                    if p.as_char() == '=' {
                        if let (Some(TokenTree::Punct(q)), Some(TokenTree::Group(g))) = (v.get(i + 1), v.get(i + 2)) {
                            if q.as_char() == '>' {
                                let mut body = g.stream();
                                // `{{ .. }}`
                                loop {
                                    let inner: Vec<TokenTree> = body.clone().into_iter().collect();
                                    match inner.as_slice() {
                                        [TokenTree::Group(g2)] if g2.delimiter() == proc_macro2::Delimiter::Brace => body = g2.stream(),
                                        _ => break,
                                    }
                                }
                                if !body_is_debug_only(body) {
                                    return false;
                                }
                                i += 3;
                                continue;
                            }
                        }
                    }
                }
                i += 1;
            }
        }
    }
    seen
}

/// statements separated by `;`: each is `#[cfg(feature = "debug")] …` or `debug_…!(…)` or empty
fn body_is_debug_only(body: TokenStream) -> bool {
    let mut stmt: Vec<TokenTree> = vec![];
    let mut all: Vec<Vec<TokenTree>> = vec![];
    for t in body {
        match &t {
            TokenTree::Punct(p) if p.as_char() == ';' => {
                all.push(std::mem::take(&mut stmt));
            }
            _ => stmt.push(t),
        }
    }
    if !stmt.is_empty() {
        all.push(stmt);
    }
    for s in all {
        if s.is_empty() {
            continue;
        }
        let text: String = s.iter().map(|t| t.to_string()).collect::<Vec<_>>().join("").replace(' ', "");
        if text.starts_with("debug_") {
            continue;
        }
        // leading `#[cfg(..)]` attributes, evaluated in the default build
        let mut attrs = TokenStream::new();
        let mut k = 0;
        while k + 1 < s.len() {
            match (&s[k], &s[k + 1]) {
                (TokenTree::Punct(p), TokenTree::Group(g)) if p.as_char() == '#' && g.delimiter() == proc_macro2::Delimiter::Bracket => {
                    attrs.extend([s[k].clone(), s[k + 1].clone()]);
                    k += 2;
                }
                _ => break,
            }
        }
        let parsed = syn::parse::Parser::parse2(syn::Attribute::parse_outer, attrs);
        match parsed {
            Ok(a) if !a.is_empty() => {
                if let Ok(false) = CfgEnv::default_build().enabled(&a) {
                    continue;
                }
                return false;
            }
            _ => return false,
        }
    }
    true
}

// ------------------------------------------------------------------------------------------------------------------
// emission

fn lstr(s: &str) -> String {
    let mut o = String::from("\"");
    for c in s.chars() {
        match c {
            '"' => o.push_str("\\\""),
            '\\' => o.push_str("\\\\"),
            '\n' => o.push_str("\\n"),
            c => o.push(c),
        }
    }
    o.push('"');
    o
}

/// per-site numbering of receivers and of projection arguments / resolution bases, in order of first occurrence
struct Numbering {
    recvs: Vec<String>,
    args: Vec<String>,
}
impl Numbering {
    fn recv(&mut self, k: &str) -> usize {
        if let Some(i) = self.recvs.iter().position(|x| x == k) {
            return i;
        }
        self.recvs.push(k.to_string());
        self.recvs.len() - 1
    }
    fn arg(&mut self, k: &str) -> usize {
        if let Some(i) = self.args.iter().position(|x| x == k) {
            return i;
        }
        self.args.push(k.to_string());
        self.args.len() - 1
    }
    fn src(&mut self, s: &Src) -> String {
        match s {
            Src::Method(r, g) => format!(".method {} {}", self.recv(r), lstr(g)),
            Src::CopyField(s, f) => format!(".copyField {} {}", lstr(s), lstr(f)),
            Src::FieldOf(o, f) => format!(".fieldOf {} {}", lstr(o), lstr(f)),
            Src::Unparsed(w) => format!(".unparsed {}", lstr(w)),
        }
    }
    fn proj(&mut self, p: &Proj) -> String {
        match &p.arg {
            Some(a) => format!("⟨{}, some {}⟩", lstr(&p.kind), self.arg(a)),
            None => format!("⟨{}, none⟩", lstr(&p.kind)),
        }
    }
    fn projs(&mut self, ps: &[Proj]) -> String {
        format!("[{}]", ps.iter().map(|p| self.proj(p)).collect::<Vec<_>>().join(", "))
    }
    fn step(&mut self, s: &Step) -> String {
        match s {
            Step::Call(n) => format!(".call {}", lstr(n)),
            Step::Field(n) => format!(".field {}", lstr(n)),
            Step::Proj(p) => format!(".proj {}", self.proj(p)),
            Step::AddAdj(ps) => format!(".addAdj {}", self.projs(ps)),
        }
    }
    fn pb(&mut self, p: &PB) -> String {
        match p {
            PB::Resolved(s, via, basis) => {
                let s = self.src(s);
                format!("(.resolved ({s}) {} {})", lstr(via), self.arg(&format!("basis:{basis}")))
            }
            PB::Add(a, b) => {
                let a = self.pb(a);
                let b = self.pb(b);
                format!("(.add {a} {b})")
            }
            PB::SumAxes(a) => format!("(.sumAxes {})", self.pb(a)),
            PB::Other(w) => format!("(.other {})", lstr(w)),
        }
    }
}

fn ctx_lean(c: &Ctx) -> String {
    match c {
        Ctx::LetBind => ".letBind".into(),
        Ctx::StructField(s, f) => format!(".structField {} {}", lstr(s), lstr(f)),
        Ctx::BlockTail => ".blockTail".into(),
        Ctx::ClosureTail => ".closureTail".into(),
        Ctx::Operand(o) => format!(".operand {}", lstr(o)),
        Ctx::Arg(a) => format!(".arg {}", lstr(a)),
        Ctx::Cond => ".cond".into(),
        Ctx::AdjCond => ".adjCond".into(),
        Ctx::Assign => ".assign".into(),
        Ctx::Ret => ".ret".into(),
        Ctx::Stmt => ".stmt".into(),
        Ctx::Other(w) => format!(".other {}", lstr(w)),
    }
}

fn site_lean(s: &Site) -> (String, Numbering) {
    let mut n = Numbering { recvs: vec![], args: vec![] };
    let source = n.src(&s.source);
    let chain = s.chain.iter().map(|x| n.step(x)).collect::<Vec<_>>().join(", ");
    let adj = match &s.adj {
        None => "none".to_string(),
        Some(a) => {
            let cs = n.src(&a.cond_src);
            let pb = n.pb(&a.then_sum);
            let pj = n.projs(&a.projs);
            format!(
                "some {{ condSrc := {cs}, condOp := {}, condRhs := {}, thenSum := {pb}, els := {}, projs := {pj} }}",
                lstr(&a.cond_op),
                lstr(&a.cond_rhs),
                lstr(&a.els)
            )
        }
    };
    (
        format!(
            "  {{ file := {}, fn := {}, prop := {},\n    source := {source},\n    chain := [{chain}],\n    ctx := {},\n    adj := {adj} }}",
            lstr(&s.file),
            lstr(&s.func),
            lstr(&s.prop),
            ctx_lean(&s.ctx)
        ),
        n,
    )
}

pub struct Output {
    pub lean: String,
    pub report: String,
}

pub fn extract(repo: &str) -> Result<Output, String> {
    let cfg = CfgEnv::default_build();
    let mut units = vec![];
    let mut notes = vec![];
    load_modules(repo, &cfg, "src/compute/mod.rs", &mut units, &mut notes)?;
    let debug_off = debug_macros_compiled_out(repo);
    if !debug_off {
        notes.push("debug_*! macros are not provably compiled out: their arguments are scanned".into());
    }
    // pass 1: raw copies; pass 2: everything, now knowing which fields are raw copies
    let mut copy_info = CopyInfo::new();
    let mut sites = vec![];
    let mut copies = vec![];
    for pass in 0..2 {
        sites.clear();
        copies.clear();
        let mut literal_counter = 0usize;
        for u in &units {
            let mut fns = vec![];
            collect_fns(&u.items, &cfg, "", &mut fns);
            for f in &fns {
                scan_fn(&cfg, u, f, &copy_info, debug_off, &mut literal_counter, &mut sites, &mut copies);
            }
        }
        if pass == 0 {
            for c in &copies {
                copy_info.entry(c.strukt.clone()).or_default().insert(c.field.clone(), c.getter.clone());
            }
        }
    }
    // reads outside function bodies (consts, statics): none expected; a token-level net so that nothing hides there
    // (function bodies, impls, traits and inline modules are walked as syntax above)

    let mut o = String::new();
    o.push_str("-- generated by tvextract from src/compute/** — do not edit\n");
    o.push_str("-- every read of size()/min_size()/max_size()/flex_basis()/box_sizing() and of their raw copies (C12 site table)\n");
    o.push_str("import TaffyVerif.Model.SiteTable\n\nnamespace Gen.Sites\nopen _root_.Sites\n\n");
    o.push_str("/-- the files of the compiled module tree below src/compute/mod.rs that were scanned -/\n");
    o.push_str("def files : List String := [\n");
    o.push_str(&units.iter().map(|u| format!("  {}", lstr(&u.rel))).collect::<Vec<_>>().join(",\n"));
    o.push_str("]\n\n");
    o.push_str("/-- raw copies: struct-literal fields initialised with a bare getter call; `recv` numbers the receivers per literal -/\n");
    o.push_str("def copies : List Copy := [\n");
    let mut lit_recvs: HashMap<usize, Vec<String>> = HashMap::new();
    let mut rows = vec![];
    for c in &copies {
        let v = lit_recvs.entry(c.literal).or_default();
        let r = match v.iter().position(|x| *x == c.recv) {
            Some(i) => i,
            None => {
                v.push(c.recv.clone());
                v.len() - 1
            }
        };
        rows.push(format!(
            "  {{ file := {}, fn := {}, struct := {}, field := {}, getter := {}, recv := {r} }}",
            lstr(&c.file),
            lstr(&c.func),
            lstr(&c.strukt),
            lstr(&c.field),
            lstr(&c.getter)
        ));
    }
    o.push_str(&rows.join(",\n"));
    o.push_str("]\n\n");
    o.push_str("/-- the reads, in source order per file -/\ndef all : List Site := [\n");
    let mut report = String::new();
    report.push_str("C12 site table — human-readable companion of Sites.lean (not imported by Lean; line numbers are only here)\n\n");
    let mut rows = vec![];
    for s in &sites {
        let (text, n) = site_lean(s);
        rows.push(text);
        report.push_str(&format!("{}:{}  fn {}  {}\n", s.file, s.line, s.func, s.prop));
        for (i, r) in n.recvs.iter().enumerate() {
            report.push_str(&format!("    receiver {i} = {r}\n"));
        }
        for (i, a) in n.args.iter().enumerate() {
            report.push_str(&format!("    argument {i} = {a}\n"));
        }
    }
    o.push_str(&rows.join(",\n"));
    o.push_str("]\n\nend Gen.Sites\n");
    report.push_str("\nraw copies\n");
    for c in &copies {
        report.push_str(&format!("{}:{}  fn {}  {} {{ {}: <{}>.{}() }}\n", c.file, c.line, c.func, c.strukt, c.field, c.recv, c.getter));
    }
    report.push_str("\nnotes\n");
    for n in &notes {
        report.push_str(&format!("  {n}\n"));
    }
    Ok(Output { lean: o, report })
}
