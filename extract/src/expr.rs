//! General typed translator: a pure fragment of Rust (DESIGN.md §4.1) → Lean terms over `{α : Type} [Num α]`.
//!
//! Accepted: literals, paths, field access, struct literals of the known types, `if`/`else`, `match` on tuples / Options / enums
//! with or-patterns and guards, `let`, assignments to locals and to fields of locals (state passing), a whitelist of methods,
//! `as usize` on bool, `usize as f32` (`Num.ofNat`), early `return`s, the `for x in it { lets; if c { return e; } }` search loop,
//! `matches!`, destructuring assignment `(a, b) = e` to locals, `f(&mut x, …);` for a translated `f` with a `&mut` first parameter,
//! type parameters of a generic `impl<T>` kept abstract (`Ty::Var`, the Lean definition is polymorphic), trait constants
//! (`T::ZERO`, `Size::MAX_CONTENT`, `auto::<Self>()`), the length constructors `X(CompactLength::length(v))` ↦ `.length v` … and,
//! per function and named in the generated doc comment, `usize - usize` as truncated subtraction.
//! Third batch (leaf.rs, compute_root_layout, compute_cached_layout): closure parameters — a pure one (`F: Fn(T) -> R`, `impl FnOnce(f32) -> f32`)
//! is a Lean function parameter (`Ty::Fn`; `Size::map`, `map_definite_value`), called as `f(x)`; function-valued arguments may be closure
//! literals, `Some`, constructors or paths of translated functions (`AvailableSpace::from`); abstract type variables of a signature are
//! unified at the call site; `style: &impl CoreStyle` is `Style α` restricted to that trait's getters; struct patterns (`let T { a, b, .. } = e`
//! as projections, `T { a: Some(x), .. }` in `if let` / `match`); `if let` in statement position; `matches!(e, pat if guard)`; `x.f += e`;
//! `a + b` on the geometry types through their translated `impl Add`; `drop(local)`; the logging macros of util/debug.rs (checked no-ops).
//! INTERACTION FORM (`emit::ProgPlan`, stmt.rs): in a function with a `tree` parameter or an opaque closure parameter, `let x = tree.m(..);`,
//! `tree.m(..);`, a tail `tree.m(..)` and the same for the closure become nodes of a generated program type (arguments, continuation), a
//! provided trait method or a closure that takes the tree becomes `bind`; `return e` is `ret e`; an argument that is a `match` with
//! `unreachable!()` arms is evaluated first as an `Option` (`none` ↦ `Prog.unreachable`). An interaction anywhere else is an error.
//! Fourth batch (opt-in through `Ctx::ext`, see loops.rs; used by flexline.rs only): slices / `Vec` as lists with iterator chains, `for` over
//! `&mut [T]` as `List.map` / `List.foldl`, filtered mutable views, `loop { if c { break; } … }` under fuel, `&` / `|` on bools.
//! Everything else is an error; the caller decides whether that is fatal (required function) or a comment.
use crate::lean::{ident, AdtKind, FnSig, Ty, World, L};
#[allow(unused_imports)]
use crate::emit::EffectSig;
use crate::util::CfgEnv;
use std::collections::HashMap;
use syn::{BinOp, Expr, Lit, Pat, Stmt, UnOp};

pub type R<T> = Result<T, String>;

#[derive(Clone, Copy, PartialEq)]
pub enum RetMode {
    Plain,
    MutSelfUnit,
    MutSelfVal,
}

pub(crate) type Scope = HashMap<String, (String, Ty)>;

pub(crate) struct Frame<'s> {
    pub stmts: &'s [Stmt],
    pub value_tail: bool,
    pub scope: Scope,
}

pub struct Ctx<'a> {
    pub w: &'a World,
    pub self_ty: Option<Ty>,
    pub generics: HashMap<String, Ty>,
    pub locals: Scope,
    pub env: CfgEnv,
    pub ret: RetMode,
    pub ret_ty: Ty,
    /// parameters that are not translated (`calc`)
    pub dropped: Vec<String>,
    /// payload variable while inside an arm of the tag-match shape
    pub(crate) tag_payload: Option<Option<String>>,
    pub(crate) fresh: usize,
    /// per-function opt-in: `usize - usize` is translated as truncated subtraction (`Gen.usizeSubTrunc`); the generated
    /// definition then agrees with Rust only where no underflow occurs (Rust: panic in debug builds, wrap in release)
    pub trunc_sub: bool,
    pub used_trunc_sub: bool,
    /// the local that plays the role of `self` for the state-passing return (a `&mut` first parameter of a free function)
    pub mut_param: Option<String>,
    /// interaction form (see `emit::ProgPlan`): the function body is translated into an interaction program
    pub prog: Option<crate::emit::ProgPlan>,
    /// locals of type `Style` that the Rust sees through one style trait (`style: &impl CoreStyle`): Rust name ↦ trait
    pub views: HashMap<String, String>,
    /// see `emit::PlanExt::view_core`
    pub view_core: bool,
    /// see `emit::PlanExt::join_ifs`
    pub join_ifs: bool,
    /// closure parameters that are sub-programs (they take the tree first): Rust name ↦ (Lean name, argument types, result type)
    pub sub_programs: HashMap<String, (String, Vec<Ty>, Ty)>,
    /// opt-in widening for slices / iterator chains / `for` over `&mut [T]` / `loop` under fuel (loops.rs; off by default)
    pub ext: crate::loops::LoopExt,
}

pub fn expr_attrs_pub(e: &Expr) -> &[syn::Attribute] {
    match e {
        Expr::If(x) => &x.attrs,
        Expr::Block(x) => &x.attrs,
        Expr::MethodCall(x) => &x.attrs,
        Expr::Call(x) => &x.attrs,
        Expr::Assign(x) => &x.attrs,
        Expr::Match(x) => &x.attrs,
        Expr::Macro(x) => &x.attrs,
        Expr::ForLoop(x) => &x.attrs,
        Expr::Return(x) => &x.attrs,
        _ => &[],
    }
}

fn path_segs(p: &syn::Path) -> Vec<String> {
    p.segments.iter().map(|s| s.ident.to_string()).collect()
}

fn strip(e: &Expr) -> &Expr {
    match e {
        Expr::Paren(p) => strip(&p.expr),
        Expr::Group(g) => strip(&g.expr),
        Expr::Reference(r) => strip(&r.expr),
        Expr::Unary(u) if matches!(u.op, UnOp::Deref(_)) => strip(&u.expr),
        _ => e,
    }
}

impl<'a> Ctx<'a> {
    pub fn new(w: &'a World, self_ty: Option<Ty>, generics: HashMap<String, Ty>) -> Ctx<'a> {
        Ctx {
            w,
            self_ty,
            generics,
            locals: HashMap::new(),
            env: CfgEnv::default_build(),
            ret: RetMode::Plain,
            ret_ty: Ty::Unknown,
            dropped: vec![],
            tag_payload: None,
            fresh: 0,
            trunc_sub: false,
            used_trunc_sub: false,
            mut_param: None,
            prog: None,
            views: HashMap::new(),
            view_core: false,
            join_ifs: false,
            sub_programs: HashMap::new(),
            ext: Default::default(),
        }
    }

    // ------------------------------------------------------------------------------------------ types
    pub fn rust_ty(&self, t: &syn::Type) -> R<Ty> {
        match t {
            syn::Type::Paren(p) => self.rust_ty(&p.elem),
            syn::Type::Group(p) => self.rust_ty(&p.elem),
            syn::Type::Reference(r) => self.rust_ty(&r.elem),
            syn::Type::Array(a) => Ok(Ty::List(Box::new(self.rust_ty(&a.elem)?))),
            syn::Type::Tuple(t) => {
                if t.elems.is_empty() {
                    Ok(Ty::Unit)
                } else {
                    Ok(Ty::Tuple(t.elems.iter().map(|x| self.rust_ty(x)).collect::<R<Vec<_>>>()?))
                }
            }
            syn::Type::Path(p) if p.qself.is_none() => {
                let seg = p.path.segments.last().unwrap();
                let name = seg.ident.to_string();
                let name = self.w.aliases.get(&name).cloned().unwrap_or(name);
                let args: Vec<Ty> = match &seg.arguments {
                    syn::PathArguments::None => vec![],
                    syn::PathArguments::AngleBracketed(a) => a
                        .args
                        .iter()
                        .map(|g| match g {
                            syn::GenericArgument::Type(t) => self.rust_ty(t),
                            _ => Err("unsupported generic argument".to_string()),
                        })
                        .collect::<R<Vec<_>>>()?,
                    _ => return Err("unsupported path arguments".into()),
                };
                if p.path.segments.len() == 1 {
                    if let Some(t) = self.generics.get(&name) {
                        return Ok(t.clone());
                    }
                }
                match name.as_str() {
                    "f32" => Ok(Ty::F32),
                    "bool" => Ok(Ty::Bool),
                    "usize" | "u32" | "u16" | "u8" | "u64" => Ok(Ty::Nat),
                    "Self" => self.self_ty.clone().ok_or("Self outside impl".to_string()),
                    "Option" if args.len() == 1 => Ok(Ty::opt(args[0].clone())),
                    _ => match self.w.adt(&name) {
                        Some(a) if a.nparams == args.len() => Ok(Ty::Adt(name, args)),
                        Some(a) if args.is_empty() => Ok(Ty::Adt(name, vec![Ty::Unknown; a.nparams])),
                        _ => Err(format!("unsupported type `{}`", quote::quote!(#t))),
                    },
                }
            }
            _ => Err(format!("unsupported type `{}`", quote::quote!(#t))),
        }
    }

    pub(crate) fn fresh_name(&mut self, base: &str) -> String {
        self.fresh += 1;
        format!("{}_{}", ident(base), self.fresh)
    }
    /// declare a local; `rename` when an existing local of that name must stay visible to a continuation
    pub(crate) fn declare(&mut self, rust: &str, ty: Ty, rename: bool) -> String {
        let lean = if rename && self.locals.contains_key(rust) { self.fresh_name(rust) } else { ident(rust) };
        self.locals.insert(rust.to_string(), (lean.clone(), ty));
        lean
    }

    // ------------------------------------------------------------------------------------------ expressions
    pub fn expr(&mut self, e: &Expr, expect: &Ty) -> R<(L, Ty)> {
        match e {
            Expr::Paren(p) => self.expr(&p.expr, expect),
            Expr::Group(g) => self.expr(&g.expr, expect),
            Expr::Reference(r) => self.expr(&r.expr, expect),
            Expr::Unary(u) if matches!(u.op, UnOp::Deref(_)) => self.expr(&u.expr, expect),
            Expr::Lit(l) => match &l.lit {
                Lit::Float(f) => {
                    let v: f64 = f.base10_parse().map_err(|e: syn::Error| e.to_string())?;
                    if v == 0.0 {
                        Ok((L::a("0"), Ty::F32))
                    } else if v == 1.0 {
                        Ok((L::a("1"), Ty::F32))
                    } else if v == 2.0 {
                        // `2.0_f32 == 1.0_f32 + 1.0_f32` exactly; the models write `Num.two` (= `1 + 1`)
                        Ok((L::a("Num.two"), Ty::F32))
                    } else if v.fract() == 0.0 && v > 0.0 && v < 1e6 {
                        Ok((L::app("Num.ofNat", vec![L::A(format!("{}", v as u64))]), Ty::F32))
                    } else {
                        Err(format!("float literal {v} has no exact counterpart in `Num`"))
                    }
                }
                Lit::Int(i) => {
                    let v: u128 = i.base10_parse().map_err(|e: syn::Error| e.to_string())?;
                    match i.suffix() {
                        "" | "usize" | "u32" | "u16" | "u8" | "u64" => Ok((L::A(format!("{v}")), Ty::Nat)),
                        s => Err(format!("integer literal suffix {s}")),
                    }
                }
                Lit::Bool(b) => Ok((L::A(b.value.to_string()), Ty::Bool)),
                _ => Err("unsupported literal".into()),
            },
            Expr::Path(p) => self.path_expr(p, expect),
            Expr::Field(f) => {
                let (b, bt) = self.expr(&f.base, &Ty::Unknown)?;
                let name = match &f.member {
                    syn::Member::Named(n) => n.to_string(),
                    syn::Member::Unnamed(i) => {
                        if let Ty::Tuple(ts) = &bt {
                            let k = i.index as usize;
                            let proj = if k == 0 { "1" } else { "2" };
                            if ts.len() == 2 {
                                return Ok((L::Field(Box::new(b), proj.into()), ts[k].clone()));
                            }
                        }
                        return Err(format!("unsupported tuple field access `{}`", quote::quote!(#f)));
                    }
                };
                match &bt {
                    Ty::Adt(an, args) => {
                        let adt = self.w.adt(an).ok_or("unknown adt")?;
                        if let AdtKind::Struct(fs) = &adt.kind {
                            if let Some(fd) = fs.iter().find(|x| x.rust == name) {
                                return Ok((L::Field(Box::new(b), fd.lean.clone()), fd.ty.subst(args)));
                            }
                        }
                        Err(format!("type {an} has no known field `{name}`"))
                    }
                    _ => Err(format!("field access `{}` on a value of type {:?}", quote::quote!(#f), bt)),
                }
            }
            Expr::Struct(s) => self.struct_lit(s, expect),
            Expr::Tuple(t) => {
                if t.elems.is_empty() {
                    return Ok((L::a("()"), Ty::Unit));
                }
                let mut ls = vec![];
                let mut ts = vec![];
                for (i, x) in t.elems.iter().enumerate() {
                    let ex = match expect {
                        Ty::Tuple(v) if v.len() == t.elems.len() => v[i].clone(),
                        _ => Ty::Unknown,
                    };
                    let (l, ty) = self.expr(x, &ex)?;
                    ls.push(l);
                    ts.push(ty);
                }
                Ok((L::Tuple(ls), Ty::Tuple(ts)))
            }
            Expr::Repeat(r) => {
                let inner = match expect {
                    Ty::List(t) => (**t).clone(),
                    _ => Ty::Unknown,
                };
                let (v, vt) = self.expr(&r.expr, &inner)?;
                let (n, nt) = self.expr(&r.len, &Ty::Nat)?;
                if nt != Ty::Nat {
                    return Err("array length is not an integer".into());
                }
                Ok((L::app("List.replicate", vec![n, v]), Ty::List(Box::new(vt.join(&inner)))))
            }
            Expr::Cast(c) => {
                let to = self.rust_ty(&c.ty)?;
                let (v, vt) = self.expr(&c.expr, &Ty::Unknown)?;
                match (&vt, &to) {
                    (Ty::Bool, Ty::Nat) => Ok((L::app("Bool.toNat", vec![v]), Ty::Nat)),
                    // `usize as f32`: round-to-nearest conversion = `Num.ofNat` (`Float32.ofNat` at Float32, the embedding at Rat)
                    (Ty::Nat, Ty::F32) => Ok((L::app("Num.ofNat", vec![v]), Ty::F32)),
                    (Ty::Nat, Ty::Nat) if self.ext.index_as_u32 && crate::emit::norm(&c.ty) == "u32" => Ok((v, Ty::Nat)),
                    // blockmod.rs (opt-in): `<count of children> as u32`, a stated totalisation (`Gen.Block.as_u32`, the identity)
                    (Ty::Nat, Ty::Nat) if self.ext.block && crate::emit::norm(&c.ty) == "u32" => Ok((L::app("Gen.Block.as_u32", vec![v]), Ty::Nat)),
                    (Ty::Nat, Ty::Nat) => Err("integer-to-integer cast (width not tracked)".into()),
                    _ => Err(format!("unsupported cast `{}`", quote::quote!(#c))),
                }
            }
            Expr::Unary(u) => match u.op {
                UnOp::Not(_) => {
                    let (v, t) = self.expr(&u.expr, &Ty::Bool)?;
                    if t != Ty::Bool {
                        return Err("`!` on a non-bool".into());
                    }
                    Ok((L::Not(Box::new(v)), Ty::Bool))
                }
                UnOp::Neg(_) => {
                    let (v, t) = self.expr(&u.expr, &Ty::F32)?;
                    if t != Ty::F32 {
                        return Err("unary minus on a non-f32".into());
                    }
                    Ok((L::A(format!("(-{})", v.arg(0))), Ty::F32))
                }
                _ => Err("unsupported unary operator".into()),
            },
            Expr::Binary(b) => self.binary(b, expect),
            // `if let PAT = e { a } else b` as a value  ⇒  `match e with | PAT => a | _ => b` (the complement of `Some(x)` in an `Option`
            // is written `none`, as in `matches!`) — absmod.rs (grid/alignment.rs)
            Expr::If(i) if matches!(&*i.cond, Expr::Let(_)) => {
                let l = match &*i.cond {
                    Expr::Let(l) => l,
                    _ => unreachable!(),
                };
                let (sc, st) = self.expr(&l.expr, &Ty::Unknown)?;
                let saved = self.locals.clone();
                let alts = self.pat(&l.pat, &st, false);
                let a = match &alts {
                    Ok(_) => self.block_value(&i.then_branch.stmts, expect),
                    Err(e) => Err(e.clone()),
                };
                self.locals = saved;
                let alts = alts?;
                let (a, at) = a?;
                let eb = i.else_branch.as_ref().ok_or("`if let` without `else` used as a value")?;
                let (b, bt) = self.expr(&eb.1, &at.join(expect))?;
                if !at.compatible(&bt) {
                    return Err(format!("branches of `if let` have different types {:?} / {:?}", at, bt));
                }
                let some_var = |p: &String| p.strip_prefix("(some ").and_then(|r| r.strip_suffix(')')).map(|v| !v.is_empty() && v.chars().all(|c| c.is_alphanumeric() || c == '_' || c == '\'')).unwrap_or(false);
                let complement = if matches!(st, Ty::Opt(_)) && alts.len() == 1 && some_var(&alts[0]) { "none" } else { "_" };
                let mut arms: Vec<(Vec<String>, L)> = alts.into_iter().map(|p| (vec![p], a.clone())).collect();
                arms.push((vec![complement.into()], b));
                Ok((L::Match(vec![sc], arms), at.join(&bt)))
            }
            Expr::If(i) => {
                let (c, ct) = self.expr(&i.cond, &Ty::Bool)?;
                if ct != Ty::Bool {
                    return Err("`if` condition is not a bool (if-let is outside the fragment)".into());
                }
                let (a, at) = self.block_value(&i.then_branch.stmts, expect)?;
                let eb = i.else_branch.as_ref().ok_or("`if` without `else` used as a value")?;
                let (b, bt) = self.expr(&eb.1, &at.join(expect))?;
                if !at.compatible(&bt) {
                    return Err(format!("branches of `if` have different types {:?} / {:?}", at, bt));
                }
                Ok((L::If(Box::new(c), Box::new(a), Box::new(b)), at.join(&bt)))
            }
            Expr::Block(b) => self.block_value(&b.block.stmts, expect),
            Expr::Match(m) => self.match_expr(m, expect, None),
            Expr::Call(c) => self.call(c, expect),
            Expr::MethodCall(m) => self.method_call(m, expect),
            Expr::Macro(m) => {
                if m.mac.path.is_ident("matches") {
                    let scrut = m
                        .mac
                        .parse_body_with(|input: syn::parse::ParseStream| {
                            let e: Expr = input.parse()?;
                            let _: syn::Token![,] = input.parse()?;
                            let p = Pat::parse_multi_with_leading_vert(input)?;
                            // `matches!(e, pat if guard)`
                            let g: Option<Expr> = if input.peek(syn::Token![if]) {
                                let _: syn::Token![if] = input.parse()?;
                                Some(input.parse()?)
                            } else {
                                None
                            };
                            let _: Option<syn::Token![,]> = input.parse()?;
                            Ok((e, p, g))
                        })
                        .map_err(|e| e.to_string())?;
                    let (scrut, pat, guard) = scrut;
                    let (s, st) = self.expr(&scrut, &Ty::Unknown)?;
                    let saved = self.locals.clone();
                    let alts = self.pat(&pat, &st, false);
                    let hit = match (&alts, &guard) {
                        (Ok(_), Some(g)) => match self.expr(g, &Ty::Bool) {
                            Ok((gl, Ty::Bool)) => Ok(gl),
                            Ok(_) => Err("the guard of `matches!` is not a bool".to_string()),
                            Err(e) => Err(e),
                        },
                        _ => Ok(L::a("true")),
                    };
                    self.locals = saved;
                    let (alts, hit) = (alts?, hit?);
                    // the complement of `Some(x)` in an `Option` is written `none` (a two-constructor match, as one writes it by hand), anything else `_`
                    let some_var = |p: &String| p.strip_prefix("(some ").and_then(|r| r.strip_suffix(')')).map(|v| !v.is_empty() && v.chars().all(|c| c.is_alphanumeric() || c == '_' || c == '\'')).unwrap_or(false);
                    let complement = if matches!(st, Ty::Opt(_)) && alts.len() == 1 && some_var(&alts[0]) { "none" } else { "_" };
                    let mut arms: Vec<(Vec<String>, L)> = alts.into_iter().map(|p| (vec![p], hit.clone())).collect();
                    arms.push((vec![complement.into()], L::a("false")));
                    Ok((L::Match(vec![s], arms), Ty::Bool))
                } else {
                    Err(format!("unsupported macro `{}`", quote::quote!(#m)))
                }
            }
            // flexwhile.rs (opt-in): `x[..]`, and `x[0]` inside the arm of an index statement; otherwise an error
            Expr::Index(ix) => self.ext2_index(ix),
            Expr::Closure(_) => Err("closure outside a whitelisted method call".into()),
            _ => Err(format!("unsupported expression `{}`", quote::quote!(#e))),
        }
    }

    /// `ty_name = None`: an unqualified variant name (brought in by `use`); accepted only when exactly one registered enum has it
    pub(crate) fn variant_lookup(&self, ty_name: Option<&str>, var: &str) -> Option<(String, Ty, Vec<Ty>)> {
        let mut found = vec![];
        for a in &self.w.adts {
            if let Some(t) = ty_name {
                if a.rust != t {
                    continue;
                }
            }
            if let AdtKind::Enum(vs) = &a.kind {
                if let Some(v) = vs.iter().find(|v| v.rust == var) {
                    found.push((format!("{}.{}", a.lean, v.lean), Ty::Adt(a.rust.clone(), vec![]), v.args.clone()));
                }
            }
        }
        if found.len() == 1 {
            found.pop()
        } else {
            None
        }
    }

    /// the type named by the first segment of a two-segment path
    pub(crate) fn type_of_segment(&self, s: &str) -> Option<Ty> {
        if s == "Self" {
            return self.self_ty.clone();
        }
        if let Some(t) = self.generics.get(s) {
            return Some(t.clone());
        }
        let s = self.w.aliases.get(s).map(|x| x.as_str()).unwrap_or(s);
        match s {
            "f32" => Some(Ty::F32),
            "Option" => Some(Ty::opt(Ty::Unknown)),
            _ => self.w.adt(s).map(|a| Ty::Adt(a.rust.clone(), vec![Ty::Unknown; a.nparams])),
        }
    }

    fn const_ref(&self, head: &str, name: &str) -> Option<(L, Ty)> {
        self.w.consts.get(&(head.to_string(), name.to_string())).map(|(l, t, alpha)| {
            if *alpha {
                (L::A(format!("({l} (α := α))")), t.clone())
            } else {
                (L::A(l.clone()), t.clone())
            }
        })
    }

    /// a translated trait constant `<head as Trait>::name` (registered as `Trait::name`), type-compatible with `expect`;
    /// refused when two traits provide the name for that head
    fn trait_const(&self, head: &str, name: &str, expect: &Ty) -> Option<(L, Ty)> {
        let suffix = format!("::{name}");
        // keys: `Trait::NAME`, or `Trait::NAME@inst` for a generic impl instantiated more than once
        let mut found: Vec<&String> =
            self.w.consts.iter().filter(|((h, k), (_, t, _))| h == head && k.split('@').next().unwrap().ends_with(&suffix) && t.compatible(expect)).map(|((_, k), _)| k).collect();
        found.sort();
        found.dedup();
        if found.len() == 1 {
            let k = found[0].clone();
            self.const_ref(head, &k)
        } else {
            None
        }
    }

    fn path_expr(&mut self, p: &syn::ExprPath, expect: &Ty) -> R<(L, Ty)> {
        let segs = path_segs(&p.path);
        if segs.len() == 1 {
            let n = &segs[0];
            if let Some((l, t)) = self.locals.get(n) {
                return Ok((L::A(l.clone()), t.clone()));
            }
            if self.dropped.contains(n) {
                return Err(format!("use of the untranslated parameter `{n}`"));
            }
            if n == "None" {
                let t = match expect {
                    Ty::Opt(_) => expect.clone(),
                    _ => Ty::opt(Ty::Unknown),
                };
                return Ok((L::a("none"), t));
            }
            if let Some(c) = self.const_ref("", n) {
                return Ok(c);
            }
            if let Some((l, t, args)) = self.variant_lookup(None, n) {
                if args.is_empty() {
                    return Ok((L::A(l), t));
                }
            }
            return Err(format!("unresolved name `{n}`"));
        }
        if segs.len() >= 2 {
            let tname = &segs[segs.len() - 2];
            let name = &segs[segs.len() - 1];
            if tname == "f32" || tname == "core" {
                return match name.as_str() {
                    "EPSILON" => Ok((L::a("Num.eps"), Ty::F32)),
                    _ => Err(format!("`f32::{name}` has no counterpart in `Num`")),
                };
            }
            if let Some(t) = self.type_of_segment(tname) {
                let head = t.head();
                if let Some((l, vt, args)) = self.variant_lookup(Some(&head), name) {
                    if args.is_empty() {
                        return Ok((L::A(l), vt));
                    }
                }
                if self.generics.contains_key(tname) {
                    // `T::ZERO` with `T: TaffyZero` (and the other constant traits of style_helpers.rs)
                    if let Some(c) = self.trait_const(&head, name, expect) {
                        return Ok(c);
                    }
                }
                if let Some((l, ct)) = self.const_ref(&head, name) {
                    return Ok((l, ct));
                }
                // `Size::MAX_CONTENT`: no inherent constant of that name, a translated trait constant of a type-compatible instance
                if let Some(c) = self.trait_const(&head, name, expect) {
                    return Ok(c);
                }
            }
        }
        Err(format!("unresolved path `{}`", segs.join("::")))
    }

    fn struct_lit(&mut self, s: &syn::ExprStruct, expect: &Ty) -> R<(L, Ty)> {
        if s.rest.is_some() {
            // blockmod.rs (opt-in): `T { f: v, ..base }`
            if let Some(r) = self.block_struct_update(s, expect)? {
                return Ok(r);
            }
            return Err("struct update syntax".into());
        }
        let tname = path_segs(&s.path).last().unwrap().clone();
        let ty0 = self.type_of_segment(&tname).ok_or(format!("struct literal of unknown type {tname}"))?;
        let (an, mut args) = match ty0.join(expect) {
            Ty::Adt(n, a) => (n, a),
            _ => return Err("struct literal of a non-struct".into()),
        };
        let adt = self.w.adt(&an).ok_or("unknown adt")?.clone();
        let fields = match &adt.kind {
            AdtKind::Struct(f) => f.clone(),
            _ => return Err(format!("{an} is not a struct")),
        };
        let mut given: Vec<(String, L)> = vec![];
        for fv in &s.fields {
            if !self.env.enabled(&fv.attrs)? {
                continue;
            }
            let name = match &fv.member {
                syn::Member::Named(n) => n.to_string(),
                _ => return Err("positional struct literal".into()),
            };
            let fd = fields.iter().find(|f| f.rust == name).ok_or(format!("struct {an} has no known field `{name}`"))?;
            let (v, vt) = self.expr(&fv.expr, &fd.ty.subst(&args))?;
            if !fd.ty.subst(&args).compatible(&vt) {
                return Err(format!("field `{name}` of {an}: value of type {:?}", vt));
            }
            fd.ty.infer_params(&vt, &mut args);
            given.push((fd.lean.clone(), v));
        }
        for f in &fields {
            if !given.iter().any(|(n, _)| *n == f.lean) {
                return Err(format!("struct literal of {an} lacks field `{}`", f.rust));
            }
        }
        let largs: Vec<L> = given.into_iter().map(|(n, v)| L::A(format!("({n} := {})", v.render(6, true)))).collect();
        Ok((L::App(format!("{}.mk", adt.lean), largs), Ty::Adt(an, args)))
    }

    fn binary(&mut self, b: &syn::ExprBinary, _expect: &Ty) -> R<(L, Ty)> {
        // blockmod.rs (opt-in): `x.is_none() || … x.unwrap() …`
        if let Some(r) = self.block_guarded_unwrap(b)? {
            return Ok(r);
        }
        if let BinOp::And(_) | BinOp::Or(_) = b.op {
            let (l, lt) = self.expr(&b.left, &Ty::Bool)?;
            let (r, rt) = self.expr(&b.right, &Ty::Bool)?;
            if lt != Ty::Bool || rt != Ty::Bool {
                return Err("`&&`/`||` on non-bools".into());
            }
            let op = if matches!(b.op, BinOp::And(_)) { "&&" } else { "||" };
            return Ok((L::Bin(op.into(), Box::new(l), Box::new(r)), Ty::Bool));
        }
        let (mut l, mut lt) = self.expr(&b.left, &Ty::Unknown)?;
        let (r, rt) = self.expr(&b.right, &lt)?;
        if lt.has_unknown() {
            let x = self.expr(&b.left, &rt)?;
            l = x.0;
            lt = x.1.join(&rt);
        }
        let rt = rt.join(&lt);
        if !lt.compatible(&rt) {
            return Err(format!("operands of `{}` have different types {:?} / {:?}", quote::quote!(#b), lt, rt));
        }
        let bx = |x: L| Box::new(x);
        // operator traits implemented for the geometry types (`impl Add<Rect<U>> for Rect<T>` …), translated as functions `add` / `sub`
        if let (Ty::Adt(an, _), Some(op)) = (&lt, match b.op {
            BinOp::Add(_) => Some("add"),
            BinOp::Sub(_) => Some("sub"),
            _ => None,
        }) {
            if let Some(sigs) = self.w.fns.get(&(an.clone(), op.to_string())) {
                for sig in sigs {
                    if let Some(st) = &sig.self_ty {
                        if st.compatible(&lt) && sig.params.len() == 1 && sig.params[0].1.compatible(&rt) && !sig.prog {
                            return Ok((L::App(sig.lean.clone(), vec![l, r]), sig.ret.clone()));
                        }
                    }
                }
            }
            return Err(format!("operator `{op}` at type {:?} / {:?} is not a translated impl", lt, rt));
        }
        match (&b.op, &lt) {
            (BinOp::Add(_), Ty::F32 | Ty::Nat) => Ok((L::Bin("+".into(), bx(l), bx(r)), lt)),
            (BinOp::Sub(_), Ty::F32) => Ok((L::Bin("-".into(), bx(l), bx(r)), lt)),
            (BinOp::Mul(_), Ty::F32 | Ty::Nat) => Ok((L::Bin("*".into(), bx(l), bx(r)), lt)),
            (BinOp::Div(_), Ty::F32) => Ok((L::Bin("/".into(), bx(l), bx(r)), lt)),
            (BinOp::Sub(_), Ty::Nat) if self.trunc_sub => {
                self.used_trunc_sub = true;
                Ok((L::app("Gen.usizeSubTrunc", vec![l, r]), lt))
            }
            (BinOp::Sub(_) | BinOp::Div(_), Ty::Nat) => Err("unsigned subtraction/division (can overflow / panic) is outside the fragment".into()),
            // `&` / `|` on bools: both operands are pure, so the non-short-circuit operators compute `&&` / `||`
            (BinOp::BitAnd(_), Ty::Bool) => Ok((L::Bin("&&".into(), bx(l), bx(r)), Ty::Bool)),
            (BinOp::BitOr(_), Ty::Bool) => Ok((L::Bin("||".into(), bx(l), bx(r)), Ty::Bool)),
            (BinOp::Lt(_), Ty::F32) => Ok((L::app("Num.flt", vec![l, r]), Ty::Bool)),
            (BinOp::Gt(_), Ty::F32) => Ok((L::app("Num.fgt", vec![l, r]), Ty::Bool)),
            (BinOp::Le(_), Ty::F32) => Ok((L::app("Num.fle", vec![l, r]), Ty::Bool)),
            (BinOp::Ge(_), Ty::F32) => Ok((L::app("Num.fge", vec![l, r]), Ty::Bool)),
            (BinOp::Lt(_), Ty::Nat) => Ok((L::app("decide", vec![L::Bin("<".into(), bx(l), bx(r))]), Ty::Bool)),
            (BinOp::Gt(_), Ty::Nat) => Ok((L::app("decide", vec![L::Bin(">".into(), bx(l), bx(r))]), Ty::Bool)),
            (BinOp::Le(_), Ty::Nat) => Ok((L::app("decide", vec![L::Bin("≤".into(), bx(l), bx(r))]), Ty::Bool)),
            (BinOp::Ge(_), Ty::Nat) => Ok((L::app("decide", vec![L::Bin("≥".into(), bx(l), bx(r))]), Ty::Bool)),
            (BinOp::Eq(_) | BinOp::Ne(_), t) => {
                let eq = self.equality(l, r, t)?;
                if matches!(b.op, BinOp::Eq(_)) {
                    Ok((eq, Ty::Bool))
                } else {
                    Ok((L::Not(Box::new(eq)), Ty::Bool))
                }
            }
            _ => Err(format!("unsupported operator in `{}` at type {:?}", quote::quote!(#b), lt)),
        }
    }

    /// Rust `==` (`PartialEq`): IEEE on f32, the std impl on `Option<f32>`, derived on the known enums
    fn equality(&self, l: L, r: L, t: &Ty) -> R<L> {
        match t {
            Ty::F32 => Ok(L::app("Num.feq", vec![l, r])),
            Ty::Bool | Ty::Nat => Ok(L::Bin("==".into(), Box::new(l), Box::new(r))),
            Ty::Opt(x) if **x == Ty::F32 => Ok(L::app("Gen.optEq", vec![l, r])),
            Ty::Adt(n, _) if n == "AvailableSpace" => Ok(L::app("Gen.avEq", vec![l, r])),
            Ty::Adt(n, _) => {
                let adt = self.w.adt(n).ok_or("unknown adt")?;
                match &adt.kind {
                    AdtKind::Enum(vs) if vs.iter().all(|v| v.args.is_empty()) => Ok(L::Bin("==".into(), Box::new(l), Box::new(r))),
                    _ => Err(format!("`==` at type {n} is not modelled")),
                }
            }
            _ => Err(format!("`==` at type {:?} is not modelled", t)),
        }
    }

    // ------------------------------------------------------------------------------------------ calls
    fn args_of(&mut self, sig: &FnSig, args: &[&Expr], what: &str) -> R<Vec<L>> {
        let mut sub = HashMap::new();
        self.args_of_s(sig, args, what, &mut sub)
    }

    /// `|val, basis| tree.calc(val, basis)` (or `resolve_calc_value`): the `calc` resolver of the tree, passed on
    fn is_tree_calc_closure(&self, e: &Expr) -> bool {
        let tree = match self.prog.as_ref().and_then(|p| p.tree_param.clone()).or(self.ext.calc_tree.clone()) {
            Some(t) => t,
            None => return false,
        };
        if let Expr::Closure(c) = strip(e) {
            let ps: Vec<String> = c.inputs.iter().map(|p| quote::quote!(#p).to_string()).collect();
            if ps.len() == 2 && ps.iter().all(|p| p.chars().all(|c| c.is_alphanumeric() || c == '_')) {
                let body = quote::quote!(#c.body).to_string();
                let _ = body;
                // `|val, basis| { tree.calc(val, basis) }` (rustfmt wraps a long closure into a block): the block's only expression
                let b: &Expr = match &*c.body {
                    Expr::Block(bl) if bl.label.is_none() && bl.block.stmts.len() == 1 => match &bl.block.stmts[0] {
                        syn::Stmt::Expr(e, None) => e,
                        _ => &c.body,
                    },
                    b => b,
                };
                let got = quote::quote!(#b).to_string().replace(' ', "");
                return got == format!("{tree}.calc({},{})", ps[0], ps[1]) || got == format!("{tree}.resolve_calc_value({},{})", ps[0], ps[1]);
            }
        }
        false
    }

    /// arguments of a call of a translated function; `sub` instantiates the abstract type variables of its signature
    fn args_of_s(&mut self, sig: &FnSig, args: &[&Expr], what: &str, sub: &mut HashMap<String, Ty>) -> R<Vec<L>> {
        let mut args: Vec<&Expr> = args.to_vec();
        for _ in 0..sig.dropped {
            match args.pop().map(strip) {
                Some(Expr::Path(p)) if p.path.get_ident().map(|i| self.dropped.contains(&i.to_string())).unwrap_or(false) => {}
                Some(e) if self.is_tree_calc_closure(e) => {}
                _ => return Err(format!("call of {what}: the untranslated trailing argument is not passed through unchanged")),
            }
        }
        if args.len() != sig.params.len() {
            return Err(format!("arity mismatch calling {what}"));
        }
        let mut out = vec![];
        for (a, (_, pt)) in args.iter().zip(sig.params.iter()) {
            let pt_i = pt.subst_vars(sub);
            if let Ty::Fn(ps, r) = &pt_i {
                let (l, rt) = self.fn_value(a, ps, &r.vars_to_unknown())?;
                if !r.unify(&rt, sub) {
                    return Err(format!("function argument returning {:?} where {what} expects {:?}", rt, r));
                }
                out.push(l);
                continue;
            }
            let (l, t) = self.expr(a, &pt_i.vars_to_unknown())?;
            if !pt.unify(&t, sub) {
                return Err(format!("argument of type {:?} where {what} expects {:?}", t, pt));
            }
            out.push(l);
        }
        Ok(out)
    }

    /// a function-valued argument: a closure literal, `Some`, a constructor, a function-typed local, or the path of a translated
    /// function (`AvailableSpace::from`: the parameter type selects the impl); returns the Lean function and its result type
    pub(crate) fn fn_value(&mut self, e: &Expr, ptys: &[Ty], expect_ret: &Ty) -> R<(L, Ty)> {
        let p = match strip(e) {
            Expr::Closure(_) => return self.closure(e, ptys, expect_ret),
            Expr::Path(p) => p,
            _ => return Err(format!("unsupported function argument `{}`", quote::quote!(#e))),
        };
        let segs = path_segs(&p.path);
        let name = segs.last().unwrap().clone();
        if segs.len() == 1 {
            if name == "Some" && ptys.len() == 1 {
                return Ok((L::a("some"), Ty::opt(ptys[0].clone())));
            }
            if let Some((l, Ty::Fn(ps, r))) = self.locals.get(&name).cloned() {
                if ps.len() == ptys.len() && ps.iter().zip(ptys).all(|(a, b)| a.compatible(b)) {
                    return Ok((L::A(l), *r));
                }
            }
            if let Some((l, t, vargs)) = self.variant_lookup(None, &name) {
                if vargs.len() == ptys.len() && !vargs.is_empty() && vargs.iter().zip(ptys).all(|(a, b)| a.compatible(b)) {
                    return Ok((L::A(l), t));
                }
            }
            return Err(format!("unresolved function `{name}`"));
        }
        // `Option::Some` (absmod.rs)
        if segs.len() == 2 && segs[0] == "Option" && name == "Some" && ptys.len() == 1 {
            return Ok((L::a("some"), Ty::opt(ptys[0].clone())));
        }
        let tname = &segs[segs.len() - 2];
        let t = self.type_of_segment(tname).ok_or(format!("function of unknown type `{tname}`"))?;
        let head = t.head();
        if let Some((l, vt, vargs)) = self.variant_lookup(Some(&head), &name) {
            if vargs.len() == ptys.len() && !vargs.is_empty() && vargs.iter().zip(ptys).all(|(a, b)| a.compatible(b)) {
                return Ok((L::A(l), vt));
            }
        }
        if let Some(sigs) = self.w.fns.get(&(head.clone(), name.clone())) {
            let fits: Vec<&FnSig> = sigs
                .iter()
                .filter(|s| s.self_ty.is_none() && !s.prog && s.dropped == 0 && s.params.len() == ptys.len() && s.params.iter().zip(ptys).all(|((_, a), b)| a.compatible(b)) && !ptys.iter().any(|t| t.has_unknown()))
                .collect();
            if fits.len() == 1 {
                return Ok((L::A(fits[0].lean.clone()), fits[0].ret.clone()));
            }
            // `T::method` (a by-value / by-reference `self` method without further parameters) used as `Fn(T) -> R`
            let mfits: Vec<&FnSig> = sigs
                .iter()
                .filter(|s| ptys.len() == 1 && !ptys[0].has_unknown() && s.self_ty.as_ref().map(|st| st.compatible(&ptys[0])).unwrap_or(false) && s.params.is_empty() && !s.mut_self && !s.prog && s.dropped == 0)
                .collect();
            if mfits.len() == 1 {
                return Ok((L::A(mfits[0].lean.clone()), mfits[0].ret.clone()));
            }
        }
        Err(format!("function argument `{}` does not name a translated function of the expected type", segs.join("::")))
    }

    fn apply_sig(&self, sig: &FnSig, args: Vec<L>) -> L {
        if args.is_empty() && sig.alpha {
            L::A(format!("({} (α := α))", sig.lean))
        } else {
            L::App(sig.lean.clone(), args)
        }
    }

    fn call(&mut self, c: &syn::ExprCall, expect: &Ty) -> R<(L, Ty)> {
        let p = match &*c.func {
            Expr::Path(p) => p,
            _ => return Err("call of a non-path".into()),
        };
        let segs = path_segs(&p.path);
        let name = segs.last().unwrap().clone();
        let args: Vec<&Expr> = c.args.iter().collect();
        if segs.len() == 1 {
            if self.is_interaction_name(&name) {
                return Err(format!("call of `{name}` is an interaction: only `let x = {name}(..);`, `{name}(..);` and a tail call are in the fragment"));
            }
            // a function-typed parameter
            if let Some((l, Ty::Fn(ps, r))) = self.locals.get(&name).cloned() {
                if ps.len() != args.len() {
                    return Err(format!("arity mismatch calling the closure `{name}`"));
                }
                let mut ls = vec![];
                for (a, pt) in args.iter().zip(&ps) {
                    let (al, at) = self.expr(a, pt)?;
                    if !pt.compatible(&at) {
                        return Err(format!("argument of type {:?} where the closure `{name}` expects {:?}", at, pt));
                    }
                    ls.push(al);
                }
                return Ok((L::App(l, ls), *r));
            }
            if args.len() == 1 {
                let lt = if name == "Self" { self.self_ty.clone() } else { self.type_of_segment(&name) };
                if let Some(Ty::Adt(an, _)) = &lt {
                    if let Some(AdtKind::Length(vs)) = self.w.adt(an).map(|a| a.kind.clone()) {
                        return self.length_ctor(an, &vs, args[0]);
                    }
                }
            }
            if name == "Some" && args.len() == 1 {
                let inner = match expect {
                    Ty::Opt(t) => (**t).clone(),
                    _ => Ty::Unknown,
                };
                let (v, vt) = self.expr(args[0], &inner)?;
                return Ok((L::app("some", vec![v]), Ty::opt(vt)));
            }
            // `zero::<X>()`
            if let syn::PathArguments::AngleBracketed(ab) = &p.path.segments[0].arguments {
                if (name == "zero" || name == "auto") && args.is_empty() && ab.args.len() == 1 {
                    if let syn::GenericArgument::Type(t) = &ab.args[0] {
                        let ty = self.rust_ty(t)?.join(expect);
                        if name == "zero" {
                            return self.trait_zero(&ty);
                        }
                        // `auto::<X>()` is `<X as TaffyAuto>::AUTO` (the module that translates it has compared the helper's body)
                        return self.trait_const(&ty.head(), "AUTO", &ty).ok_or(format!("no translated `TaffyAuto::AUTO` for {:?}", ty));
                    }
                }
                return Err(format!("unsupported generic call `{}`", quote::quote!(#c)));
            }
            if let Some((l, t, vargs)) = self.variant_lookup(None, &name) {
                if vargs.len() == args.len() && !vargs.is_empty() {
                    return self.variant_app(l, t, &vargs, &args);
                }
            }
            if let Some(sigs) = self.w.fns.get(&("".to_string(), name.clone())) {
                let sig = sigs[0].clone();
                if sig.mut_first {
                    return Err(format!("`{name}` updates its first argument: only usable as a call statement"));
                }
                let ls = self.args_of(&sig, &args, &name)?;
                return Ok((self.apply_sig(&sig, ls), sig.ret.clone()));
            }
            return Err(format!("call of unknown function `{name}`"));
        }
        let tname = &segs[segs.len() - 2];
        let t = self.type_of_segment(tname).ok_or(format!("call into unknown type `{tname}`"))?;
        let head = t.head();
        if let Some((l, vt, vargs)) = self.variant_lookup(Some(&head), &name) {
            if vargs.len() == args.len() && !vargs.is_empty() {
                return self.variant_app(l, vt, &vargs, &args);
            }
        }
        if let Some(sigs) = self.w.fns.get(&(head.clone(), name.clone())) {
            // overloads by instantiation (`Rect::zero()` at f32 / at a style length): the expected type selects
            for sig in sigs.clone() {
                match &sig.self_ty {
                    None => {
                        if sig.params.len() + sig.dropped != args.len() || !sig.ret.compatible(expect) {
                            continue;
                        }
                        let ls = self.args_of(&sig, &args, &format!("{head}::{name}"))?;
                        return Ok((self.apply_sig(&sig, ls), sig.ret.clone()));
                    }
                    Some(st) => {
                        if sig.mut_self || sig.params.len() + sig.dropped + 1 != args.len() {
                            continue;
                        }
                        let (s, sty) = self.expr(args[0], st)?;
                        if !st.compatible(&sty) {
                            continue;
                        }
                        let mut ls = vec![s];
                        ls.extend(self.args_of(&sig, &args[1..], &format!("{head}::{name}"))?);
                        return Ok((self.apply_sig(&sig, ls), sig.ret.clone()));
                    }
                }
            }
        }
        Err(format!("call of untranslated function `{}`", segs.join("::")))
    }

    /// constructor side of the abstract lengths: `X(CompactLength::length(v))` ↦ `.length v`, `X(CompactLength::percent(v))` ↦
    /// `.percent v`, `X(CompactLength::auto())` / `X(CompactLength::AUTO)` ↦ `.auto`, `X(CompactLength::ZERO)` ↦ `.length 0`
    fn length_ctor(&mut self, an: &str, variants: &[(String, String, bool)], arg: &Expr) -> R<(L, Ty)> {
        if !self.w.length_ctors_checked {
            return Err("length constructor before the `CompactLength` constructors were compared with the source".into());
        }
        let lean = self.w.adt(an).unwrap().lean.clone();
        let ty = Ty::Adt(an.to_string(), vec![]);
        let has = |c: &str| variants.iter().any(|v| v.1 == c);
        let (ctor, payload): (&str, Option<L>) = match strip(arg) {
            Expr::Path(p) => match path_segs(&p.path).iter().map(|s| s.as_str()).collect::<Vec<_>>().as_slice() {
                ["CompactLength", "ZERO"] => ("length", Some(L::a("0"))),
                ["CompactLength", "AUTO"] => ("auto", None),
                _ => return Err(format!("unrecognised length payload `{}`", quote::quote!(#arg))),
            },
            Expr::Call(c) => {
                let f = match &*c.func {
                    Expr::Path(p) => path_segs(&p.path),
                    _ => return Err("unrecognised length payload".into()),
                };
                let a: Vec<&Expr> = c.args.iter().collect();
                match (f.iter().map(|s| s.as_str()).collect::<Vec<_>>().as_slice(), a.len()) {
                    (["CompactLength", "length"], 1) => ("length", Some(self.expr(a[0], &Ty::F32)?.0)),
                    (["CompactLength", "percent"], 1) => ("percent", Some(self.expr(a[0], &Ty::F32)?.0)),
                    (["CompactLength", "auto"], 0) => ("auto", None),
                    _ => return Err(format!("unrecognised length payload `{}`", quote::quote!(#arg))),
                }
            }
            _ => return Err(format!("unrecognised length payload `{}`", quote::quote!(#arg))),
        };
        if !has(ctor) {
            return Err(format!("{an} has no `{ctor}` value"));
        }
        Ok((L::App(format!("{lean}.{ctor}"), payload.into_iter().collect()), ty))
    }

    /// `<T as TaffyZero>::ZERO`
    pub fn trait_zero(&self, ty: &Ty) -> R<(L, Ty)> {
        self.trait_const(&ty.head(), "ZERO", ty).ok_or(format!("no translated `TaffyZero::ZERO` for {:?}", ty))
    }

    fn variant_app(&mut self, ctor: String, t: Ty, vargs: &[Ty], args: &[&Expr]) -> R<(L, Ty)> {
        let mut ls = vec![];
        for (a, vt) in args.iter().zip(vargs) {
            let (l, at) = self.expr(a, vt)?;
            if !vt.compatible(&at) {
                return Err(format!("constructor {ctor} applied to a value of type {:?}", at));
            }
            ls.push(l);
        }
        Ok((L::App(ctor, ls), t))
    }

    pub(crate) fn closure(&mut self, e: &Expr, ptys: &[Ty], expect_ret: &Ty) -> R<(L, Ty)> {
        let c = match strip(e) {
            Expr::Closure(c) => c,
            _ => return Err("a closure literal is required here".into()),
        };
        if c.inputs.len() != ptys.len() {
            return Err("closure arity".into());
        }
        let saved = self.locals.clone();
        let mut ps = vec![];
        for (p, t) in c.inputs.iter().zip(ptys) {
            let p = match p {
                Pat::Type(pt) => &*pt.pat,
                p => p,
            };
            match p {
                Pat::Ident(i) => {
                    let n = self.declare(&i.ident.to_string(), t.clone(), false);
                    if t.has_unknown() {
                        ps.push(n);
                    } else {
                        ps.push(format!("({n} : {})", self.w.lean_ty(t)));
                    }
                }
                Pat::Wild(_) => ps.push("_".into()),
                _ => return Err("closure parameter pattern".into()),
            }
        }
        let r = self.expr(&c.body, expect_ret);
        self.locals = saved;
        let (b, bt) = r?;
        Ok((L::Fun(ps, Box::new(b)), bt))
    }

    /// `|| body` (closure literal without parameters, pure): the value of its body, translated like a function body of result type `ty`
    /// (early `return`s push the rest into the other branch) — absmod.rs
    pub(crate) fn thunk_value(&mut self, e: &Expr, ty: &Ty) -> R<L> {
        let c = match strip(e) {
            Expr::Closure(c) if c.inputs.is_empty() => c,
            _ => return Err("a closure literal without parameters is required here".into()),
        };
        let saved_locals = self.locals.clone();
        let saved = (self.prog.take(), self.ret, self.ret_ty.clone(), self.mut_param.take());
        self.ret = RetMode::Plain;
        self.ret_ty = ty.clone();
        let r = match &*c.body {
            Expr::Block(b) => self.seq(&b.block.stmts, true, &[]),
            other => self.tail_value(other),
        };
        self.locals = saved_locals;
        self.prog = saved.0;
        self.ret = saved.1;
        self.ret_ty = saved.2;
        self.mut_param = saved.3;
        r
    }

    fn method_call(&mut self, m: &syn::ExprMethodCall, expect: &Ty) -> R<(L, Ty)> {
        let name = m.method.to_string();
        let args: Vec<&Expr> = m.args.iter().collect();
        // inside an arm of the tag-match shape: `self.0.value()` is the payload of the constructor
        if let Some(payload) = &self.tag_payload {
            if let Some(inner) = self.self_dot_zero_method(&Expr::MethodCall(m.clone())) {
                return match (inner.as_str(), payload) {
                    ("value", Some(v)) => Ok((L::A(v.clone()), Ty::F32)),
                    ("value", None) => Err("`self.0.value()` in the arm of a tag without payload".into()),
                    (other, _) => Err(format!("`self.0.{other}()` inside a tag arm")),
                };
            }
        }
        // blockmod.rs (opt-in): the pure reads of the tree (`get_block_child_style`, `child_count`, …) are function parameters
        if self.is_tree_expr(&m.receiver) {
            if let Some(r) = self.block_tree_read(m)? {
                return Ok(r);
            }
        }
        if self.is_tree_expr(&m.receiver) {
            return Err(format!("`{}` is an interaction with the tree: only `let x = tree.m(..);`, `tree.m(..);` and a tail call are in the fragment", quote::quote!(#m)));
        }
        // loops.rs (opt-in): list / iterator methods, filtered views
        if let Some(r) = self.ext_method(m, expect)? {
            return Ok(r);
        }
        // blockmod.rs (opt-in): iterator chains over lists (`map filter enumerate all collect` with tuple-pattern closures)
        if let Some(r) = self.block_method(m, expect)? {
            return Ok(r);
        }
        let (recv, rt) = self.expr(&m.receiver, &Ty::Unknown)?;
        // a style seen through one trait (`style: &impl CoreStyle`): only that trait's getters
        let view: Option<String> = match strip(&m.receiver) {
            Expr::Path(p) => p.path.get_ident().and_then(|i| self.views.get(&i.to_string()).cloned()),
            _ => None,
        };
        // translated methods first
        if let Some(sigs) = self.w.fns.get(&(rt.head(), name.clone())) {
            let view_core = self.view_core || self.ext.view_super_core;
            let sigs: Vec<FnSig> = sigs.iter().filter(|s| view.as_ref().map(|v| s.lean.contains(&format!(".{v}.")) || (view_core && s.lean.contains(".CoreStyle."))).unwrap_or(true)).cloned().collect();
            for sig in sigs.clone() {
                if let Some(st) = &sig.self_ty {
                    let mut sub = HashMap::new();
                    if st.unify(&rt, &mut sub) && sig.params.len() + sig.dropped == args.len() && !sig.mut_self && !sig.prog {
                        // overloads (MaybeMath): the first argument's type selects the impl
                        if sigs.len() > 1 && !args.is_empty() && !sig.params.is_empty() && !matches!(sig.params[0].1, Ty::Fn(..)) {
                            if let Ok((_, at)) = self.expr(args[0], &sig.params[0].1.subst_vars(&sub)) {
                                if !sig.params[0].1.subst_vars(&sub).compatible(&at) {
                                    continue;
                                }
                            } else {
                                continue;
                            }
                        }
                        // flexprog.rs (opt-in with the block fragment): the expected type fixes the type variables of the result
                        // (`size.map(|s| s.into())` at an expected `Size<Option<f32>>`: the closure's result type)
                        if self.ext.block && !expect.has_unknown() {
                            let mut sub2 = sub.clone();
                            if sig.ret.unify(expect, &mut sub2) {
                                sub = sub2;
                            }
                        }
                        let mut ls = vec![recv];
                        ls.extend(self.args_of_s(&sig, &args, &format!("{}::{name}", rt.head()), &mut sub)?);
                        return Ok((self.apply_sig(&sig, ls), sig.ret.subst_vars(&sub)));
                    }
                }
            }
            if view.is_some() && sigs.is_empty() {
                return Err(format!("`{name}` is not a translated getter of the trait the style is seen through"));
            }
        }
        let one = |s: &mut Self, pt: &Ty| -> R<(L, Ty)> {
            if args.len() != 1 {
                return Err(format!("method `{name}` takes one argument"));
            }
            let (l, t) = s.expr(args[0], pt)?;
            if !pt.compatible(&t) {
                return Err(format!("argument of `{name}` has type {:?}", t));
            }
            Ok((l, t))
        };
        match (&rt, name.as_str()) {
            (Ty::F32, "min") => Ok((L::app("Num.fmin", vec![recv, one(self, &Ty::F32)?.0]), Ty::F32)),
            (Ty::F32, "max") => Ok((L::app("Num.fmax", vec![recv, one(self, &Ty::F32)?.0]), Ty::F32)),
            (Ty::F32, "abs" | "round" | "floor" | "ceil") if args.is_empty() => Ok((L::app(&format!("Num.{name}"), vec![recv]), Ty::F32)),
            (Ty::Opt(_), "is_some") if args.is_empty() => Ok((L::app("Option.isSome", vec![recv]), Ty::Bool)),
            (Ty::Opt(_), "is_none") if args.is_empty() => Ok((L::app("Option.isNone", vec![recv]), Ty::Bool)),
            (Ty::Opt(t), "unwrap_or") => {
                let (d, dt) = one(self, t)?;
                Ok((L::app("Option.getD", vec![recv, d]), t.join(&dt)))
            }
            (Ty::Opt(_), "or") => {
                let (d, dt) = one(self, &rt)?;
                Ok((L::app("Option.or", vec![recv, d]), rt.join(&dt)))
            }
            // `o.unwrap_or_else(|| body)` / `o.or_else(|| body)` with a pure closure literal without parameters (its body may use early
            // `return`s: translated like a function body) — absmod.rs. Pure, so evaluating the default eagerly is the same value.
            (Ty::Opt(t), "unwrap_or_else") if args.len() == 1 => {
                let d = self.thunk_value(args[0], t)?;
                Ok((L::app("Option.getD", vec![recv, d]), (**t).clone()))
            }
            (Ty::Opt(_), "or_else") if args.len() == 1 => {
                let d = self.thunk_value(args[0], &rt)?;
                let v = self.fresh_name("v");
                Ok((L::Match(vec![recv], vec![(vec![format!("(some {v})")], L::app("some", vec![L::A(v.clone())])), (vec!["none".into()], d)]), rt.clone()))
            }
            (Ty::Opt(t), "map") if args.len() == 1 => {
                let exp_ret = match expect {
                    Ty::Opt(x) => (**x).clone(),
                    _ => Ty::Unknown,
                };
                let (f, ft) = self.fn_value(args[0], &[(**t).clone()], &exp_ret)?;
                Ok((L::app("Option.map", vec![f, recv]), Ty::opt(ft)))
            }
            (Ty::Opt(t), "filter") if args.len() == 1 => {
                let (f, ft) = self.closure(args[0], &[(**t).clone()], &Ty::Bool)?;
                if ft != Ty::Bool {
                    return Err("`filter` closure does not return bool".into());
                }
                Ok((L::app("Option.filter", vec![f, recv]), rt.clone()))
            }
            (Ty::List(_), "iter") if args.is_empty() => Ok((recv, rt.clone())),
            (Ty::List(t), "flatten") if args.is_empty() => match &**t {
                Ty::Opt(x) => Ok((L::app("List.filterMap", vec![L::a("id"), recv]), Ty::List(x.clone()))),
                _ => Err("`flatten` on a list of non-options".into()),
            },
            (Ty::List(t), "any") if args.len() == 1 => {
                let (f, ft) = self.closure(args[0], &[(**t).clone()], &Ty::Bool)?;
                if ft != Ty::Bool {
                    return Err("`any` closure does not return bool".into());
                }
                Ok((L::app("List.any", vec![recv, f]), Ty::Bool))
            }
            _ => Err(format!("method `{name}` on {:?} is not in the whitelist", rt)),
        }
    }

    /// the expression is the tree parameter of a function translated in interaction form
    pub(crate) fn is_tree_expr(&self, e: &Expr) -> bool {
        match (strip(e), self.prog.as_ref().and_then(|p| p.tree_param.as_ref())) {
            (Expr::Path(p), Some(t)) => p.path.is_ident(t.as_str()),
            _ => false,
        }
    }
    /// a closure parameter whose calls are interactions
    pub(crate) fn is_interaction_name(&self, n: &str) -> bool {
        self.sub_programs.contains_key(n) || self.prog.as_ref().map(|p| p.closures.contains_key(n)).unwrap_or(false)
    }

    /// `self.0.<m>()` → Some(m)
    pub(crate) fn self_dot_zero_method(&self, e: &Expr) -> Option<String> {
        if let Expr::MethodCall(m) = e {
            if !m.args.is_empty() {
                return None;
            }
            if let Expr::Field(f) = strip(&m.receiver) {
                if let (Expr::Path(p), syn::Member::Unnamed(i)) = (strip(&f.base), &f.member) {
                    if p.path.is_ident("self") && i.index == 0 {
                        return Some(m.method.to_string());
                    }
                }
            }
        }
        None
    }

    // ------------------------------------------------------------------------------------------ patterns
    /// alternatives (nested or-patterns are expanded); bindings are declared in `self.locals`
    pub fn pat(&mut self, p: &Pat, t: &Ty, rename: bool) -> R<Vec<String>> {
        match p {
            Pat::Wild(_) => Ok(vec!["_".into()]),
            Pat::Paren(x) => self.pat(&x.pat, t, rename),
            Pat::Or(o) => {
                let mut out = vec![];
                for c in &o.cases {
                    out.extend(self.pat(c, t, rename)?);
                }
                Ok(out)
            }
            Pat::Ident(i) => {
                if i.subpat.is_some() {
                    return Err("`@` pattern".into());
                }
                let n = i.ident.to_string();
                if n == "None" {
                    return Ok(vec!["none".into()]);
                }
                if let Some((l, _, args)) = self.variant_lookup(None, &n) {
                    if args.is_empty() && n.chars().next().unwrap().is_uppercase() {
                        return Ok(vec![l]);
                    }
                }
                let ln = self.declare(&n, t.clone(), rename);
                Ok(vec![ln])
            }
            Pat::Path(pp) => {
                let segs = path_segs(&pp.path);
                let name = segs.last().unwrap();
                let tn = if segs.len() >= 2 { self.type_of_segment(&segs[segs.len() - 2]).map(|t| t.head()) } else { None };
                if let Some((l, _, args)) = self.variant_lookup(tn.as_deref(), name) {
                    if args.is_empty() {
                        return Ok(vec![l]);
                    }
                }
                Err(format!("unsupported path pattern `{}`", quote::quote!(#pp)))
            }
            Pat::TupleStruct(ts) => {
                let segs = path_segs(&ts.path);
                let name = segs.last().unwrap().clone();
                let (ctor, argtys): (String, Vec<Ty>) = if name == "Some" && segs.len() == 1 {
                    let inner = match t {
                        Ty::Opt(x) => (**x).clone(),
                        _ => Ty::Unknown,
                    };
                    ("some".into(), vec![inner])
                } else {
                    let tn = if segs.len() >= 2 { self.type_of_segment(&segs[segs.len() - 2]).map(|t| t.head()) } else { None };
                    let (l, _, args) = self.variant_lookup(tn.as_deref(), &name).ok_or(format!("unknown constructor pattern {name}"))?;
                    (l, args)
                };
                if argtys.len() != ts.elems.len() {
                    return Err("constructor pattern arity".into());
                }
                let mut alts: Vec<String> = vec![ctor];
                for (sp, st) in ts.elems.iter().zip(&argtys) {
                    let subs = self.pat(sp, st, rename)?;
                    alts = alts.iter().flat_map(|a| subs.iter().map(move |s| format!("{a} {s}"))).collect();
                }
                Ok(alts.into_iter().map(|a| format!("({a})")).collect())
            }
            Pat::Tuple(tp) => {
                let alts = self.tuple_pat(tp, t, rename)?;
                Ok(alts.into_iter().map(|v| format!("({})", v.join(", "))).collect())
            }
            // `Size { width: Some(w), height: Some(h) }`, `LayoutInput { run_mode, .. }`: the constructor applied to one
            // pattern per field of the registered structure, in its order (`_` for the fields covered by `..`)
            Pat::Struct(ps) => {
                if ps.qself.is_some() {
                    return Err("qualified struct pattern".into());
                }
                let tname = path_segs(&ps.path).last().unwrap().clone();
                let ty0 = self.type_of_segment(&tname).ok_or(format!("struct pattern of unknown type {tname}"))?;
                let (an, args) = match ty0.join(t) {
                    Ty::Adt(n, a) => (n, a),
                    _ => return Err("struct pattern of a non-struct".into()),
                };
                if let Ty::Adt(m, _) = t {
                    if *m != an {
                        return Err(format!("struct pattern of {an} against a value of type {m}"));
                    }
                }
                let adt = self.w.adt(&an).ok_or("unknown adt")?.clone();
                let fields = match &adt.kind {
                    AdtKind::Struct(f) => f.clone(),
                    _ => return Err(format!("{an} is not a struct")),
                };
                for fp in &ps.fields {
                    let n = match &fp.member {
                        syn::Member::Named(n) => n.to_string(),
                        _ => return Err("positional struct pattern".into()),
                    };
                    if !fields.iter().any(|f| f.rust == n) {
                        return Err(format!("struct {an} has no known field `{n}`"));
                    }
                }
                let mut alts: Vec<String> = vec![format!("{}.mk", adt.lean)];
                for f in &fields {
                    let fp = ps.fields.iter().find(|fp| matches!(&fp.member, syn::Member::Named(n) if *n == f.rust));
                    let subs = match fp {
                        Some(fp) => {
                            if !self.env.enabled(&fp.attrs)? {
                                vec!["_".to_string()]
                            } else {
                                self.pat(&fp.pat, &f.ty.subst(&args), rename)?
                            }
                        }
                        None if ps.rest.is_some() => vec!["_".to_string()],
                        None => return Err(format!("struct pattern of {an} lacks field `{}`", f.rust)),
                    };
                    alts = alts.iter().flat_map(|a| subs.iter().map(move |s| format!("{a} {s}"))).collect();
                }
                Ok(alts.into_iter().map(|a| format!("({a})")).collect())
            }
            Pat::Lit(l) => match &*l.lit.clone().into_token_stream_string() {
                s if s.chars().all(|c| c.is_ascii_digit()) => Ok(vec![s.to_string()]),
                "true" => Ok(vec!["true".into()]),
                "false" => Ok(vec!["false".into()]),
                _ => Err("unsupported literal pattern".into()),
            },
            _ => Err(format!("unsupported pattern `{}`", quote::quote!(#p))),
        }
    }

    /// component-wise alternatives of a tuple pattern
    pub(crate) fn tuple_pat(&mut self, tp: &syn::PatTuple, t: &Ty, rename: bool) -> R<Vec<Vec<String>>> {
        let n = tp.elems.len();
        let tys: Vec<Ty> = match t {
            Ty::Tuple(v) if v.len() == n => v.clone(),
            _ => vec![Ty::Unknown; n],
        };
        let mut alts: Vec<Vec<String>> = vec![vec![]];
        for (sp, st) in tp.elems.iter().zip(&tys) {
            let subs = self.pat(sp, st, rename)?;
            let mut next = vec![];
            for a in &alts {
                for s in &subs {
                    let mut x = a.clone();
                    x.push(s.clone());
                    next.push(x);
                }
            }
            alts = next;
        }
        Ok(alts)
    }
}

trait TokStr {
    fn into_token_stream_string(self) -> String;
}
impl TokStr for syn::Lit {
    fn into_token_stream_string(self) -> String {
        quote::quote!(#self).to_string()
    }
}

