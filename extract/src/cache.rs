//! src/tree/cache.rs  →  Generated/Cache.lean
use crate::emit::{check_adt, impl_items, impls, Out};
use crate::expr::Ctx;
use crate::lean::{ident, Ty, World};
use crate::util::{parse_file, CfgEnv};
use std::collections::HashMap;
use syn::visit::Visit;
use syn::{Expr, ImplItem, Item, Stmt};

pub const REQUIRED: &[&str] = &["CACHE_SIZE", "new", "compute_cache_slot", "get", "store", "clear", "is_empty", "get_final_compatible", "get_measure_compatible"];

#[derive(Default)]
struct Finder<'s> {
    filters: Vec<&'s Expr>,
    loops: Vec<&'s syn::ExprForLoop>,
}
impl<'s> Visit<'s> for Finder<'s> {
    fn visit_expr_method_call(&mut self, m: &'s syn::ExprMethodCall) {
        if m.method == "filter" && m.args.len() == 1 {
            self.filters.push(&m.args[0]);
        }
        syn::visit::visit_expr_method_call(self, m);
    }
    fn visit_expr_for_loop(&mut self, f: &'s syn::ExprForLoop) {
        self.loops.push(f);
        syn::visit::visit_expr_for_loop(self, f);
    }
}

pub fn extract(repo: &str, w: &mut World) -> Result<String, String> {
    let file = parse_file(&format!("{repo}/src/tree/cache.rs"))?;
    let env = CfgEnv::default_build();
    for n in ["CacheEntry", "Cache", "ClearState"] {
        check_adt(w, &file.items, &env, n, false)?;
    }
    let mut out = Out::new(
        "Gen.Cache",
        "src/tree/cache.rs",
        &["TaffyVerif.Model.Cache", "TaffyVerif.Generated.AvailableSpace", "TaffyVerif.Generated.LayoutTypes"],
    );
    out.comment("TaffyVerif.Model.Cache is imported for the TYPES `CacheModel.Entry`, `CacheModel.Cache`, `CacheModel.ClearState` only");
    out.text.push('\n');
    for it in &file.items {
        if let Item::Const(c) = it {
            if env.enabled(&c.attrs)? {
                let n = c.ident.to_string();
                out.constant(w, "", &n, &n, &n, None, HashMap::new(), &c.ty, &c.expr, REQUIRED.contains(&n.as_str()));
            }
        }
    }
    let cache_ty = Ty::adt("Cache", vec![]);
    let mut v = vec![];
    impls(&file.items, &env, &[], &mut v)?;
    for info in &v {
        if info.trait_.is_none() && info.self_ty == "Cache" {
            impl_items(&mut out, w, info, &env, "Cache", Some(cache_ty.clone()), &HashMap::new(), "", REQUIRED, &[])?;
            // the compatibility predicate of each arm of `get`, as definitions of their own
            for ii in info.items {
                if let ImplItem::Fn(f) = ii {
                    if f.sig.ident == "get" && env.enabled(&f.attrs)? {
                        match predicates(w, f) {
                            Ok(t) => {
                                out.text.push_str(&t);
                                out.translated.push("get_final_compatible".into());
                                out.translated.push("get_measure_compatible".into());
                            }
                            Err(e) => out.errors.push(format!("required items `get_final_compatible` / `get_measure_compatible`: {e}")),
                        }
                    }
                }
            }
        }
    }
    out.finish(REQUIRED)
}

fn predicates(w: &World, f: &syn::ImplItemFn) -> Result<String, String> {
    let mut fd = Finder::default();
    fd.visit_block(&f.block);
    if fd.filters.len() != 1 || fd.loops.len() != 1 {
        return Err(format!("`get` has {} `.filter(..)` calls and {} `for` loops (expected 1 and 1)", fd.filters.len(), fd.loops.len()));
    }
    fn mk<'w>(w: &'w World, f: &syn::ImplItemFn) -> Result<(Ctx<'w>, String), String> {
        let mut cx = Ctx::new(w, Some(Ty::adt("Cache", vec![])), HashMap::new());
        let mut binders = String::new();
        for a in &f.sig.inputs {
            match a {
                syn::FnArg::Receiver(_) => {
                    cx.locals.insert("self".into(), (ident("self"), Ty::adt("Cache", vec![])));
                }
                syn::FnArg::Typed(t) => {
                    let n = match &*t.pat {
                        syn::Pat::Ident(i) => i.ident.to_string(),
                        _ => return Err("parameter pattern".to_string()),
                    };
                    let ty = cx.rust_ty(&t.ty)?;
                    if n != "run_mode" {
                        binders.push_str(&format!(" ({} : {})", ident(&n), crate::emit::strip_parens(&w.lean_ty(&ty))));
                    }
                    cx.locals.insert(n.clone(), (ident(&n), ty));
                }
            }
        }
        Ok((cx, binders))
    }
    let mut text = String::new();
    // (a) the closure of `.filter(..)` in the PerformLayout arm
    let (mut cx, binders) = mk(w, f)?;
    let ety = Ty::adt("CacheEntry", vec![Ty::adt("LayoutOutput", vec![])]);
    let (l, t) = cx.closure(fd.filters[0], &[ety.clone()], &Ty::Bool)?;
    if t != Ty::Bool {
        return Err("the filter closure does not return bool".into());
    }
    text.push_str(&format!(
        "/-- the closure of `.filter(..)` in the `PerformLayout` arm of `Cache::get` -/\ndef get_final_compatible {{α : Type}} [Num α]{binders} :\n    {} → Bool :=\n  {}\n\n",
        w.lean_ty(&ety),
        l.render(2, true)
    ));
    // (b) the `if` condition of the loop in the ComputeSize arm
    let (mut cx, binders) = mk(w, f)?;
    let lp = fd.loops[0];
    let (_, itt) = cx.expr(&lp.expr, &Ty::Unknown)?;
    let elem = match itt {
        Ty::List(t) => *t,
        _ => return Err("loop over a non-list".into()),
    };
    let var = match &*lp.pat {
        syn::Pat::Ident(i) => i.ident.to_string(),
        _ => return Err("loop pattern".into()),
    };
    cx.locals.insert(var.clone(), (ident(&var), elem.clone()));
    let (last, lets) = lp.body.stmts.split_last().ok_or("empty loop")?;
    let cond = match last {
        Stmt::Expr(Expr::If(i), _) => (*i.cond).clone(),
        _ => return Err("loop body does not end in an `if`".into()),
    };
    let mut stmts: Vec<Stmt> = lets.to_vec();
    stmts.push(Stmt::Expr(cond, None));
    let (l, t) = cx.block_value(&stmts, &Ty::Bool)?;
    if t != Ty::Bool {
        return Err("the loop condition is not a bool".into());
    }
    text.push_str(&format!(
        "/-- the condition of the `if` inside the loop of the `ComputeSize` arm of `Cache::get` -/\ndef get_measure_compatible {{α : Type}} [Num α]{binders}\n    ({} : {}) : Bool :=\n  {}\n\n",
        ident(&var),
        w.lean_ty(&elem),
        l.render(2, true)
    ));
    Ok(text)
}
