//! src/tree/layout.rs  →  Generated/LayoutTypes.lean
use crate::emit::{check_adt, impl_items, impls, Out};
use crate::lean::{Ty, World};
use crate::util::{parse_file, CfgEnv};
use std::collections::HashMap;

pub const REQUIRED: &[&str] = &[
    "CollapsibleMarginSet.ZERO", "CollapsibleMarginSet.from_margin", "CollapsibleMarginSet.collapse_with_margin",
    "CollapsibleMarginSet.collapse_with_set", "CollapsibleMarginSet.resolve",
    "LayoutOutput.HIDDEN", "LayoutOutput.DEFAULT", "LayoutOutput.from_sizes_and_baselines", "LayoutOutput.from_sizes", "LayoutOutput.from_outer_size",
    "Layout.new", "Layout.with_order", "LayoutInput.HIDDEN",
];

pub fn extract(repo: &str, w: &mut World) -> Result<String, String> {
    let file = parse_file(&format!("{repo}/src/tree/layout.rs"))?;
    let env = CfgEnv::default_build();
    for n in ["RunMode", "SizingMode", "RequestedAxis", "CollapsibleMarginSet", "LayoutInput", "LayoutOutput", "Layout"] {
        check_adt(w, &file.items, &env, n, false)?;
    }
    let mut out = Out::new("Gen.LayoutTypes", "src/tree/layout.rs", &["TaffyVerif.Generated.Geometry", "TaffyVerif.Generated.AvailableSpace"]);
    let mut v = vec![];
    impls(&file.items, &env, &[], &mut v)?;
    for info in &v {
        if info.trait_.is_some() {
            continue;
        }
        let n = info.self_ty.as_str();
        if ["CollapsibleMarginSet", "LayoutInput", "LayoutOutput", "Layout"].contains(&n) {
            impl_items(&mut out, w, info, &env, n, Some(Ty::adt(n, vec![])), &HashMap::new(), &format!("{n}."), REQUIRED, &[])?;
        }
    }
    out.finish(REQUIRED)
}
