//! src/util/math.rs  →  Generated/MaybeMath.lean
//! The five `MaybeMath` impls get the prefixes the hand-written model uses: oo_ of_ fo_ af_ ao_
//! (self type ∘ argument type; o = Option<f32>, f = f32, a = AvailableSpace). The generic `Size<T>` impl is instantiated
//! at each of the five.
use crate::emit::{impl_items, impls, Out};
use crate::lean::{Ty, World};
use crate::util::{parse_file, CfgEnv};
use std::collections::HashMap;

const OPS: &[&str] = &["maybe_min", "maybe_max", "maybe_clamp", "maybe_add", "maybe_sub"];

pub fn required() -> Vec<String> {
    let mut v = vec![];
    for p in ["oo", "of", "fo", "af", "ao"] {
        for o in OPS {
            v.push(format!("{p}_{o}"));
        }
    }
    v
}

pub fn extract(repo: &str, w: &mut World) -> Result<String, String> {
    let file = parse_file(&format!("{repo}/src/util/math.rs"))?;
    let env = CfgEnv::default_build();
    let req = required();
    let req_refs: Vec<&str> = req.iter().map(|s| s.as_str()).collect();
    let mut out = Out::new("Gen.MaybeMath", "src/util/math.rs", &["TaffyVerif.Generated.Prelude"]);
    let f = Ty::F32;
    let o = Ty::opt(Ty::F32);
    let a = Ty::adt("AvailableSpace", vec![]);
    // (self type, trait, prefix, Self, In, Out)
    let table: Vec<(&str, &str, &str, Ty, Ty, Ty)> = vec![
        ("Option<f32>", "MaybeMath<Option<f32>,Option<f32>>", "oo", o.clone(), o.clone(), o.clone()),
        ("Option<f32>", "MaybeMath<f32,Option<f32>>", "of", o.clone(), f.clone(), o.clone()),
        ("f32", "MaybeMath<Option<f32>,f32>", "fo", f.clone(), o.clone(), f.clone()),
        ("AvailableSpace", "MaybeMath<f32,AvailableSpace>", "af", a.clone(), f.clone(), a.clone()),
        ("AvailableSpace", "MaybeMath<Option<f32>,AvailableSpace>", "ao", a.clone(), o.clone(), a.clone()),
    ];
    let mut v = vec![];
    impls(&file.items, &env, &[], &mut v)?;
    let mut seen = 0;
    for info in &v {
        for (st, tr, prefix, sty, _, _) in &table {
            if info.self_ty == *st && info.trait_.as_deref() == Some(*tr) {
                seen += 1;
                impl_items(&mut out, w, info, &env, &sty.head(), Some(sty.clone()), &HashMap::new(), &format!("{prefix}_"), &req_refs, &[])?;
            }
        }
    }
    if seen != 5 {
        return Err(format!("expected the five MaybeMath impls, found {seen}"));
    }
    out.comment("`impl<In, Out, T: MaybeMath<In, Out>> MaybeMath<Size<In>, Size<Out>> for Size<T>`, instantiated at each of the five impls above");
    out.text.push('\n');
    for info in &v {
        if info.self_ty == "Size<T>" && info.trait_.as_deref() == Some("MaybeMath<Size<In>,Size<Out>>") {
            for (_, _, prefix, sty, inty, outty) in &table {
                let g: HashMap<String, Ty> = [("T".to_string(), sty.clone()), ("In".to_string(), inty.clone()), ("Out".to_string(), outty.clone())].into_iter().collect();
                impl_items(&mut out, w, info, &env, "Size", Some(Ty::adt("Size", vec![sty.clone()])), &g, &format!("Size.{prefix}_"), &[], &[])?;
            }
        }
    }
    out.finish(&req_refs)
}
