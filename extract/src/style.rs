//! src/style/mod.rs (+ dimension.rs, block.rs, the constant traits of src/style_helpers.rs at the style lengths)  →  Generated/Style.lean
//!
//! * the payload-free style enums of Model/Style.lean are compared with the source (`check_adt`);
//! * `struct Style` is compared with the Lean structure `Style α` (the 28 non-grid fields one to one, the 7 grid fields against
//!   `GridExt α`), and `Style::DEFAULT` is translated field by field, so that `TieStyle.default_eq` pins `Style.default` to the source;
//! * the constructor side of the abstract lengths (`LengthPercentage(CompactLength::length(v))` ↦ `LP.length v`, …) after the
//!   `CompactLength` constructors have been compared with the tags the tag-match convention of resolve.rs relies on;
//! * `impl Overflow`, and every getter of the style traits as implemented for `Style` (they must be plain field reads).
use crate::emit::{check_adt, impl_items, impls, norm, ImplInfo, Out, Plan};
use crate::expr::Ctx;
use crate::lean::{ident, Adt, AdtKind, Ty, Variant, World};
use crate::util::{parse_file, CfgEnv};
use std::collections::HashMap;
use syn::{ImplItem, Item};

const LENS: &[&str] = &["LengthPercentage", "LengthPercentageAuto", "Dimension"];
const AUTOS: &[&str] = &["LengthPercentageAuto", "Dimension"];

const CORE_GETTERS: &[&str] = &[
    "box_generation_mode", "is_block", "is_compressible_replaced", "box_sizing", "overflow", "scrollbar_width", "position", "inset", "size",
    "min_size", "max_size", "aspect_ratio", "margin", "padding", "border",
];

pub fn required() -> Vec<String> {
    let mut v: Vec<String> = vec![];
    for l in LENS {
        v.push(format!("{l}.TaffyZero_ZERO"));
        v.push(format!("{l}.length"));
        v.push(format!("{l}.percent"));
    }
    for l in AUTOS {
        v.push(format!("{l}.TaffyAuto_AUTO"));
        v.push(format!("{l}.auto"));
    }
    for s in [
        "Rect_LengthPercentageAuto.auto", "Rect_LengthPercentageAuto.zero", "Rect_LengthPercentage.zero", "Size_Dimension.auto", "Size_LengthPercentage.zero",
        "Overflow.is_scroll_container", "Overflow.maybe_into_automatic_min_size", "Display.DEFAULT", "Style.DEFAULT",
        "BlockContainerStyle.text_align", "BlockItemStyle.is_table",
        "FlexboxContainerStyle.flex_direction", "FlexboxContainerStyle.flex_wrap", "FlexboxContainerStyle.gap", "FlexboxContainerStyle.align_content",
        "FlexboxContainerStyle.align_items", "FlexboxContainerStyle.justify_content",
        "FlexboxItemStyle.flex_basis", "FlexboxItemStyle.flex_grow", "FlexboxItemStyle.flex_shrink", "FlexboxItemStyle.align_self",
        "GridContainerStyle.gap", "GridContainerStyle.align_content", "GridContainerStyle.justify_content", "GridContainerStyle.align_items",
        "GridContainerStyle.justify_items", "GridItemStyle.align_self", "GridItemStyle.justify_self",
    ] {
        v.push(s.to_string());
    }
    for g in CORE_GETTERS {
        v.push(format!("CoreStyle.{g}"));
    }
    v
}

/// body of a function / value of a constant of an `impl` (inherent when `trait_` is None), as a whitespace-free token string
fn impl_member(v: &[ImplInfo], self_ty: &str, trait_: Option<&str>, name: &str, env: &CfgEnv) -> Result<String, String> {
    for info in v {
        if info.self_ty == self_ty && info.trait_.as_deref() == trait_ {
            for ii in info.items {
                match ii {
                    ImplItem::Fn(f) if f.sig.ident == name && env.enabled(&f.attrs)? => return Ok(norm(&f.block)),
                    ImplItem::Const(c) if c.ident == name && env.enabled(&c.attrs)? => return Ok(norm(&c.expr)),
                    _ => {}
                }
            }
        }
    }
    Err(format!("`{self_ty}::{name}` not found"))
}

pub(crate) fn expect_member(v: &[ImplInfo], self_ty: &str, trait_: Option<&str>, name: &str, env: &CfgEnv, want: &str) -> Result<(), String> {
    let got = impl_member(v, self_ty, trait_, name, env)?;
    if got != want {
        return Err(format!("`{self_ty}::{name}` is `{got}`, the length-constructor convention expects `{want}`"));
    }
    Ok(())
}

/// a payload-free Rust enum without a counterpart type in the models: the Lean inductive is generated from the source
fn emit_enum(out: &mut Out, w: &mut World, items: &[Item], env: &CfgEnv, name: &str) -> Result<(), String> {
    for it in items {
        if let Item::Enum(e) = it {
            if e.ident == name {
                let mut vars = vec![];
                for v in &e.variants {
                    if env.enabled(&v.attrs)? {
                        if !v.fields.is_empty() {
                            return Err(format!("enum {name}: variant with payload"));
                        }
                        let r = v.ident.to_string();
                        let mut c = r.chars();
                        let l = c.next().unwrap().to_lowercase().collect::<String>() + c.as_str();
                        vars.push(Variant { rust: r, lean: l, args: vec![] });
                    }
                }
                let derives = e.attrs.iter().filter(|a| a.path().is_ident("derive")).map(|a| norm(a)).collect::<Vec<_>>().join(" ");
                if !derives.contains("PartialEq") {
                    return Err(format!("enum {name} does not derive PartialEq"));
                }
                out.text.push_str(&format!(
                    "/-- `enum {name}` — generated from the source (the models have no type for it) -/\ninductive {name} where\n  | {}\nderiving Repr, BEq, DecidableEq, Inhabited\n\n",
                    vars.iter().map(|v| v.lean.clone()).collect::<Vec<_>>().join(" | ")
                ));
                w.adts.push(Adt { rust: name.into(), lean: format!("{}.{name}", out.ns), alpha: false, nparams: 0, kind: AdtKind::Enum(vars) });
                return Ok(());
            }
        }
    }
    Err(format!("definition of {name} not found"))
}

const GRID_FIELDS: &[(&str, &str, &str)] = &[
    ("grid_template_rows", "templateRows", "GridTrackVec<TrackSizingFunction>"),
    ("grid_template_columns", "templateColumns", "GridTrackVec<TrackSizingFunction>"),
    ("grid_auto_rows", "autoRows", "GridTrackVec<NonRepeatedTrackSizingFunction>"),
    ("grid_auto_columns", "autoColumns", "GridTrackVec<NonRepeatedTrackSizingFunction>"),
    ("grid_auto_flow", "autoFlow", "GridAutoFlow"),
    ("grid_row", "row", "Line<GridPlacement>"),
    ("grid_column", "column", "Line<GridPlacement>"),
];

/// `struct Style`: the non-grid fields against the registry entry (= the Lean structure), the grid fields against `GridExt`
fn check_style_struct(w: &World, items: &[Item], env: &CfgEnv) -> Result<(), String> {
    let adt = w.adt("Style").ok_or("no registry entry for Style")?;
    let fields = match &adt.kind {
        AdtKind::Struct(f) => f,
        _ => return Err("Style is not a struct in the registry".into()),
    };
    for it in items {
        if let Item::Struct(s) = it {
            if s.ident == "Style" {
                let cx = Ctx::new(w, None, HashMap::new());
                let mut got = vec![];
                let mut grid = vec![];
                for f in &s.fields {
                    if env.enabled(&f.attrs)? {
                        let n = f.ident.as_ref().ok_or("tuple struct")?.to_string();
                        if n.starts_with("grid_") {
                            grid.push((n, norm(&f.ty)));
                        } else {
                            got.push((n, cx.rust_ty(&f.ty)?));
                        }
                    }
                }
                let want: Vec<(String, Ty)> = fields.iter().map(|f| (f.rust.clone(), f.ty.clone())).collect();
                if got != want {
                    return Err(format!("struct Style changed: source has {:?}, the Lean structure has {:?}", got, want));
                }
                let want_grid: Vec<(String, String)> = GRID_FIELDS.iter().map(|(r, _, t)| (r.to_string(), t.to_string())).collect();
                if grid != want_grid {
                    return Err(format!("struct Style changed (grid fields): source has {:?}, `GridExt` mirrors {:?}", grid, want_grid));
                }
                return Ok(());
            }
        }
    }
    Err("definition of Style not found".into())
}

/// `Style::DEFAULT`, field by field
fn style_default(out: &mut Out, w: &mut World, e: &syn::Expr, env: &CfgEnv) -> Result<(), String> {
    let lit = match e {
        syn::Expr::Struct(s) if s.rest.is_none() && norm(&s.path) == "Style" => s,
        _ => return Err("Style::DEFAULT is not a plain `Style { … }` literal".into()),
    };
    let fields = match &w.adt("Style").unwrap().kind {
        AdtKind::Struct(f) => f.clone(),
        _ => unreachable!(),
    };
    let style_ty = Ty::adt("Style", vec![]);
    let mut cx = Ctx::new(w, Some(style_ty.clone()), HashMap::new());
    let mut plain: Vec<(String, String)> = vec![];
    let mut grid: Vec<(String, String)> = vec![];
    for fv in &lit.fields {
        if !env.enabled(&fv.attrs)? {
            continue;
        }
        let name = match &fv.member {
            syn::Member::Named(n) => n.to_string(),
            _ => return Err("positional field in Style::DEFAULT".into()),
        };
        if let Some((_, lean, _)) = GRID_FIELDS.iter().find(|g| g.0 == name) {
            let src = norm(&fv.expr);
            let v = match src.as_str() {
                "GridTrackVec::new()" => "[]".to_string(),
                "Line{start:GridPlacement::Auto,end:GridPlacement::Auto}" => "(Line.mk (start := GridPlacement.Placement.auto) («end» := GridPlacement.Placement.auto))".to_string(),
                _ => {
                    let (l, t) = cx.expr(&fv.expr, &Ty::adt("GridAutoFlow", vec![])).map_err(|e| format!("Style::DEFAULT.{name} = `{src}`: {e}"))?;
                    if t != Ty::adt("GridAutoFlow", vec![]) || name != "grid_auto_flow" {
                        return Err(format!("Style::DEFAULT.{name} = `{src}` is not a recognised grid default"));
                    }
                    l.render(6, true)
                }
            };
            if (name == "grid_auto_flow") == (src == "GridTrackVec::new()" || src.starts_with("Line{")) {
                return Err(format!("Style::DEFAULT.{name} = `{src}` has the wrong shape for that field"));
            }
            if (name == "grid_row" || name == "grid_column") != src.starts_with("Line{") {
                return Err(format!("Style::DEFAULT.{name} = `{src}` has the wrong shape for that field"));
            }
            grid.push((lean.to_string(), v));
            continue;
        }
        let fd = fields.iter().find(|f| f.rust == name).ok_or(format!("Style::DEFAULT sets the unknown field `{name}`"))?;
        let (l, t) = cx.expr(&fv.expr, &fd.ty).map_err(|e| format!("Style::DEFAULT.{name}: {e}"))?;
        if !fd.ty.compatible(&t) {
            return Err(format!("Style::DEFAULT.{name}: value of type {:?}, field of type {:?}", t, fd.ty));
        }
        plain.push((fd.lean.clone(), l.render(6, true)));
    }
    for f in &fields {
        if !plain.iter().any(|(n, _)| *n == f.lean) {
            return Err(format!("Style::DEFAULT lacks field `{}`", f.rust));
        }
    }
    for (_, lean, _) in GRID_FIELDS {
        if !grid.iter().any(|(n, _)| n == lean) {
            return Err(format!("Style::DEFAULT lacks the grid field mirrored by `GridExt.{lean}`"));
        }
    }
    let mut text = String::from("/-- `Style::DEFAULT` (the seven grid fields are the Lean field `grid : GridExt α`) -/\ndef Style.DEFAULT {α : Type} [Num α] : Style α :=\n  { ");
    let mut parts: Vec<String> = plain.iter().map(|(n, v)| format!("{n} := {v}")).collect();
    parts.push(format!("grid := {{ {} }}", grid.iter().map(|(n, v)| format!("{n} := {v}")).collect::<Vec<_>>().join(", ")));
    text.push_str(&parts.join("\n    "));
    text.push_str(" }\n\n");
    out.text.push_str(&text);
    out.translated.push("Style.DEFAULT".into());
    let full = format!("{}.Style.DEFAULT", out.ns);
    w.consts.insert(("Style".into(), "DEFAULT".into()), (full, style_ty, true));
    Ok(())
}

pub fn extract(repo: &str, w: &mut World) -> Result<String, String> {
    let env = CfgEnv::default_build();
    let req = required();
    let req_refs: Vec<&str> = req.iter().map(|s| s.as_str()).collect();
    let modrs = parse_file(&format!("{repo}/src/style/mod.rs"))?;
    let block = parse_file(&format!("{repo}/src/style/block.rs"))?;
    let grid = parse_file(&format!("{repo}/src/style/grid.rs"))?;
    let dim = parse_file(&format!("{repo}/src/style/dimension.rs"))?;
    let cl = parse_file(&format!("{repo}/src/style/compact_length.rs"))?;
    let sh = parse_file(&format!("{repo}/src/style_helpers.rs"))?;
    for n in ["Display", "Position", "BoxSizing", "Overflow"] {
        check_adt(w, &modrs.items, &env, n, true)?;
    }
    check_adt(w, &block.items, &env, "TextAlign", true)?;
    check_adt(w, &grid.items, &env, "GridAutoFlow", true)?;
    check_style_struct(w, &modrs.items, &env)?;

    let mut out = Out::new("Gen.Style", "src/style/mod.rs, src/style/dimension.rs, src/style_helpers.rs (constant traits at the style lengths)", &["TaffyVerif.Generated.Geometry", "TaffyVerif.Model.Style"]);
    out.comment("TaffyVerif.Model.Style is imported for the TYPES (Style, its enums, LP / LPA, GridExt) only.");
    out.comment("Length constructors ↦ abstract constructors: X(CompactLength::length(v)) ↦ .length v, X(CompactLength::percent(v)) ↦ .percent v,");
    out.comment("X(CompactLength::auto()) / X(CompactLength::AUTO) ↦ .auto, X(CompactLength::ZERO) ↦ .length 0 — after comparing CompactLength::{length,");
    out.comment("percent, auto, ZERO, AUTO} with the source: they build the tags LENGTH_TAG / PERCENT_TAG / AUTO_TAG that the tag-match convention reads (C18).");
    out.text.push('\n');

    // 1. the `CompactLength` constructors build the tags the tag-match convention (resolve.rs) maps to the same abstract constructors
    let mut clv = vec![];
    impls(&cl.items, &env, &[], &mut clv)?;
    expect_member(&clv, "CompactLength", None, "length", &env, "{Self(CompactLengthInner::from_val(val,Self::LENGTH_TAG))}")?;
    expect_member(&clv, "CompactLength", None, "percent", &env, "{Self(CompactLengthInner::from_val(val,Self::PERCENT_TAG))}")?;
    expect_member(&clv, "CompactLength", None, "auto", &env, "{Self(CompactLengthInner::from_tag(Self::AUTO_TAG))}")?;
    expect_member(&clv, "CompactLength", Some("TaffyZero"), "ZERO", &env, "Self::length(0.0)")?;
    expect_member(&clv, "CompactLength", Some("TaffyAuto"), "AUTO", &env, "Self::auto()")?;
    w.length_ctors_checked = true;

    // 2. dimension.rs: the constant traits and the inherent constructors of the three length wrappers
    let mut dv = vec![];
    impls(&dim.items, &env, &[], &mut dv)?;
    for info in &dv {
        let n = info.self_ty.as_str();
        if !LENS.contains(&n) {
            continue;
        }
        let st = Ty::adt(n, vec![]);
        match info.trait_.as_deref() {
            Some(tr @ ("TaffyZero" | "TaffyAuto")) => {
                for ii in info.items {
                    if let ImplItem::Const(c) = ii {
                        let name = c.ident.to_string();
                        let lean_rel = format!("{n}.{tr}_{name}");
                        let r = req_refs.contains(&lean_rel.as_str());
                        out.constant(w, n, &format!("<{tr}>::{name}"), &format!("{tr}::{name}"), &lean_rel, Some(st.clone()), HashMap::new(), &c.ty, &c.expr, r);
                    }
                }
            }
            None => {
                for ii in info.items {
                    if let ImplItem::Fn(f) = ii {
                        let name = f.sig.ident.to_string();
                        if ["length", "percent", "auto"].contains(&name.as_str()) && env.enabled(&f.attrs)? {
                            let lean_rel = format!("{n}.{}", ident(&name));
                            let r = req_refs.contains(&lean_rel.as_str());
                            out.function(w, Plan { head: n.to_string(), rust_name: name, lean_rel, self_ty: Some(st.clone()), generics: HashMap::new(), sig: &f.sig, block: &f.block, required: r, trunc_sub: false, ext: Default::default() });
                        }
                    }
                }
            }
            _ => {}
        }
    }

    // 3. style_helpers.rs: `TaffyZero` / `TaffyAuto` for `Size<T>` / `Rect<T>` and the inherent `zero()` / `auto()`, at the length types
    let mut hv = vec![];
    impls(&sh.items, &env, &[], &mut hv)?;
    for it in &sh.items {
        if let Item::Fn(ff) = it {
            if ff.sig.ident == "auto" && norm(&ff.block) != "{T::AUTO}" {
                return Err("style_helpers::auto is no longer `T::AUTO`".into());
            }
            if ff.sig.ident == "zero" && norm(&ff.block) != "{T::ZERO}" {
                return Err("style_helpers::zero is no longer `T::ZERO`".into());
            }
        }
    }
    out.comment("src/style_helpers.rs: generic `Size<T>` / `Rect<T>` impls of `TaffyZero` / `TaffyAuto`, instantiated at the style lengths");
    out.text.push('\n');
    for (tr, cname, fname, elems) in [("TaffyZero", "ZERO", "zero", LENS), ("TaffyAuto", "AUTO", "auto", AUTOS)] {
        for pass in 0..2 {
            for info in &hv {
                let cont = match info.self_ty.as_str() {
                    "Size<T>" => "Size",
                    "Rect<T>" => "Rect",
                    _ => continue,
                };
                for n in elems {
                    let g: HashMap<String, Ty> = [("T".to_string(), Ty::adt(n, vec![]))].into_iter().collect();
                    let st = Ty::adt(cont, vec![Ty::adt(n, vec![])]);
                    if pass == 0 && info.trait_.as_deref() == Some(tr) {
                        for ii in info.items {
                            if let ImplItem::Const(c) = ii {
                                if c.ident == cname {
                                    out.constant(w, cont, &format!("<{tr}>::{cname}"), &format!("{tr}::{cname}@{n}"), &format!("{cont}_{n}.{tr}_{cname}"), Some(st.clone()), g.clone(), &c.ty, &c.expr, false);
                                }
                            }
                        }
                    }
                    if pass == 1 && info.trait_.is_none() && norm(&info_bound(info)) == tr {
                        for ii in info.items {
                            if let ImplItem::Fn(f) = ii {
                                if f.sig.ident == fname {
                                    let lean_rel = format!("{cont}_{n}.{fname}");
                                    let r = req_refs.contains(&lean_rel.as_str());
                                    out.function(w, Plan { head: cont.to_string(), rust_name: fname.to_string(), lean_rel, self_ty: Some(st.clone()), generics: g.clone(), sig: &f.sig, block: &f.block, required: r, trunc_sub: false, ext: Default::default() });
                                }
                            }
                        }
                    }
                }
            }
        }
    }

    // 4. style/mod.rs
    let mut mv = vec![];
    impls(&modrs.items, &env, &[], &mut mv)?;
    for info in &mv {
        if info.trait_.is_none() && info.self_ty == "Overflow" {
            impl_items(&mut out, w, info, &env, "Overflow", Some(Ty::adt("Overflow", vec![])), &HashMap::new(), "Overflow.", &req_refs, &[])?;
        }
    }
    for info in &mv {
        if info.trait_.is_none() && info.self_ty == "Display" {
            impl_items(&mut out, w, info, &env, "Display", Some(Ty::adt("Display", vec![])), &HashMap::new(), "Display.", &req_refs, &[])?;
        }
    }
    emit_enum(&mut out, w, &modrs.items, &env, "BoxGenerationMode")?;
    for info in &mv {
        if info.trait_.is_none() && info.self_ty == "BoxGenerationMode" {
            impl_items(&mut out, w, info, &env, "BoxGenerationMode", Some(Ty::adt("BoxGenerationMode", vec![])), &HashMap::new(), "BoxGenerationMode.", &req_refs, &[])?;
        }
    }
    let mut done_default = false;
    for info in &mv {
        if info.trait_.is_none() && info.self_ty == "Style" {
            for ii in info.items {
                if let ImplItem::Const(c) = ii {
                    if c.ident == "DEFAULT" && env.enabled(&c.attrs)? {
                        style_default(&mut out, w, &c.expr, &env)?;
                        done_default = true;
                    }
                }
            }
        }
    }
    if !done_default {
        return Err("Style::DEFAULT not found".into());
    }
    // the style traits as implemented for `Style`: every getter must be in the fragment (they are plain field reads)
    out.comment("the style traits as implemented for `Style` (`BlockContainerStyle` and `GridItemStyle` are implemented for `&Style`)");
    out.text.push('\n');
    let style_ty = Ty::adt("Style", vec![]);
    for info in &mv {
        let tr = match (info.self_ty.as_str(), info.trait_.as_deref()) {
            ("Style", Some(t @ ("CoreStyle" | "BlockItemStyle" | "FlexboxContainerStyle" | "FlexboxItemStyle" | "GridContainerStyle" | "GridItemStyle"))) => t,
            ("&Style", Some(t @ "BlockContainerStyle")) | ("&'_Style", Some(t @ "GridItemStyle")) => t,
            _ => continue,
        };
        impl_items(&mut out, w, info, &env, "Style", Some(style_ty.clone()), &HashMap::new(), &format!("{tr}."), &req_refs, &[])?;
    }
    out.finish(&req_refs)
}

/// the trait bound of the single type parameter of `impl<T: Bound> X<T>` (empty when there is none)
fn info_bound(info: &ImplInfo) -> proc_macro2::TokenStream {
    info.bound.clone().unwrap_or_default()
}
