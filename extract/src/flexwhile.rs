//! Widening of loops.rs for the line / cross-axis functions of src/compute/flexbox.rs (flexmod.rs). Every rule is opt-in through
//! `LoopExt::{opt_index, whiles, shared_call_args}`; with the flags off (all other modules) nothing changes.
//!
//! * `PLACE[0].f… = e;` / `PLACE[0].f… += e;` (PLACE a local list, in a function that returns `Option`)
//!       ↦ `match PLACE with | [] => none | h :: t => let h := { h with f := e' }; let PLACE := h :: t; rest`
//!   where `PLACE[0]` inside `e` is `h` (Rust evaluates the same index; the out-of-bounds panic is the `[]` arm).
//! * `x[..]` ↦ `x`; `v.as_mut_slice()` ↦ `v`.
//! * `PLACE.iter_mut().for_each(|x| body);` ↦ the rule of `for x in PLACE.iter_mut() { body }`.
//! * `let mut v = new_vec_with_capacity(n);` ↦ `[]` at the function's result type (a `Vec` result built by `push`); `v.push(x);` ↦ `v ++ [x]`.
//! * `let (a, b) = X.split_at_mut(n);` ↦ `match <ns>.split_at_mut X n with | none => none | some (a, b) => rest`.
//! * `let i = X.iter().enumerate().find(|&(idx, x)| { …; acc += …; c }).map(|(idx, _)| idx).unwrap_or(d);` with exactly one captured
//!   local `acc` written by the closure ↦ `let r := <ns>.enumerate_find_state (fun acc idx x => (acc', c)) acc 0 X; let acc := r.2;
//!   let i := Option.getD (Option.map (fun p => p.1) r.1) d`.
//! * `while c { body }` (no `break` / `continue` / `return` inside) ↦ `<f>.while_body` (one pass: `Option` of the tuple of the outer locals
//!   the body assigns) and `<f>.while : Nat → State → Option State` (`if !c then some s else match fuel with | 0 => none | fuel + 1 =>
//!   match while_body s with | none => none | some s => while fuel s`).
use crate::expr::{Ctx, Frame, RetMode, R};
use crate::lean::{ident, Ty, L};
use crate::loops::{chain, free_in, lets, pat_ident, path_ident, strip};
use syn::{Expr, Pat, Stmt};

/// does the place expression index a slice (`x[i]`, not `x[..]`)
pub(crate) fn has_index(e: &Expr) -> bool {
    match strip(e) {
        Expr::Index(i) => !matches!(&*i.index, Expr::Range(_)) || has_index(&i.expr),
        Expr::Field(f) => has_index(&f.base),
        Expr::MethodCall(m) => has_index(&m.receiver),
        _ => false,
    }
}

fn is_lit0(e: &Expr) -> bool {
    matches!(strip(e), Expr::Lit(l) if matches!(&l.lit, syn::Lit::Int(i) if i.base10_digits() == "0"))
}

/// `PLACE[0]` inside a place expression: the name of PLACE and the expression with `PLACE[0]` replaced by the path `__head`
fn split_index0(e: &Expr) -> Option<(String, Expr)> {
    match e {
        Expr::Paren(p) => split_index0(&p.expr),
        Expr::Index(ix) if is_lit0(&ix.index) => {
            let n = path_ident(&ix.expr)?;
            Some((n, syn::parse_quote!(__head)))
        }
        Expr::Field(f) => {
            let (n, b) = split_index0(&f.base)?;
            let mut f2 = f.clone();
            f2.base = Box::new(b);
            Some((n, Expr::Field(f2)))
        }
        _ => None,
    }
}

impl<'a> Ctx<'a> {
    pub(crate) fn ext2_index(&mut self, ix: &syn::ExprIndex) -> R<(L, Ty)> {
        if self.ext.enabled && self.ext.whiles {
            if let Expr::Range(r) = &*ix.index {
                if r.start.is_none() && r.end.is_none() {
                    let (l, t) = self.expr(&ix.expr, &Ty::Unknown)?;
                    if matches!(t, Ty::List(_)) {
                        return Ok((l, t));
                    }
                }
            }
        }
        if self.ext.enabled && self.ext.opt_index && is_lit0(&ix.index) {
            if let Some(n) = path_ident(&ix.expr) {
                if let Some((_, h, t)) = self.ext.head_binds.iter().rev().find(|b| b.0 == n) {
                    return Ok((L::A(h.clone()), t.clone()));
                }
            }
        }
        Err("indexing as a value (can panic) is outside the fragment".into())
    }

    pub(crate) fn ext2_method(&mut self, m: &syn::ExprMethodCall, _expect: &Ty) -> R<Option<(L, Ty)>> {
        // `tree.get_flexbox_child_style(n)` ↦ `styleOf n`; any other use of the tree is outside the fragment
        if let Some(tree) = self.ext.calc_tree.clone() {
            if path_ident(&m.receiver).as_deref() == Some(tree.as_str()) {
                if m.method == "get_flexbox_child_style" && m.args.len() == 1 {
                    let (n, nt) = self.expr(&m.args[0], &Ty::Nat)?;
                    if nt != Ty::Nat {
                        return Err("`get_flexbox_child_style`: the argument is not a node (child index)".into());
                    }
                    return Ok(Some((L::app("styleOf", vec![n]), Ty::adt("Style", vec![]))));
                }
                return Err(format!("`{}`: the tree may only be used as the calc resolver and through `get_flexbox_child_style`", quote::quote!(#m)));
            }
        }
        if self.ext.whiles && m.method == "as_mut_slice" && m.args.is_empty() {
            let (l, t) = self.expr(&m.receiver, &Ty::Unknown)?;
            if matches!(t, Ty::List(_)) {
                return Ok(Some((l, t)));
            }
        }
        Ok(None)
    }

    pub(crate) fn ext2_stmt(&mut self, e: &Expr, conts: &[Frame]) -> R<Option<L>> {
        match e {
            Expr::Assign(a) if self.ext.opt_index && has_index(&a.left) => self.index0_assign(&a.left, &a.right, conts).map(Some),
            Expr::Binary(b) if self.ext.opt_index && has_index(&b.left) => {
                use syn::BinOp::*;
                let op = match &b.op {
                    AddAssign(_) => Add(Default::default()),
                    _ => return Err("compound assignment through an index other than `+=`".into()),
                };
                let rhs = Expr::Binary(syn::ExprBinary { attrs: vec![], left: b.left.clone(), op, right: b.right.clone() });
                self.index0_assign(&b.left, &rhs, conts).map(Some)
            }
            Expr::While(w) if self.ext.whiles => self.while_loop(w, conts).map(Some),
            Expr::MethodCall(m) => {
                // `PLACE.iter_mut().for_each(|x| body)`
                let (base, ms) = chain(e);
                if ms.len() == 2 && ms[0].0 == "iter_mut" && ms[0].1.is_empty() && ms[1].0 == "for_each" && ms[1].1.len() == 1 {
                    if let Expr::Closure(c) = strip(ms[1].1[0]) {
                        if c.inputs.len() != 1 {
                            return Err("`for_each` closure arity".into());
                        }
                        let x = pat_ident(&c.inputs[0]).ok_or("`for_each` closure parameter pattern")?;
                        let xi = syn::Ident::new(&x, proc_macro2::Span::call_site());
                        let body = &c.body;
                        let fl: syn::ExprForLoop = match &**body {
                            Expr::Block(b) => {
                                let blk = &b.block;
                                syn::parse_quote!(for #xi in #base.iter_mut() #blk)
                            }
                            _ => syn::parse_quote!(for #xi in #base.iter_mut() { #body; }),
                        };
                        return self.for_loop(&fl, conts).map(Some);
                    }
                }
                // `v.push(x);`
                if self.ext.whiles && m.method == "push" && m.args.len() == 1 {
                    if let Some(v) = path_ident(&m.receiver) {
                        if let Some((vl, Ty::List(t))) = self.locals.get(&v).cloned() {
                            let (x, xt) = self.expr(&m.args[0], &t)?;
                            if !t.compatible(&xt) {
                                return Err(format!("`push` of a value of type {:?} onto a list of {:?}", xt, t));
                            }
                            let b = self.cont(conts)?;
                            return Ok(Some(L::Let(vl.clone(), Box::new(L::Bin("++".into(), Box::new(L::A(vl)), Box::new(L::A(format!("[{}]", x.render(6, true)))))), Box::new(b))));
                        }
                    }
                }
                Ok(None)
            }
            _ => Ok(None),
        }
    }

    fn index0_assign(&mut self, lhs: &Expr, rhs: &Expr, conts: &[Frame]) -> R<L> {
        if !self.ext.fueled {
            return Err("an index statement inside a loop body / a joined `if` (the out-of-bounds outcome cannot be returned from there)".into());
        }
        let (place, new_lhs) = split_index0(lhs).ok_or(format!("index statement `{}`: only `PLACE[0].field = e` with PLACE a local is in the fragment", quote::quote!(#lhs)))?;
        let (pl, elem) = match self.locals.get(&place).cloned() {
            Some((l, Ty::List(t))) if !t.has_unknown() => (l, *t),
            _ => return Err(format!("index statement: `{place}` is not a local list")),
        };
        let h = self.fresh_name("head");
        let t = self.fresh_name("tail");
        self.ext.head_binds.push((place.clone(), h.clone(), elem.clone()));
        self.locals.insert("__head".into(), (h.clone(), elem.clone()));
        let r = (|| -> R<(String, L)> {
            let (_, lt) = self.expr(&new_lhs, &Ty::Unknown)?;
            let (v, vt) = self.expr(rhs, &lt)?;
            if !lt.compatible(&vt) {
                return Err(format!("assignment of a value of type {:?} to a place of type {:?}", vt, lt));
            }
            self.assign_into(&new_lhs, v)
        })();
        self.ext.head_binds.pop();
        self.locals.remove("__head");
        let (n, v) = r?;
        let b = self.cont(conts)?;
        let cons = L::A(format!("({h} :: {t})"));
        Ok(L::Match(vec![L::A(pl.clone())], vec![(vec!["[]".into()], L::a("none")), (vec![format!("{h} :: {t}")], lets(vec![(n, v), (pl, cons)], b))]))
    }

    pub(crate) fn ext2_local(&mut self, l: &syn::Local, rest: &[Stmt], value_tail: bool, conts: &[Frame]) -> R<Option<L>> {
        if !self.ext.whiles && self.ext.calc_tree.is_none() {
            return Ok(None);
        }
        let init = match &l.init {
            Some(i) if i.diverge.is_none() => &i.expr,
            _ => return Ok(None),
        };
        let nested = !conts.is_empty();
        // `let child_style = tree.get_flexbox_child_style(n);`: a style seen through `FlexboxItemStyle`
        if let (Expr::MethodCall(m), Some(name), Some(tree)) = (strip(init), pat_ident(&l.pat), self.ext.calc_tree.clone()) {
            if path_ident(&m.receiver).as_deref() == Some(tree.as_str()) && m.method == "get_flexbox_child_style" {
                let (v, vt) = self.expr(init, &Ty::Unknown)?;
                let n = self.declare(&name, vt, nested);
                self.views.insert(name, "FlexboxItemStyle".into());
                let b = self.seq(rest, value_tail, conts)?;
                return Ok(Some(L::Let(n, Box::new(v), Box::new(b))));
            }
        }
        // `let mut v = new_vec_with_capacity(n);`
        if let (Expr::Call(c), Some(name)) = (strip(init), pat_ident(&l.pat)) {
            if matches!(&*c.func, Expr::Path(p) if p.path.is_ident("new_vec_with_capacity")) && c.args.len() == 1 {
                let ty = match &self.ret_ty {
                    Ty::List(t) if !t.has_unknown() => self.ret_ty.clone(),
                    _ => return Err("`new_vec_with_capacity` in a function that does not return a `Vec` (the element type is taken from the result type)".into()),
                };
                // the capacity argument is evaluated (it must be in the fragment) and dropped: capacity is not observable
                let (_, ct) = self.expr(&c.args[0], &Ty::Nat)?;
                if ct != Ty::Nat {
                    return Err("`new_vec_with_capacity`: the capacity is not a usize".into());
                }
                let lt = self.w.lean_ty(&ty);
                let n = self.declare(&name, ty, nested);
                let b = self.seq(rest, value_tail, conts)?;
                return Ok(Some(L::Let(n, Box::new(L::A(format!("([] : {lt})"))), Box::new(b))));
            }
        }
        // `let (a, b) = X.split_at_mut(n);`
        if let Expr::MethodCall(m) = strip(init) {
            if m.method == "split_at_mut" && m.args.len() == 1 {
                if !self.ext.fueled {
                    return Err("`split_at_mut` where the panic outcome cannot be returned".into());
                }
                let (a, b) = match &l.pat {
                    Pat::Tuple(t) if t.elems.len() == 2 => match (pat_ident(&t.elems[0]), pat_ident(&t.elems[1])) {
                        (Some(a), Some(b)) => (a, b),
                        _ => return Err("`split_at_mut`: pattern".into()),
                    },
                    _ => return Err("`split_at_mut`: the result is not bound by `let (a, b)`".into()),
                };
                let (x, xt) = self.expr(&m.receiver, &Ty::Unknown)?;
                if !matches!(xt, Ty::List(_)) || xt.has_unknown() {
                    return Err("`split_at_mut` on something that is not a list".into());
                }
                let (n, nt) = self.expr(&m.args[0], &Ty::Nat)?;
                if nt != Ty::Nat {
                    return Err("`split_at_mut`: the argument is not a usize".into());
                }
                let al = self.declare(&a, xt.clone(), nested);
                let bl = self.declare(&b, xt.clone(), nested);
                let k = self.seq(rest, value_tail, conts)?;
                return Ok(Some(L::Match(vec![L::app(&format!("{}.split_at_mut", self.ext.ns), vec![x, n])], vec![(vec!["none".into()], L::a("none")), (vec![format!("some ({al}, {bl})")], k)])));
            }
        }
        // `let i = X.iter().enumerate().find(closure).map(|(idx, _)| idx).unwrap_or(d);`
        let (base, ms) = chain(init);
        let names: Vec<&str> = ms.iter().map(|m| m.0.as_str()).collect();
        if names == ["iter", "enumerate", "find", "map", "unwrap_or"] {
            let name = pat_ident(&l.pat).ok_or("pattern binding the result of `find`")?;
            let (xs, xt) = self.expr(base, &Ty::Unknown)?;
            let elem = match xt {
                Ty::List(t) if !t.has_unknown() => *t,
                _ => return Err("`enumerate().find` over something that is not a list".into()),
            };
            let c = match (ms[2].1.as_slice(), ms[0].1.len(), ms[1].1.len()) {
                ([e], 0, 0) => match strip(e) {
                    Expr::Closure(c) => c,
                    _ => return Err("`find`: a closure literal is required".into()),
                },
                _ => return Err("`enumerate().find`: arity".into()),
            };
            // `|&(idx, x)|`
            let (iname, xname) = match c.inputs.first().map(|p| {
                let mut p = p;
                loop {
                    match p {
                        Pat::Reference(r) => p = &r.pat,
                        Pat::Paren(x) => p = &x.pat,
                        _ => break,
                    }
                }
                p
            }) {
                Some(Pat::Tuple(t)) if c.inputs.len() == 1 && t.elems.len() == 2 => match (pat_ident(&t.elems[0]), pat_ident(&t.elems[1])) {
                    (Some(a), Some(b)) => (a, b),
                    _ => return Err("`find` closure parameter pattern".into()),
                },
                _ => return Err("`find` closure parameter pattern".into()),
            };
            // `.map(|(idx, _)| idx)`
            match ms[3].1.as_slice() {
                [e] => match strip(e) {
                    Expr::Closure(c2) if c2.inputs.len() == 1 => match (&c2.inputs[0], strip(&c2.body)) {
                        (Pat::Tuple(t), Expr::Path(p)) if t.elems.len() == 2 && matches!(&t.elems[1], Pat::Wild(_)) && pat_ident(&t.elems[0]).map(|a| p.path.is_ident(&a)) == Some(true) => {}
                        _ => return Err("after `find`: only `.map(|(idx, _)| idx)` is in the fragment".into()),
                    },
                    _ => return Err("after `find`: only `.map(|(idx, _)| idx)` is in the fragment".into()),
                },
                _ => return Err("`map` arity".into()),
            }
            let stmts: Vec<Stmt> = match &*c.body {
                Expr::Block(b) => b.block.stmts.clone(),
                e => vec![Stmt::Expr(e.clone(), None)],
            };
            let sc = self.scan_block(&stmts);
            if sc.exits || sc.mut_borrow || sc.indexes {
                return Err("`find` closure body leaves the fragment (exit, `&mut` borrow or index)".into());
            }
            let outer = sc.outer_assigned();
            if outer.len() != 1 {
                return Err(format!("`find` closure: it must update exactly one captured local (it writes {:?})", outer));
            }
            let acc = outer[0].clone();
            let (acc_l, acc_t) = self.locals.get(&acc).cloned().ok_or(format!("`find` closure assigns to the non-local `{acc}`"))?;
            if acc_t.has_unknown() {
                return Err(format!("type of the captured local `{acc}` is not determined"));
            }
            let saved = (self.ret, self.ret_ty.clone(), self.mut_param.clone(), self.ext.fueled, self.locals.clone());
            let il = self.declare(&iname, Ty::Nat, false);
            let xl = self.declare(&xname, elem.clone(), false);
            self.ret = RetMode::MutSelfVal;
            self.ret_ty = Ty::Bool;
            self.mut_param = Some(acc.clone());
            self.ext.fueled = false;
            let body = self.seq(&stmts, true, &[]);
            self.ret = saved.0;
            self.ret_ty = saved.1;
            self.mut_param = saved.2;
            self.ext.fueled = saved.3;
            self.locals = saved.4;
            let body = body?;
            let elem_t = self.w.lean_ty(&elem);
            let f = L::Fun(vec![format!("({acc_l} : {})", self.w.lean_ty(&acc_t)), format!("({il} : Nat)"), format!("({xl} : {elem_t})")], Box::new(body));
            let call = L::app(&format!("{}.enumerate_find_state", self.ext.ns), vec![f, L::A(acc_l.clone()), L::a("0"), xs]);
            let (d, dt) = self.expr(ms[4].1.first().ok_or("`unwrap_or` arity")?, &Ty::Nat)?;
            if dt != Ty::Nat {
                return Err("`unwrap_or`: the default is not a usize".into());
            }
            let tmp = self.fresh_name("r");
            let n = self.declare(&name, Ty::Nat, nested);
            let idx = L::app("Option.getD", vec![L::app("Option.map", vec![L::Fun(vec![format!("(p : (Nat × {elem_t}))")], Box::new(L::a("p.1"))), L::Field(Box::new(L::A(tmp.clone())), "1".into())]), d]);
            let b = self.seq(rest, value_tail, conts)?;
            return Ok(Some(lets(vec![(tmp.clone(), call), (acc_l, L::Field(Box::new(L::A(tmp)), "2".into())), (n, idx)], b)));
        }
        Ok(None)
    }

    /// `while c { body }` under fuel over the tuple of the outer locals the body assigns
    fn while_loop(&mut self, wl: &syn::ExprWhile, conts: &[Frame]) -> R<L> {
        if wl.label.is_some() {
            return Err("labelled `while`".into());
        }
        if !self.ext.has_fuel || !self.ext.fueled {
            return Err("`while` inside a loop body / a joined `if` (it needs the function's `fuel` and `Option` result)".into());
        }
        if matches!(&*wl.cond, Expr::Let(_)) {
            return Err("`while let`".into());
        }
        let stmts = &wl.body.stmts;
        let sc = self.scan_block(stmts);
        if sc.exits {
            return Err("`while` body with `return` / `break` / `continue` / `?` / a nested loop".into());
        }
        if sc.mut_borrow {
            return Err("`&mut` borrow inside a `while` body".into());
        }
        let state: Vec<String> = sc.outer_assigned();
        if state.is_empty() {
            return Err("`while` body assigns to no outer local".into());
        }
        let mut st_l = vec![];
        let mut st_t = vec![];
        for s in &state {
            let (l, t) = self.locals.get(s).cloned().ok_or(format!("`while` body assigns to the non-local `{s}`"))?;
            if t.has_unknown() {
                return Err(format!("type of the loop-carried local `{s}` is not determined"));
            }
            st_l.push(l);
            st_t.push(t);
        }
        let tuple = if st_l.len() == 1 { st_l[0].clone() } else { format!("({})", st_l.join(", ")) };
        let tuple_ty = if st_t.len() == 1 { st_t[0].clone() } else { Ty::Tuple(st_t.clone()) };
        let tuple_t = crate::emit::strip_parens(&self.w.lean_ty(&tuple_ty));
        let (c, ct) = self.expr(&wl.cond, &Ty::Bool)?;
        if ct != Ty::Bool {
            return Err("`while` condition is not a bool".into());
        }
        // one pass through the body: `some` of the state after it
        let saved = (self.ret, self.ret_ty.clone(), self.mut_param.clone(), self.locals.clone());
        self.locals.insert("__wstate".into(), (tuple.clone(), tuple_ty.clone()));
        self.ret = RetMode::MutSelfUnit;
        self.ret_ty = Ty::Unit;
        self.mut_param = Some("__wstate".into());
        let body = self.seq(stmts, false, &[]);
        self.ret = saved.0;
        self.ret_ty = saved.1;
        self.mut_param = saved.2;
        self.locals = saved.3;
        let body = body?;
        let cands: Vec<String> = self.locals.iter().filter(|(k, _)| !state.contains(k)).map(|(_, v)| v.0.clone()).collect();
        let mut caps_body = vec![];
        free_in(&body, &mut st_l.clone(), &cands, &mut caps_body);
        let mut caps = caps_body.clone();
        free_in(&c, &mut st_l.clone(), &cands, &mut caps);
        let ty_of = |me: &Self, lean: &str| -> R<String> {
            let t = me.locals.values().find(|v| v.0 == lean).map(|v| v.1.clone()).ok_or("internal: captured local")?;
            if t.has_unknown() {
                return Err(format!("type of the captured local `{lean}` is not determined"));
            }
            Ok(crate::emit::strip_parens(&me.w.lean_ty(&t)))
        };
        let mut b_body = String::new();
        for n in &caps_body {
            b_body.push_str(&format!(" ({n} : {})", ty_of(self, n)?));
        }
        let mut b_loop = String::new();
        for n in &caps {
            b_loop.push_str(&format!(" ({n} : {})", ty_of(self, n)?));
        }
        self.ext.n_whiles += 1;
        let suffix = if self.ext.n_whiles == 1 { String::new() } else { format!("_{}", self.ext.n_whiles) };
        let f = self.ext.fn_name.clone();
        let body_name = format!("{f}.while_body{suffix}");
        let loop_name = format!("{f}.while{suffix}");
        let args_body: String = caps_body.iter().map(|n| format!(" {n}")).collect();
        let args_loop: String = caps.iter().map(|n| format!(" {n}")).collect();
        let state_names = state.iter().map(|s| format!("`{s}`")).collect::<Vec<_>>().join(", ");
        self.ext.aux.push(format!(
            "/-- one pass through the body of the {}`while` of `{f}` as a function of the outer locals it assigns ({state_names}); `none` = a panic -/\ndef {body_name} {{α : Type}} [Num α]{b_body} : {tuple_t} → Option ({tuple_t})\n  | {tuple} =>\n    {}\n\n",
            if self.ext.n_whiles == 1 { String::new() } else { format!("{}. ", self.ext.n_whiles) },
            body.render(4, true)
        ));
        self.ext.aux.push(format!(
            "/-- the {}`while c {{ … }}` of `{f}` under an iteration bound: `none` = a panic in the body, or `c` still held after `fuel` iterations -/\ndef {loop_name} {{α : Type}} [Num α]{b_loop} : Nat → {tuple_t} → Option ({tuple_t})\n  | fuel, {tuple} =>\n    if !{} then some {tuple}\n    else match fuel with\n      | 0 => none\n      | fuel + 1 =>\n        match {body_name}{args_body} {tuple} with\n        | none => none\n        | some s => {loop_name}{args_loop} fuel s\n\n",
            if self.ext.n_whiles == 1 { String::new() } else { format!("{}. ", self.ext.n_whiles) },
            c.arg(7)
        ));
        let ns = self.ext.ns.clone();
        let call = L::App(format!("{ns}.{loop_name}"), caps.iter().map(|n| L::A(n.clone())).chain([L::a("fuel"), L::A(tuple.clone())]).collect());
        let k = self.cont(conts)?;
        Ok(L::Match(vec![call], vec![(vec!["none".into()], L::a("none")), (vec![format!("some {tuple}")], k)]))
    }
}

#[allow(dead_code)]
fn _unused(_: &str) -> String {
    ident("x")
}
