#!/bin/sh
# notes/seed_batch.sh <sandbox dir> <seed id>… — run each seeded change through its own property's check in the sandbox; one line per change in <sandbox>/batch.log
S=$1; shift
for ID in "$@"; do
  P=$(echo $ID | cut -d- -f1)
  r=$(sh /verif/notes/try_mut_in.sh $S $P $ID 2>&1 | tr '\n' ' ')
  echo "$ID :: $r" >> $S/batch.log
done
echo BATCH-DONE >> $S/batch.log
