#!/bin/sh
# notes/try_mut.sh <Cxx> <seed id> — apply seeded/<id>/patch.diff to /repo, run ./check Cxx, undo
P=$1; ID=$2
cd /verif
export VERIF_EVIDENCE_DIR=/tmp/seeded_evidence
git -C /repo apply /verif/seeded/$ID/patch.diff || { echo "patch does not apply"; exit 1; }
./check $P > /tmp/check_$ID.log 2>&1; echo "exit=$?" >> /tmp/check_$ID.log; grep -E "VIOLATION|KNOWN|\[check\] C|exit=" /tmp/check_$ID.log
git -C /repo checkout -- . ; git -C /repo status --short | head -3
