#!/usr/bin/env python3
"""notes/seed_rows.py <seed id>… — DESIGN.md §13.5 table rows from seeded/<id>/meta.json"""
import json, sys
def cut(s, n):
    s = " ".join(str(s).split()).replace("|", "/")
    return s if len(s) <= n else s[:n].rsplit(" ", 1)[0] + "…"
for sid in sys.argv[1:]:
    d = json.load(open(f"/verif/seeded/{sid}/meta.json"))
    first = d.get("first_result", d["result"])
    if first.startswith("caught"): fr = "caught"
    elif "WITHOUT a failing input" in first: fr = "**no input** — " + cut(first.split("(", 1)[1], 150)
    elif first.startswith("MISSED"): fr = "**missed**"
    else: fr = cut(first, 60)
    now = d["result"] if "first_result" in d else d["result"].split("(", 1)[1].rsplit(")", 1)[0]
    if d.get("strengthening", "none needed") != "none needed": now = d["strengthening"]
    print(f"| {sid} {cut(d['summary'], 150)} | {cut(d['what_it_needs_to_manifest'], 150)} | {fr} | {cut(now, 260)} |")
