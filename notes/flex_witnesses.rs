use taffy::prelude::*;
use taffy::{BoxSizing};

fn flex() -> Style { let mut s = Style::DEFAULT; s.display = Display::Flex; s }
fn show(t: &TaffyTree<(f32,f32)>, n: NodeId, name: &str) {
    let l = t.layout(n).unwrap();
    println!("  {name}: loc=({}, {}) size=({}, {}) content=({}, {})", l.location.x, l.location.y, l.size.width, l.size.height, l.content_size.width, l.content_size.height);
}
fn layout(t: &mut TaffyTree<(f32,f32)>, root: NodeId, av: Size<AvailableSpace>) {
    t.disable_rounding();
    t.compute_layout_with_measure(root, av, |k, _a, _id, ctx, _s| match ctx { Some(c) => Size { width: k.width.unwrap_or(c.0), height: k.height.unwrap_or(c.1) }, None => Size::ZERO }).unwrap();
}

fn main() {
    // (e) container's content-box inset floors an ITEM's intrinsic contribution (row only)
    for pad in [0.0f32, 50.0] {
        let mut t: TaffyTree<(f32,f32)> = TaffyTree::new();
        let mut it = flex(); it.flex_grow = 1.0;
        let c = t.new_leaf_with_context(it, (10.0, 10.0)).unwrap();
        let mut r = flex();
        r.padding.left = LengthPercentage::length(pad); r.padding.right = LengthPercentage::length(pad);
        let root = t.new_with_children(r, &[c]).unwrap();
        layout(&mut t, root, Size::MAX_CONTENT);
        println!("E: row container, padding-left/right {pad}, one item flex-grow 1 content 10x10, max-content:");
        show(&t, root, "root"); show(&t, c, "item");
    }
    for pad in [0.0f32, 50.0] {
        let mut t: TaffyTree<(f32,f32)> = TaffyTree::new();
        let mut it = flex(); it.flex_grow = 1.0;
        let c = t.new_leaf_with_context(it, (10.0, 10.0)).unwrap();
        let mut r = flex(); r.flex_direction = FlexDirection::Column;
        r.padding.top = LengthPercentage::length(pad); r.padding.bottom = LengthPercentage::length(pad);
        let root = t.new_with_children(r, &[c]).unwrap();
        layout(&mut t, root, Size::MAX_CONTENT);
        println!("E': column container, padding-top/bottom {pad}, same item:");
        show(&t, root, "root"); show(&t, c, "item");
    }
    // (j) first baseline of a flex container double counts the item's cross offset
    {
        let mut t: TaffyTree<(f32,f32)> = TaffyTree::new();
        let leaf = t.new_leaf_with_context(flex(), (20.0, 20.0)).unwrap();
        let mut a = flex(); a.size.height = Dimension::length(100.0); a.align_items = Some(AlignItems::Center);
        let a = t.new_with_children(a, &[leaf]).unwrap();
        let b = t.new_leaf_with_context(flex(), (10.0, 10.0)).unwrap();
        let mut r = flex(); r.align_items = Some(AlignItems::Baseline);
        let root = t.new_with_children(r, &[a, b]).unwrap();
        layout(&mut t, root, Size::MAX_CONTENT);
        println!("J: baseline-aligned row [A = row container h=100 align-items:center > leaf 20x20 ; B = leaf 10x10]:");
        show(&t, root, "root"); show(&t, a, "A"); show(&t, leaf, "A.leaf"); show(&t, b, "B");
        println!("   (A's first baseline is the bottom of its leaf: y = 40 + 20 = 60, so B should sit at y = 50; A itself at y = 0)");
    }
    // (a) the container's own margin leaks into the children's cross-axis constraint
    for m in [0.0f32, 20.0] {
        let mut t: TaffyTree<(f32,f32)> = TaffyTree::new();
        let mut it = flex(); it.max_size.height = Dimension::length(50.0);
        // square "image": measure returns width = known height when only the height is known
        let c = t.new_leaf_with_context(it, (-1.0, 30.0)).unwrap();
        let mut r = flex(); r.margin.top = LengthPercentageAuto::length(m);
        let root = t.new_with_children(r, &[c]).unwrap();
        t.disable_rounding();
        t.compute_layout_with_measure(root, Size::MAX_CONTENT, |k, _a, _id, ctx, _s| { let c = ctx.unwrap(); let h = k.height.unwrap_or(c.1); Size { width: k.width.unwrap_or(h), height: h } }).unwrap();
        println!("A: row container with margin-top {m}; item: square image (intrinsic 30x30), max-height 50, stretch:");
        show(&t, root, "root"); show(&t, c, "item");
    }
    // (f) determine_used_cross_size resolves vertical percentage padding against the container HEIGHT
    {
        let mut t: TaffyTree<(f32,f32)> = TaffyTree::new();
        let mut it = flex(); it.box_sizing = BoxSizing::ContentBox; it.padding.top = LengthPercentage::percent(0.1);
        it.max_size.height = Dimension::length(30.0); it.size.width = Dimension::length(10.0);
        let c = t.new_leaf(it).unwrap();
        let mut r = flex(); r.size = Size { width: Dimension::length(200.0), height: Dimension::length(100.0) };
        let root = t.new_with_children(r, &[c]).unwrap();
        layout(&mut t, root, Size::MAX_CONTENT);
        println!("F: 200x100 row container; stretch item content-box, padding-top 10% (=20 of the width), max-height 30 (border-box 50):");
        show(&t, root, "root"); show(&t, c, "item");
        let l = t.layout(c).unwrap(); println!("   item padding.top = {}", l.padding.top);
    }
}
