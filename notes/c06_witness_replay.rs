//! Replay of the C06 witnesses on the real code (repaired tree). Scratch crate: Cargo.toml with `taffy = { path = "<repo>" }`,
//! `[profile.dev] overflow-checks = true`; `cargo run` (debug) and `cargo run --release`. Output of the debug build on the
//! repaired tree: 100 x 30 / 100 x 30 / PANIC attempt to add with overflow (coordinates.rs, `OriginZeroLine + u16`) / 100 x 30;
//! the release build answers 100 x 30 four times.
//!   1. old witness of c06-abs-grid-implicit-tracks: abs child `grid-row: 5` in a `grid-auto-rows: 30px` grid -> container 100 x 30
//!   2. new refutation witness: abs child `grid-row: 32767 / span 2` -> panics in a build with overflow checks ("attempt to add with overflow")
//!   3. the same with `auto` lines -> 100 x 30
use taffy::prelude::*;

fn run(label: &str, row: Line<GridPlacement>) {
    let r = std::panic::catch_unwind(|| {
        let mut t: TaffyTree<()> = TaffyTree::new();
        let inflow = t
            .new_leaf(Style { size: Size { width: Dimension::length(10.0), height: Dimension::length(10.0) }, ..Default::default() })
            .unwrap();
        let abs = t.new_leaf(Style { position: Position::Absolute, grid_row: row, ..Default::default() }).unwrap();
        let root = t
            .new_with_children(
                Style {
                    display: Display::Grid,
                    size: Size { width: Dimension::length(100.0), height: Dimension::auto() },
                    grid_auto_rows: vec![length(30.0)],
                    ..Default::default()
                },
                &[inflow, abs],
            )
            .unwrap();
        t.compute_layout(root, Size::MAX_CONTENT).unwrap();
        let l = t.layout(root).unwrap();
        let a = t.layout(abs).unwrap();
        let i = t.layout(inflow).unwrap();
        format!(
            "container {} x {}; in-flow child at ({}, {}) size {} x {}; abs child at ({}, {}) size {} x {}",
            l.size.width, l.size.height, i.location.x, i.location.y, i.size.width, i.size.height, a.location.x, a.location.y, a.size.width, a.size.height
        )
    });
    match r {
        Ok(s) => println!("{label}: {s}"),
        Err(e) => {
            let msg = e.downcast_ref::<&str>().map(|s| s.to_string()).or_else(|| e.downcast_ref::<String>().cloned()).unwrap_or_default();
            println!("{label}: PANIC {msg}")
        }
    }
}

fn main() {
    println!("overflow checks: {}", cfg!(debug_assertions));
    run("grid-row: 5 / auto        ", Line { start: GridPlacement::from_line_index(5), end: GridPlacement::Auto });
    run("grid-row: auto / auto     ", Line { start: GridPlacement::Auto, end: GridPlacement::Auto });
    run("grid-row: 32767 / span 2  ", Line { start: GridPlacement::from_line_index(32767), end: GridPlacement::from_span(2) });
    run("grid-row: -32768 / auto   ", Line { start: GridPlacement::from_line_index(-32768), end: GridPlacement::Auto });
}
