//! C03 (finiteness) witness replay: `aspect_ratio: Some(0.0)` is a divisor (`width / ratio`).
//! Found by the extended-number instance of the Lean model (verif: Props/C03Finite.lean).
use taffy::prelude::*;

fn show(tag: &str, l: &taffy::Layout) {
    println!(
        "{tag}: location=({}, {}) size=({}, {}) content_size=({}, {})",
        l.location.x, l.location.y, l.size.width, l.size.height, l.content_size.width, l.content_size.height
    );
}

fn all_finite(l: &taffy::Layout) -> bool {
    [l.location.x, l.location.y, l.size.width, l.size.height, l.content_size.width, l.content_size.height]
        .iter()
        .all(|v| v.is_finite())
}

/// the exact witness of `C03Finite.leaf_aspect_ratio_zero_not_finite`: a single leaf, `width: 10px`, `aspect-ratio: 0`
#[test]
fn leaf_width_10_aspect_ratio_zero() {
    for rounding in [false, true] {
        let mut t: TaffyTree<()> = TaffyTree::new();
        if !rounding {
            t.disable_rounding();
        }
        let leaf = t
            .new_leaf(Style {
                size: Size { width: Dimension::from_length(10.0), height: Dimension::auto() },
                aspect_ratio: Some(0.0),
                ..Default::default()
            })
            .unwrap();
        t.compute_layout(leaf, Size::MAX_CONTENT).unwrap();
        let l = *t.layout(leaf).unwrap();
        show(if rounding { "leaf (rounded)" } else { "leaf (unrounded)" }, &l);
        // what the model predicts at the extended numbers: size = (10, +inf)
        assert_eq!(l.size.width, 10.0);
        assert!(l.size.height.is_infinite() && l.size.height > 0.0, "height = {}", l.size.height);
    }
}

/// the same leaf as the first of two children of a block container: the infinity propagates to the container's size
/// and to the sibling's location
#[test]
fn block_parent_of_aspect_ratio_zero_child() {
    let mut t: TaffyTree<()> = TaffyTree::new();
    t.disable_rounding();
    let a = t
        .new_leaf(Style {
            size: Size { width: Dimension::from_length(10.0), height: Dimension::auto() },
            aspect_ratio: Some(0.0),
            ..Default::default()
        })
        .unwrap();
    let b = t
        .new_leaf(Style { size: Size { width: Dimension::from_length(5.0), height: Dimension::from_length(5.0) }, ..Default::default() })
        .unwrap();
    let c = t
        .new_leaf(Style {
            position: Position::Absolute,
            inset: Rect { left: auto(), right: auto(), top: auto(), bottom: LengthPercentageAuto::from_length(0.0) },
            size: Size { width: Dimension::from_length(5.0), height: Dimension::from_percent(0.5) },
            ..Default::default()
        })
        .unwrap();
    let root = t.new_with_children(Style { display: Display::Block, ..Default::default() }, &[a, b, c]).unwrap();
    t.compute_layout(root, Size { width: AvailableSpace::Definite(100.0), height: AvailableSpace::Definite(100.0) }).unwrap();
    for (tag, n) in [("root", root), ("a", a), ("b", b), ("c(abs)", c)] {
        show(tag, t.layout(n).unwrap());
    }
    assert!(!all_finite(t.layout(root).unwrap()));
    assert!(!all_finite(t.layout(b).unwrap()));
    // exactly what `C03Finite.block_ratio_zero_inf_and_nan` proves of the model at the extended numbers
    let (lr, la, lb, lc) = (*t.layout(root).unwrap(), *t.layout(a).unwrap(), *t.layout(b).unwrap(), *t.layout(c).unwrap());
    assert!(lr.size.width == 100.0 && lr.size.height == f32::INFINITY);
    assert!(la.size.width == 10.0 && la.size.height == f32::INFINITY);
    assert!(lb.location.x == 0.0 && lb.location.y == f32::INFINITY);
    assert!(lc.location.x == 0.0 && lc.location.y.is_nan());
    assert!(lc.size.width == 5.0 && lc.size.height == f32::INFINITY);
}

/// `width: 0` with `aspect-ratio: 0` is `0.0 / 0.0 = NaN`; and a negative ratio is finite (negative height, floored)
#[test]
fn other_ratios() {
    for (w, r) in [(0.0f32, 0.0f32), (10.0, -2.0), (10.0, -0.0), (-10.0, 0.0)] {
        let mut t: TaffyTree<()> = TaffyTree::new();
        t.disable_rounding();
        let leaf = t
            .new_leaf(Style {
                size: Size { width: Dimension::from_length(w), height: Dimension::auto() },
                aspect_ratio: Some(r),
                ..Default::default()
            })
            .unwrap();
        t.compute_layout(leaf, Size::MAX_CONTENT).unwrap();
        show(&format!("leaf w={w} ratio={r}"), t.layout(leaf).unwrap());
    }
}
