#!/bin/sh
# notes/seed_sandbox.sh <name> — a scratch copy of /verif (with its build output) + a detached worktree of /repo under /tmp/s_<name>,
# so that seeded changes can be run through ./check while /verif and /repo are being worked on.  ./check is relocatable: it uses ../repo.
# Usage afterwards:  sh /tmp/s_<name>/verif/notes/try_mut_in.sh /tmp/s_<name> Cxx Cxx-k
set -e
S=/tmp/s_$1
mkdir -p $S
git -C /repo worktree add --detach $S/repo HEAD >/dev/null 2>&1
rsync -a --delete --exclude .git --exclude replays /verif/ $S/verif/
echo $S
