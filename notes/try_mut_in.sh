#!/bin/sh
# notes/try_mut_in.sh <sandbox dir> <Cxx> <seed id> — apply /verif/seeded/<id>/patch.diff to the sandbox's repo worktree, run the sandbox's
# ./check Cxx, undo.  (The same as notes/try_mut.sh, which does it on /repo itself.)
S=$1; P=$2; ID=$3
cd $S/verif
export VERIF_EVIDENCE_DIR=$S/seeded_evidence
git -C $S/repo checkout -q -- . ; git -C $S/repo apply /verif/seeded/$ID/patch.diff || { echo "patch does not apply"; exit 1; }
./check $P > $S/check_$ID.log 2>&1; echo "exit=$?" >> $S/check_$ID.log; grep -E "VIOLATION|\[check\] C|exit=" $S/check_$ID.log
git -C $S/repo checkout -q -- . ; git -C $S/repo status --short | head -3
