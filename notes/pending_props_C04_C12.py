PROPS["C04"] = {
    "modules": _PAIRS_PLACEHOLDER_MODULES, "theorems": _PAIRS_PLACEHOLDER_THEOREMS,
    "harness": "C04", "driver": "C04", "monitor": False,
    "rule": "style trees of 1-12 nodes, depth <= 4, flex/grid/block mixed (treegen::gen_tree with every feature on: hidden, "
            "absolute, percentages, aspect ratios, content-box, auto/negative margins, scroll containers, wrap/fixed measure "
            "contexts, grid lines) plus extra grid tracks (fit-content(px/%), minmax(px, px|auto|max-content), auto-fill/auto-fit) "
            "and small flex bases; available space definite/min-/max-content per axis; tree B = every absolute length (size, "
            "min/max size, margin, padding, border, inset, gap, flex-basis, scrollbar width, fixed/fit-content/minmax track sizes, "
            "measure-context sizes, definite available space) x 2^e, e in {-3..8}\\{0}. Predicate: every f32 field of every "
            "node's unrounded layout in B equals 2^e x the field in A bit-exactly (-0.0 = +0.0), order equal. A mismatch is attributed "
            "with the help of two cfg(taffy_verif) counters (hooks.patch: flexbox.rs floor taken with a non-zero basis; grid "
            "track_sizing.rs positive length <= THRESHOLD): (1) a grid threshold was met in A or B and B = 2^e x A up to "
            "0.05(1+2^e) + 2^-16|B| = known finding c04-grid-track-threshold; (2) the flex floor was taken in A or B and the pair "
            "2^12 x A / 2^(12+e) x A (then, if needed, with flex_shrink 0 -> 1) is homogeneous = known finding "
            "c04-flex-shrink-floor-at-one; anything else is a violation (described with a greedily minimised tree). Fixed first: "
            "the design's witness (flex-basis 0.875, flex-shrink 0.5, content 0.5, x16), the grid-threshold witness (2^-7 px wide grid, "
            "minmax(0,100px) column, x16) and a plain homogeneous grid. Non-trivial = tree A has a non-zero layout; distinct = "
            "distinct transcripts.",
    "trusted_base": _PAIRS_TRUSTED + [
        "power-of-two factors with lengths <= 2^10 and >= 2^-5 keep every intermediate finite and normal, so exact "
        "homogeneity is the expected outcome of IEEE arithmetic; no theorem relates Float32 to Rat here"],
    "assumptions": ["scale factors are powers of two; the measure function is itself homogeneous (Fixed / Wrap contexts)",
                    "known finding c04-flex-shrink-floor-at-one: the flex intrinsic main-size path is not homogeneous "
                    "(flex_shrink x inner_flex_basis floored at 1)",
                    "known finding c04-grid-track-threshold (found by this check): grid track sizing compares lengths with the "
                    "absolute constants 0.01 and 1e-6, so homogeneity holds only up to those thresholds (typically last-ulp "
                    "differences from redistributed f32 rounding dust; macroscopic only for sub-0.01px free space)",
                    "a tree on which both layouts panic is skipped (counted as panic:both; one such input class is a C03 matter: "
                    "repeat(auto-fit, ...) columns in a grid whose only children are display:none)"],
    "level_text": "Sampled on the implementation: for thousands of generated style trees and every power-of-two factor 2^-3..2^8 the "
                  "unrounded layout of the scaled tree is bit-exactly the scaled layout, except on the flex intrinsic main-size "
                  "path and at the grid track-sizing thresholds (known findings). The per-function equivariance theorems and tree_homogeneous are the coordinator's part "
                  "(not in this entry yet: placeholder obligation).",
    "level_note": "No property theorem in this entry yet (placeholder C02.slot_lt). Tie = tree pairs on the real code, predicate "
                  "re-evaluated in Lean at Float32.",
    "technique": "metamorphic tree pairs on the real TaffyTree (scaled tree vs scaled layout), predicate evaluated in Rust and in Lean",
}
PROPS["C12"] = {
    "modules": _PAIRS_PLACEHOLDER_MODULES, "theorems": _PAIRS_PLACEHOLDER_THEOREMS,
    "harness": "C12", "driver": "C12", "monitor": False,
    "rule": "style trees of 1-12 nodes as for C04 in which half of the nodes are made content-box with length-valued padding/border "
            "(multiples of 1/4, mostly non-zero), no aspect ratio, percentages in size/min/max/flex-basis replaced by lengths or auto, "
            "extra definite lengths (other content-box nodes from the base generator stay ineligible: percentage padding, aspect "
            "ratio, percentage sizes); a random subset (a third of the cases: all) of the eligible nodes is switched: border-box with "
            "every non-auto size/min/max length + padding + border of its axis, flex-basis + the sum along the parent flex "
            "container's main axis (row: horizontal, column: vertical; horizontal when the parent is not a flex container, where "
            "flex-basis is never read). Predicate: all 20 numbers and order of every node's unrounded layout identical in A and B. "
            "All values dyadic (k/4) so that L + padding + border is exact in f32. Fixed first: content-box items with every rewritten "
            "property set in row-flex, column-flex, block and grid containers, all switched. Non-trivial = at least one switched node "
            "has non-zero padding+border and a definite length, and the layout is non-zero.",
    "trusted_base": _PAIRS_TRUSTED,
    "assumptions": ["padding/border of switched nodes are lengths (percentages disqualify), values dyadic so sums are exact"],
    "level_text": "Sampled on the implementation: switching any subset of eligible content-box nodes to border-box with adjusted "
                  "lengths leaves every node's unrounded layout bit-identical, in flex, grid and block containers, for in-flow, "
                  "absolute and hidden nodes. site_equiv / tree_equiv and the extracted site table are the coordinator's part "
                  "(placeholder obligation).",
    "level_note": "No property theorem in this entry yet (placeholder C02.slot_lt). Tie = tree pairs on the real code, predicate "
                  "re-evaluated in Lean.",
    "technique": "metamorphic tree pairs on the real TaffyTree (content-box vs rewritten border-box nodes), predicate evaluated in Rust and in Lean",
}
