#!/bin/sh
# notes/mk_wave.sh <suffix> <Cxx>... — scratch worktrees + PROMPT.txt for a wave of mutation agents (property text + list of ideas already tried)
SUF=$1; shift
for P in "$@"; do
  W=$(sh /verif/notes/mk_mut.sh $P)
  python3 - "$P" "$W" "$SUF" <<'PY'
import json, sys, glob, os
p, w, suf = sys.argv[1:4]
prop = open(w + '/PROPERTY.txt').read()
tried = []
for d in sorted(glob.glob(f'/verif/seeded/{p}-*')):
    for name in ('meta.json', 'meta.agent.json'):
        try: tried.append('- ' + json.load(open(d + '/' + name))['summary']); break
        except Exception: pass
t = open('/verif/notes/MUT_PROMPT.txt').read().replace('{W}', w).replace('{PROPERTY}', prop).replace('{ID}', p.lower())
t += ("\n\nIdeas that were already used in earlier rounds for this property — choose something clearly DIFFERENT (a different function, "
      "mechanism and trigger):\n" + '\n'.join(tried) + "\n\nPrefer a change that needs a multi-step history, an unusual value pattern, or two "
      "cooperating sites that each look fine alone. Build output: keep it inside " + w + "/repo/target (default). Use at most 4 parallel "
      "cargo jobs if the machine is busy (`-j 4`).\n")
open(w + '/PROMPT.txt', 'w').write(t)
PY
  echo $W
done
