#!/usr/bin/env python3
"""notes/seed_meta.py <seed id> <first result> [<strengthening>] — write seeded/<id>/meta.json from the agent's meta + what I ran"""
import json, sys, os
sid, result = sys.argv[1], sys.argv[2]
strengthening = sys.argv[3] if len(sys.argv) > 3 else "none needed"
d = f"/verif/seeded/{sid}"
prop = sid.split("-")[0]
am = {}
for name in ("meta.agent.json",):
    try: am = json.load(open(os.path.join(d, name)))
    except Exception: pass
meta = {
    "id": sid, "property": prop,
    "summary": am.get("summary", ""),
    "what_it_needs_to_manifest": am.get("what_it_needs_to_manifest", ""),
    "confirmed": f"in scratch worktree /tmp/m_{prop}/repo: demo test fails with the change and passes without it; 2176-test suite passes with the change (notes/confirm_mut.sh)",
    "ran": f"git -C /repo apply seeded/{sid}/patch.diff; ./check {prop}; git -C /repo checkout -- .",
    "result": result, "strengthening": strengthening, "agent_meta": am,
}
json.dump(meta, open(os.path.join(d, "meta.json"), "w"), indent=1, ensure_ascii=False)
print("wrote", d + "/meta.json")
