#!/bin/sh
# notes/sweep.sh [checks…] — run the quick checks one after the other on /repo as it is; one summary line each in /tmp/sweep.log
CH=${@:-C01 C02 C03 C04 C05 C06 C07 C08 C09 C10 C11 C12 C13 C14 C15 C16 C17 C18 C19}
cd /verif
: > /tmp/sweep.log
for c in $CH; do
  ./check $c > /tmp/sweep_$c.log 2>&1; echo "exit=$?" >> /tmp/sweep_$c.log
  grep -E "VIOLATION|^\[check\] C|exit=" /tmp/sweep_$c.log | tr '\n' ' ' >> /tmp/sweep.log; echo >> /tmp/sweep.log
done
echo SWEEP-DONE >> /tmp/sweep.log
