#!/usr/bin/env python3
"""notes/integrate.py <sandbox id> <PROP> [<PROP2>…] -- files…   copy an agent's deliverables from /tmp/w_<id>/verif into /verif
   and splice its PROPS[...] blocks into checklib/props.py"""
import sys, os, shutil, re
sid = sys.argv[1]
rest = sys.argv[2:]
k = rest.index("--")
props, files = rest[:k], rest[k+1:]
W = f"/tmp/w_{sid}/verif"
for f in files:
    src, dst = os.path.join(W, f), os.path.join("/verif", f)
    os.makedirs(os.path.dirname(dst), exist_ok=True)
    shutil.copy2(src, dst)
    print("copied", f)
theirs = open(os.path.join(W, "checklib/props.py")).read()
mine = open("/verif/checklib/props.py").read()
for p in props:
    m = re.search(r'^PROPS\["%s"\] = \{.*?^\}\n' % p, theirs, re.S | re.M)
    if not m:
        # maybe inside the literal dict
        m2 = re.search(r'^    "%s": \{.*?^    \},\n' % p, theirs, re.S | re.M)
        if not m2:
            print("!! no PROPS block for", p); continue
        block = 'PROPS["%s"] = {' % p + m2.group(0).split("{", 1)[1].rsplit("},", 1)[0] + "}\n"
    else:
        block = m.group(0)
    if ('PROPS["%s"]' % p) in mine:
        mine = re.sub(r'^PROPS\["%s"\] = \{.*?^\}\n' % p, lambda _: block, mine, flags=re.S | re.M)
    else:
        mine = mine.replace("\nHOOK_COMMITS", "\n" + block + "\nHOOK_COMMITS", 1)
    # drop the property from the NOT_APPLICABLE id list (only there)
    def fix(mo):
        return mo.group(0).replace('"%s", ' % p, "").replace(', "%s"' % p, "")
    mine = re.sub(r'NOT_APPLICABLE = \{p: _pending for p in\s*\[[^\]]*\]', fix, mine, flags=re.S)
    print("spliced PROPS", p)
open("/verif/checklib/props.py", "w").write(mine)
