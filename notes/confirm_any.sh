#!/bin/sh
# notes/confirm_any.sh <k> — confirm cross-property seeded change k in /tmp/m_ANY and run all checks against it
k=$1; shift; CHK="$@"; W=/tmp/m_ANY; D=$W/any$k
cd $W/repo || exit 1
export CARGO_NET_OFFLINE=true
git checkout -q -- src; git apply $D/patch.diff || { echo "patch does not apply"; exit 1; }
cp $D/demo_any$k.rs tests/demo_any$k.rs
echo "== demo with change (must FAIL)"; cargo test --offline --test demo_any$k 2>&1 | grep -E "^test result|error\[" | head -2
echo "== suite with change"; cargo nextest run --workspace --no-fail-fast --offline --test-threads 16 -E 'not binary(~demo_)' 2>&1 | grep Summary
git apply -R $D/patch.diff
echo "== demo without change (must PASS)"; cargo test --offline --test demo_any$k 2>&1 | grep -E "^test result|error\[" | head -2
mkdir -p /verif/seeded/ANY-$k; cp $D/patch.diff $D/demo_any$k.rs /verif/seeded/ANY-$k/; cp $D/meta.json /verif/seeded/ANY-$k/meta.agent.json
/verif/notes/run_all_against.sh /verif/seeded/ANY-$k/patch.diff $CHK
