#!/bin/sh
# notes/confirm_wt.sh <Cxx> <seed id> — part 1 of confirm_mut.sh: confirm a seeded change in ITS scratch worktree only (never touches /repo),
# store it under seeded/<id>/. Part 2 = notes/try_mut.sh <Cxx> <seed id> (applies it to /repo, runs ./check, undoes it).
P=$1; ID=$2; W=/tmp/m_$P; lc=$(echo $P | tr A-Z a-z)
cd $W/repo || exit 1
export CARGO_NET_OFFLINE=true
git checkout -q -- src; git apply $W/patch.diff || { echo "agent patch does not apply"; exit 1; }
cp $W/demo_$lc.rs tests/demo_$lc.rs 2>/dev/null
echo "== demo with change (must FAIL)"; cargo test --offline --test demo_$lc 2>&1 | grep -E "^test result|panicked|FAILED|error\[" | head -3
git apply -R $W/patch.diff
echo "== demo without change (must PASS)"; cargo test --offline --test demo_$lc 2>&1 | grep -E "^test result|error\[" | head -2
git apply $W/patch.diff
echo "== suite with change (must be 2176 passed)"; cargo nextest run --workspace --no-fail-fast --offline --test-threads 16 -E "not binary(demo_$lc)" 2>&1 | grep "Summary"
git diff -- src > $W/patch.confirmed.diff
mkdir -p /verif/seeded/$ID && cp $W/patch.confirmed.diff /verif/seeded/$ID/patch.diff && cp $W/demo_$lc.rs /verif/seeded/$ID/ 2>/dev/null; cp $W/meta.json /verif/seeded/$ID/meta.agent.json 2>/dev/null
git -C /repo apply --check /verif/seeded/$ID/patch.diff && echo "== applies to /repo HEAD"
