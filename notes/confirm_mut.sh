#!/bin/sh
# notes/confirm_mut.sh <Cxx> [<seed id>] — confirm a seeded change in its scratch worktree, run ./check against it, store under seeded/
P=$1; ID=${2:-$1-1}; W=/tmp/m_$P; lc=$(echo $P | tr A-Z a-z)
cd $W/repo || exit 1
export CARGO_NET_OFFLINE=true
# start from the agent's own patch only (git stash is shared between worktrees: agents racing on it can leave foreign edits)
git checkout -q -- src; git apply $W/patch.diff || { echo "agent patch does not apply"; exit 1; }
cp $W/demo_$lc.rs tests/demo_$lc.rs 2>/dev/null
echo "== demo with change (must FAIL)"; cargo test --offline --test demo_$lc 2>&1 | grep -E "^test result|panicked|FAILED|error\[" | head -3
git apply -R $W/patch.diff
echo "== demo without change (must PASS)"; cargo test --offline --test demo_$lc 2>&1 | grep -E "^test result|error\[" | head -2
git apply $W/patch.diff
echo "== suite with change (must be 2176 passed)"; cargo nextest run --workspace --no-fail-fast --offline --test-threads 16 -E "not binary(demo_$lc)" 2>&1 | grep "Summary"
git diff -- src > $W/patch.confirmed.diff
mkdir -p /verif/seeded/$ID && cp $W/patch.confirmed.diff /verif/seeded/$ID/patch.diff && cp $W/demo_$lc.rs /verif/seeded/$ID/ 2>/dev/null; cp $W/meta.json /verif/seeded/$ID/meta.agent.json 2>/dev/null
cd /verif
export VERIF_EVIDENCE_DIR=/tmp/seeded_evidence
git -C /repo apply /verif/seeded/$ID/patch.diff || { echo "patch does not apply to /repo HEAD"; exit 1; }
echo "== ./check $P against the change"; ./check $P > /tmp/check_$ID.log 2>&1; echo "exit=$?" >> /tmp/check_$ID.log; grep -E "VIOLATION|KNOWN|\[check\] C|exit=" /tmp/check_$ID.log
git -C /repo checkout -- . ; git -C /repo status --short | head -3
