#!/bin/sh
# notes/mk_mut.sh <Cxx> — scratch worktree for a mutation agent: /tmp/m_<Cxx>/repo (+ the property text only)
set -e
P=$1
W=/tmp/m_$P
mkdir -p $W
git -C /repo worktree add --detach $W/repo HEAD >/dev/null 2>&1
python3 - "$P" "$W" <<'PY'
import json, sys
p, w = sys.argv[1], sys.argv[2]
for l in open('/verif/properties.jsonl'):
    d = json.loads(l)
    if d['id'] == p:
        open(w + '/PROPERTY.txt', 'w').write(
            f"{d['id']} — {d['title']}\n\nSTATEMENT: {d['statement']}\n\nQUANTIFIER: {d['quantifier']['text']}\n\n"
            f"WHY TESTS CANNOT SETTLE IT: {d['why_tests_cant']}\n\nANCHORS (files): {', '.join(d['anchors']['files'])}\n")
PY
echo $W
