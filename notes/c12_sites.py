#!/usr/bin/env python3
"""
C12 site table (DESIGN §4.1 "structural facts", §8 C12): every place in src/compute/**/*.rs that

  (A) mentions `box_sizing()` / `box_sizing_adjustment` / a copied `.box_sizing` field, and
  (B) reads one of the four properties `size()`, `min_size()`, `max_size()`, `flex_basis()` of a style
      (method reads), or reads a raw copy of them (`GridItem { size, min_size, max_size }` fields, which
      grid_item.rs fills with `style.size()` etc. and reads later as `self.size` ...),

with file:line, the enclosing expression, and a classification of each read (B):

  adjusted      <read>.maybe_resolve(..)[.maybe_apply_aspect_ratio(..)].maybe_add(box_sizing_adjustment)[...]
                where `box_sizing_adjustment` is bound, earlier in the same function, to
                `if <style>.box_sizing() == BoxSizing::ContentBox { <padding+border sums> } else { Size::ZERO }`
                (for flex_basis: the same followed by `.main(dir)`)                 -> a *site* (C12 `site_equiv`)
  is_auto       <read>[.cross(..)|.get(..)|.width|...].is_auto()                     -> invariant under toBorderBox
  definiteness  <read>...maybe_resolve(..).is_some()   (only the Option's tag is used) -> invariant under toBorderBox
  raw_copy      `field: style.size(),` inside a struct literal: the value is copied unadjusted; the reads of the copy
                are listed and classified themselves
  UNRECOGNISED  anything else: a candidate violation of `StyleReadsThroughSites`

Usage:  python3 c12_sites.py [REPO]      (REPO defaults to $TAFFY_REPO, then <verif>/../repo, then /repo)
Exit status 0 always (this is a report, it is not wired into ./check); `--strict` exits 1 if a read is unrecognised.
"""
import os
import re
import sys

PROPS = ("size", "min_size", "max_size", "flex_basis")
READ_RE = re.compile(r"\.\s*(size|min_size|max_size|flex_basis)\s*\(\s*\)")
# raw copies: struct fields of GridItem (grid_item.rs) that hold unadjusted style values
FIELD_READ_RE = re.compile(r"\b(self|item|child)\s*\.\s*(size|min_size|max_size)\b(?!\s*\()")
BOX_RE = re.compile(r"box_sizing\s*\(\s*\)|\bbox_sizing_adjustment\b|\.\s*box_sizing\b(?!\s*\()|\bbox_sizing\s*:")
ADJ_DEF_RE = re.compile(
    r"let\s+box_sizing_adjustment\s*=\s*if\s+[\w\.]*box_sizing(\s*\(\s*\))?\s*==\s*BoxSizing::ContentBox\s*\{", re.S)


def find_repo(argv):
    args = [a for a in argv[1:] if not a.startswith("--")]
    if args:
        return args[0]
    if os.environ.get("TAFFY_REPO"):
        return os.environ["TAFFY_REPO"]
    here = os.path.dirname(os.path.abspath(__file__))
    cand = os.path.normpath(os.path.join(here, "..", "..", "repo"))
    if os.path.isdir(os.path.join(cand, "src", "compute")):
        return cand
    return "/repo"


def strip_comments(text):
    """blank out // comments, /* */ comments and string literals, keeping offsets and newlines"""
    out = []
    i, n = 0, len(text)
    while i < n:
        c = text[i]
        if text.startswith("//", i):
            j = text.find("\n", i)
            j = n if j < 0 else j
            out.append(" " * (j - i))
            i = j
        elif text.startswith("/*", i):
            j = text.find("*/", i + 2)
            j = n if j < 0 else j + 2
            out.append("".join(ch if ch == "\n" else " " for ch in text[i:j]))
            i = j
        elif c == '"':
            j = i + 1
            while j < n and text[j] != '"':
                j += 2 if text[j] == "\\" else 1
            j = min(j + 1, n)
            out.append("".join(ch if ch == "\n" else " " for ch in text[i:j]))
            i = j
        else:
            out.append(c)
            i += 1
    return "".join(out)


def cut_tests(code):
    """drop a trailing `#[cfg(test)] mod …` (unit tests are not layout code)"""
    m = re.search(r"#\[cfg\(test\)\]\s*mod\s", code)
    return code[: m.start()] + "".join(ch if ch == "\n" else " " for ch in code[m.start():]) if m else code


def line_of(code, pos):
    return code.count("\n", 0, pos) + 1


def suffix_chain(code, pos):
    """the rest of the expression after position `pos`: up to `;` / `,` at depth 0 or an unmatched closing bracket"""
    depth = 0
    i = pos
    n = len(code)
    while i < n:
        c = code[i]
        if c in "([{":
            depth += 1
        elif c in ")]}":
            if depth == 0:
                break
            depth -= 1
        elif c in ";," and depth == 0:
            break
        i += 1
    return code[pos:i], i


def enclosing_fn_start(code, pos):
    """offset of the `fn` item enclosing `pos` (nearest preceding `fn name` at smaller brace depth): good enough to scope
    the search for the `let box_sizing_adjustment = …` binding"""
    best = 0
    for m in re.finditer(r"\bfn\s+\w+", code[:pos]):
        best = m.start()
    return best


def prefix_is_struct_field(code, pos):
    """is the read the whole initialiser of a struct-literal field, e.g. `size: style.size(),` ?"""
    line_start = code.rfind("\n", 0, pos) + 1
    head = code[line_start:pos]
    return re.match(r"\s*\w+\s*:\s*[\w\.]*$", head) is not None


def norm(s):
    return re.sub(r"\s+", "", s)


def classify(code, read_end, prop, is_field_read, read_start):
    chain, end = suffix_chain(code, read_end)
    c = norm(chain)
    fn0 = enclosing_fn_start(code, read_start)
    adj_bound = ADJ_DEF_RE.search(code[fn0:read_start]) is not None
    # adjusted: maybe_resolve(..) [.maybe_apply_aspect_ratio(..)] .maybe_add(box_sizing_adjustment)
    m = re.match(r"^(\.get\(\w+\)|\.get_abs\(\w+\))?\.maybe_resolve\(", c)
    if m and ".maybe_add(box_sizing_adjustment)" in c:
        between = c[: c.index(".maybe_add(box_sizing_adjustment)")]
        # only resolve / aspect-ratio steps may precede the add
        steps = re.sub(r"\((?:[^()]|\((?:[^()]|\([^()]*\))*\))*\)", "()", between)
        if re.match(r"^(\.get\(\)|\.get_abs\(\))?\.maybe_resolve\(\)(\.maybe_apply_aspect_ratio\(\))?$", steps):
            if adj_bound:
                return "adjusted", chain, end
            return "UNRECOGNISED (maybe_add(box_sizing_adjustment) but no recognised binding of it in this fn)", chain, end
    if re.match(r"^(\.cross\(.*?\)|\.main\(.*?\)|\.get\(\w+\)|\.get_abs\(\w+\)|\.width|\.height)?\.is_auto\(\)", c):
        return "is_auto", chain, end
    if re.match(r"^(\.get\(\w+\)|\.get_abs\(\w+\))?\.maybe_resolve\(.*\)\.is_some\(\)$", c):
        return "definiteness", chain, end
    if not is_field_read and c == "" and prefix_is_struct_field(code, read_start):
        return "raw_copy", chain, end
    return "UNRECOGNISED", chain, end


def excerpt(lines, l0, l1, maxlines=9):
    l0 = max(1, l0)
    l1 = min(len(lines), max(l1, l0))
    if l1 - l0 + 1 > maxlines:
        l1 = l0 + maxlines - 1
    return "\n".join("      | " + lines[i - 1].rstrip() for i in range(l0, l1 + 1))


def main():
    repo = find_repo(sys.argv)
    strict = "--strict" in sys.argv
    root = os.path.join(repo, "src", "compute")
    files = []
    for d, _, fs in os.walk(root):
        for f in fs:
            if f.endswith(".rs"):
                files.append(os.path.join(d, f))
    files.sort()
    box_rows, read_rows = [], []
    raw_copy_files = set()
    for path in files:
        raw = open(path, encoding="utf-8").read()
        code = cut_tests(strip_comments(raw))
        lines = raw.split("\n")
        rel = os.path.relpath(path, repo)
        for m in BOX_RE.finditer(code):
            ln = line_of(code, m.start())
            txt = lines[ln - 1].strip()
            if re.search(r"let\s+box_sizing_adjustment", txt) or re.search(r"if\s+[\w\.]*box_sizing(\(\))?\s*==", txt):
                kind = "adjustment-definition"
            elif "maybe_add(box_sizing_adjustment)" in norm(txt):
                kind = "adjustment-use (maybe_add)"
            elif re.search(r"\bbox_sizing\s*:", txt):
                kind = "field (copy of style.box_sizing())"
            else:
                kind = "other"
            if not box_rows or box_rows[-1][:2] != (rel, ln):
                box_rows.append((rel, ln, kind, txt))
        # method reads
        for m in READ_RE.finditer(code):
            ln = line_of(code, m.start())
            cls, chain, end = classify(code, m.end(), m.group(1), False, m.start())
            if cls == "raw_copy":
                raw_copy_files.add(path)
            read_rows.append((rel, ln, m.group(1) + "()", cls, excerpt(lines, ln - 2, line_of(code, end))))
    # reads of the raw copies (only in files that make such copies)
    for path in sorted(raw_copy_files):
        raw = open(path, encoding="utf-8").read()
        code = cut_tests(strip_comments(raw))
        lines = raw.split("\n")
        rel = os.path.relpath(path, repo)
        for m in FIELD_READ_RE.finditer(code):
            # `self\n.size\n.maybe_resolve` : report the line of the field name
            ln = line_of(code, m.start(2))
            cls, chain, end = classify(code, m.end(), m.group(2), True, m.start())
            read_rows.append((rel, ln, "field ." + m.group(2), cls, excerpt(lines, ln - 2, line_of(code, end))))
    read_rows.sort(key=lambda r: (r[0], r[1]))

    print("C12 SITE TABLE   repo =", repo)
    print("=" * 100)
    print("(A) box_sizing() / box_sizing_adjustment occurrences: %d" % len(box_rows))
    for rel, ln, kind, txt in box_rows:
        print("  %-42s %-36s %s" % ("%s:%d" % (rel, ln), kind, txt[:110]))
    print()
    print("(B) reads of size()/min_size()/max_size()/flex_basis() (and of their raw copies): %d" % len(read_rows))
    for rel, ln, what, cls, ex in read_rows:
        print("  %-42s %-16s %s" % ("%s:%d" % (rel, ln), what, cls))
        print(ex)
    print()
    counts = {}
    for r in read_rows:
        key = r[3] if not r[3].startswith("UNRECOGNISED") else "UNRECOGNISED"
        counts[key] = counts.get(key, 0) + 1
    kinds = {}
    for r in box_rows:
        kinds[r[2]] = kinds.get(r[2], 0) + 1
    print("SUMMARY")
    print("  files scanned:", len(files))
    print("  (A) by kind (per line):", ", ".join("%s=%d" % kv for kv in sorted(kinds.items())))
    print("  (A) distinct `let box_sizing_adjustment = …` bindings:",
          sum(1 for r in box_rows if re.search(r"let\s+box_sizing_adjustment", r[3])))
    print("  (B) by class:", ", ".join("%s=%d" % kv for kv in sorted(counts.items())))
    bad = [r for r in read_rows if r[3].startswith("UNRECOGNISED")]
    if bad:
        print("  UNRECOGNISED reads (candidate violations of StyleReadsThroughSites):")
        for rel, ln, what, cls, ex in bad:
            print("    %s:%d  %s  %s" % (rel, ln, what, cls))
    else:
        print("  no unrecognised read")
    if strict and bad:
        sys.exit(1)


if __name__ == "__main__":
    main()
