#!/bin/sh
# notes/mk_sandbox.sh <id> — private copy of /verif and a worktree of /repo under /tmp/w_<id>
set -e
W=/tmp/w_$1
mkdir -p $W
git -C /repo worktree add --detach $W/repo HEAD >/dev/null 2>&1
rsync -a --exclude .git --exclude .cache --exclude replays /verif/ $W/verif/
echo $W
