#!/bin/sh
# notes/register.sh <Cxx> <rust module name>  — add driver handler + harness module registrations
P=$1; M=$2
cd /verif
grep -q "import TaffyVerif.Drv.$P\$" lean/Main.lean || sed -i "s/^import TaffyVerif.Drv.C02\$/import TaffyVerif.Drv.C02\nimport TaffyVerif.Drv.$P/" lean/Main.lean
grep -q "(\"$P\", Drv$P.handler)" lean/Main.lean || sed -i "s/^  (\"C02\", DrvC02.handler),\$/  (\"C02\", DrvC02.handler),\n  (\"$P\", Drv$P.handler),/" lean/Main.lean
grep -q "^mod $M;" harness/src/main.rs || sed -i "s/^mod c02;\$/mod c02;\nmod $M;/" harness/src/main.rs
grep -q "\"$P\" => $M::run" harness/src/main.rs || sed -i "s/^        \"C02\" => c02::run(&cfg, &mut out),\$/        \"C02\" => c02::run(\&cfg, \&mut out),\n        \"$P\" => $M::run(\&cfg, \&mut out),/" harness/src/main.rs
grep -n "$P" lean/Main.lean harness/src/main.rs
