#!/bin/sh
# notes/run_all_against.sh <patch file> [checks…] — apply a seeded change to /repo, run the given (default: all) quick checks, undo.
# Prints one line per check: <id> caught(input) | caught(no-input) | MISSED
P=$(realpath "$1"); shift
CH=${@:-C01 C02 C03 C04 C05 C06 C07 C08 C09 C10 C11 C12 C13 C14 C15 C16 C17 C18 C19}
cd /verif
export VERIF_EVIDENCE_DIR=/tmp/seeded_evidence
git -C /repo apply "$P" || { echo "patch does not apply"; exit 1; }
for c in $CH; do
  out=$(./check $c 2>&1 | grep "VIOLATION\|^\[check\]")
  if echo "$out" | grep -q "no-failing-input-found"; then echo "$c caught(no-input)";
  elif echo "$out" | grep -q "VIOLATION"; then echo "$c caught(input)";
  else echo "$c MISSED"; fi
done
git -C /repo checkout -- .
git -C /repo status --short | head -3
