#!/usr/bin/env python3
"""notes/seed_result.py <sandbox dir> <seed id> [<strengthening>] — compose the 'result' line of seeded/<id>/meta.json from what the sandbox run of
./check produced (check_<id>.log, seeded_evidence/<prop>.json, the replay file) and write meta.json through seed_meta.py's format."""
import json, sys, os, re, subprocess
S, sid = sys.argv[1], sys.argv[2]
strengthening = sys.argv[3] if len(sys.argv) > 3 else "none needed"
prop = sid.split("-")[0]
log = open(f"{S}/check_{sid}.log").read()
ev = {}
try: ev = json.load(open(f"{S}/seeded_evidence/{prop}.json"))
except Exception: pass
cov = ev.get("coverage", {})
broken = cov.get("broken_theorems", [])
extract_err = [l for l in cov.get("extractor", []) if "EXTRACT-ERROR" in l]
m = re.search(r"VIOLATION property=\S+ replay=(\S+)( no-failing-input-found)?", log)
summ = re.search(r"\[check\] C\d\d tier=.*", log)
if not m:
    result = f"MISSED by ./check {prop} ({summ.group(0) if summ else 'no summary line'})"
else:
    rp = {}
    try: rp = json.load(open(m.group(1)))
    except Exception: pass
    what = str(rp.get("what", ""))[:260]
    diffs = re.search(r"diffs (\d+), monitor failures (\d+)", log)
    bits = []
    if rp.get("kind") == "failing-input" and not m.group(2):
        head = f"caught by ./check {prop} with a failing input ({rp.get('source', '')}: {what}"
    else:
        head = f"reported by ./check {prop} WITHOUT a failing input (no-failing-input-found; replay names: {what}"
    if diffs: bits.append(f"{diffs.group(1)} answer lines differ, {diffs.group(2)} monitor failures")
    if broken: bits.append("broken theorems: " + ", ".join(b.split(" (")[0] for b in broken[:4]) + (" …" if len(broken) > 4 else ""))
    if extract_err: bits.append("extractor: " + extract_err[0][:160])
    result = head + "; " + "; ".join(bits) + ")"
print(result)
subprocess.run([sys.executable, "/verif/notes/seed_meta.py", sid, result, strengthening], check=True)
