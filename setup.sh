#!/bin/sh
# Build the framework from files on disk only (offline): Lean theorems + driver, extractor, harness.
set -e
cd "$(dirname "$0")"
export CARGO_NET_OFFLINE=true
export CARGO_TARGET_DIR="$(pwd)/.cache/target"
REPO="${VERIF_REPO:-$(cd .. && pwd)/repo}"
[ -d "$REPO" ] || REPO=/repo
mkdir -p .cache
if [ -d extract ]; then (cd extract && cargo build --release --quiet 2>&1 | tail -5) ; fi
if [ -x .cache/target/release/tvextract ]; then .cache/target/release/tvextract "$REPO" lean/TaffyVerif/Generated || true; fi
(cd lean && lake build TaffyVerif tvdriver 2>&1 | tail -15)
(cd harness && cargo build --release --quiet 2>&1 | tail -5)
echo "setup done"
