//! FLEX — correspondence of the whole flexbox model (lean/TaffyVerif/Model/Flex.lean) with `compute_flexbox_layout`.
//! Runs the real algorithm through `TaffyTree` on generated flex containers and records, via the `taffy::verif_trace`
//! hook, every cache-missing invocation of the container under test: its `LayoutInput`, every child query it made (child
//! index, input, output — in order), every layout it set and its `LayoutOutput` (same stream format as C10).
//!
//! request : `flex <11 input tokens> <46 container style tokens> <n> <n × 46 child style tokens>
//!                 <m> <m × (child, 11 input tokens, 11 output tokens)>`
//! answer  : `<11 output tokens> | <k> <k × (child, 21 layout tokens)> | q ok`
//! The Lean side runs `FlexModel.computeFlexboxLayout` with the recorded child answers as oracle, requiring that its
//! queries are exactly the recorded ones in the recorded order.
use crate::c02::{show_av, show_mode};
use crate::common::*;
use crate::stylefmt::*;
use crate::treegen::*;
use taffy::prelude::*;
use taffy::style::Overflow;
use taffy::verif_trace::{self, VerifEvent};
use taffy::{BoxSizing, Layout, LayoutInput, LayoutOutput, Point, RequestedAxis, RunMode, SizingMode};

fn show_input(i: &LayoutInput) -> String {
    format!(
        "{} {} {} {} {} {} {} {} {} {} {}",
        show_mode(i.run_mode),
        match i.sizing_mode {
            SizingMode::InherentSize => "I",
            SizingMode::ContentSize => "C",
        },
        match i.axis {
            RequestedAxis::Horizontal => "h",
            RequestedAxis::Vertical => "v",
            RequestedAxis::Both => "b",
        },
        hxo(i.known_dimensions.width),
        hxo(i.known_dimensions.height),
        hxo(i.parent_size.width),
        hxo(i.parent_size.height),
        show_av(i.available_space.width),
        show_av(i.available_space.height),
        if i.vertical_margins_are_collapsible.start { 1 } else { 0 },
        if i.vertical_margins_are_collapsible.end { 1 } else { 0 },
    )
}

/// 11 tokens, raw bits (`z` = map −0.0 to +0.0, used for answers)
fn show_output(o: &LayoutOutput, z: bool) -> String {
    let f = |x: f32| if z { hxz(x) } else { hx(x) };
    let fo = |x: Option<f32>| match x {
        None => "-".to_string(),
        Some(v) => f(v),
    };
    let (tp, tn) = o.top_margin.verif_parts();
    let (bp, bn) = o.bottom_margin.verif_parts();
    format!(
        "{} {} {} {} {} {} {} {} {} {} {}",
        f(o.size.width),
        f(o.size.height),
        f(o.content_size.width),
        f(o.content_size.height),
        fo(o.first_baselines.x),
        fo(o.first_baselines.y),
        f(tp),
        f(tn),
        f(bp),
        f(bn),
        if o.margins_can_collapse_through { 1 } else { 0 }
    )
}

/// one recorded invocation of the container under test
struct Invocation {
    input: LayoutInput,
    output: LayoutOutput,
    queries: Vec<(usize, LayoutInput, LayoutOutput)>,
    sets: Vec<(usize, Layout)>,
}

/// reconstruct the cache-missing invocations of `node` from the flat event list
fn invocations(events: &[VerifEvent], node: u64, kids: &[u64]) -> Result<Vec<Invocation>, String> {
    let mut res = vec![];
    let mut stack: Vec<u64> = vec![];
    let mut open: Option<(usize, Invocation)> = None; // (stack depth of the frame, invocation)
    let idx_of = |id: u64| kids.iter().position(|k| *k == id);
    for e in events {
        match e {
            VerifEvent::Enter(id, inp) => {
                if let Some((d, _)) = open.as_ref() {
                    if stack.len() == *d + 1 && idx_of(*id).is_none() {
                        return Err("query to a non-child".into());
                    }
                }
                stack.push(*id);
                if *id == node && open.is_none() {
                    open = Some((stack.len() - 1, Invocation { input: *inp, output: LayoutOutput::HIDDEN, queries: vec![], sets: vec![] }));
                }
            }
            VerifEvent::Exit(id, inp, outp) => {
                let top = stack.pop().ok_or("exit without enter")?;
                if top != *id {
                    return Err("unbalanced trace".into());
                }
                let mut close = false;
                if let Some((d, inv)) = open.as_mut() {
                    if stack.len() == *d + 1 {
                        let k = idx_of(*id).ok_or("query to a non-child")?;
                        inv.queries.push((k, *inp, *outp));
                    } else if stack.len() == *d {
                        inv.output = *outp;
                        close = true;
                    }
                }
                if close {
                    res.push(open.take().unwrap().1);
                }
            }
            VerifEvent::Hit(id, inp, outp) => {
                if let Some((d, inv)) = open.as_mut() {
                    if stack.len() == *d + 1 {
                        let k = idx_of(*id).ok_or("query to a non-child")?;
                        inv.queries.push((k, *inp, *outp));
                    }
                }
            }
            VerifEvent::Hidden(id, _inp) => {
                if let Some((d, _)) = open.as_ref() {
                    if stack.len() == *d + 1 {
                        let _ = idx_of(*id).ok_or("query to a non-child")?;
                        return Err("hidden-mode query issued by a flex container".into());
                    }
                }
            }
            VerifEvent::Set(id, l) => {
                if let Some((d, inv)) = open.as_mut() {
                    if stack.len() == *d + 1 {
                        let k = idx_of(*id).ok_or("layout set on a non-child")?;
                        inv.sets.push((k, *l));
                    }
                }
            }
        }
    }
    Ok(res)
}

// ---------------------------------------------------------------------------------------------------------
// generators

fn g_dim(r: &mut Rng, auto_w: usize) -> Dimension {
    match r.below(auto_w + 7) {
        0 => Dimension::length(0.0),
        1 => Dimension::percent(*r.pick(&[0.0, 0.25, 0.5, 1.0, 1.5])),
        2 => Dimension::length(r.range(0, 400) as f32 * 0.25),
        3 | 4 => Dimension::length(*r.pick(&[10.0, 20.0, 40.0, 62.5, 100.0, 150.0, 300.0])),
        5 => Dimension::length(r.range(0, 60) as f32 * 2.5),
        6 => Dimension::length(*r.pick(&[0.5, 0.875, 1.0, 1.5, 3.0])),
        _ => Dimension::auto(),
    }
}
fn g_pb(r: &mut Rng) -> LengthPercentage {
    match r.below(8) {
        0..=3 => LengthPercentage::length(0.0),
        4 => LengthPercentage::percent(*r.pick(&[0.0, 0.125, 0.25])),
        _ => LengthPercentage::length(*r.pick(&[1.0, 2.5, 5.0, 10.0, 0.25])),
    }
}
fn g_rect_pb(r: &mut Rng) -> Rect<LengthPercentage> {
    Rect { left: g_pb(r), right: g_pb(r), top: g_pb(r), bottom: g_pb(r) }
}
fn g_margin(r: &mut Rng) -> LengthPercentageAuto {
    match r.below(12) {
        0 | 1 => LengthPercentageAuto::auto(),
        2 => LengthPercentageAuto::percent(*r.pick(&[0.125, 0.25, -0.125, 0.0])),
        3 | 4 => LengthPercentageAuto::length(*r.pick(&[-8.0, -5.0, -20.0, -2.5])),
        5..=7 => LengthPercentageAuto::length(0.0),
        _ => LengthPercentageAuto::length(*r.pick(&[2.5, 5.0, 10.0, 20.0, 7.5])),
    }
}
fn g_gap(r: &mut Rng) -> LengthPercentage {
    match r.below(6) {
        0 | 1 => LengthPercentage::length(0.0),
        2 => LengthPercentage::percent(*r.pick(&[0.0, 0.125, 0.25, 0.5])),
        _ => LengthPercentage::length(*r.pick(&[2.5, 5.0, 10.0, 20.0, 0.5])),
    }
}
fn g_ai(r: &mut Rng) -> Option<AlignItems> {
    *r.pick(&[
        None,
        None,
        Some(AlignItems::Start),
        Some(AlignItems::End),
        Some(AlignItems::FlexStart),
        Some(AlignItems::FlexEnd),
        Some(AlignItems::Center),
        Some(AlignItems::Baseline),
        Some(AlignItems::Baseline),
        Some(AlignItems::Stretch),
    ])
}
fn g_ac(r: &mut Rng) -> Option<AlignContent> {
    *r.pick(&[
        None,
        None,
        Some(AlignContent::Start),
        Some(AlignContent::End),
        Some(AlignContent::FlexStart),
        Some(AlignContent::FlexEnd),
        Some(AlignContent::Center),
        Some(AlignContent::Stretch),
        Some(AlignContent::SpaceBetween),
        Some(AlignContent::SpaceEvenly),
        Some(AlignContent::SpaceAround),
    ])
}

/// which feature classes the generator may use (for widening the domain step by step while debugging)
#[derive(Clone, Copy)]
struct Feat {
    level: u32,
}

/// box-model fields shared by containers and items
fn box_fields(r: &mut Rng, s: &mut Style, is_container: bool) {
    s.size = Size { width: g_dim(r, if is_container { 4 } else { 8 }), height: g_dim(r, if is_container { 6 } else { 8 }) };
    s.min_size = Size::auto();
    s.max_size = Size::auto();
    if r.chance(1, 4) {
        s.min_size = Size { width: g_dim(r, 6), height: g_dim(r, 6) };
    }
    if r.chance(1, 4) {
        s.max_size = Size { width: g_dim(r, 6), height: g_dim(r, 6) };
    }
    s.aspect_ratio = if r.chance(1, 10) { Some(*r.pick(&[0.5, 1.0, 2.0, 4.0])) } else { None };
    s.margin = Rect::zero();
    if r.chance(1, 2) {
        s.margin = Rect { left: g_margin(r), right: g_margin(r), top: g_margin(r), bottom: g_margin(r) };
    }
    s.padding = Rect::zero();
    s.border = Rect::zero();
    if r.chance(1, 4) {
        s.padding = g_rect_pb(r);
    }
    if r.chance(1, 5) {
        s.border = g_rect_pb(r);
    }
    s.box_sizing = if r.chance(1, 7) { BoxSizing::ContentBox } else { BoxSizing::BorderBox };
    s.overflow = Point { x: Overflow::Visible, y: Overflow::Visible };
    if r.chance(1, 5) {
        s.overflow = Point { x: gen_overflow(r), y: gen_overflow(r) };
    }
    s.scrollbar_width = if r.chance(1, 3) { *r.pick(&[4.0, 15.0]) } else { 0.0 };
    s.inset = Rect::auto();
    s.position = Position::Relative;
}

/// flex item fields
fn item_fields(r: &mut Rng, s: &mut Style) {
    s.flex_basis = if r.chance(1, 3) { g_dim(r, 2) } else { Dimension::auto() };
    s.flex_grow = *r.pick(&[0.0, 0.0, 0.0, 1.0, 1.0, 2.0, 0.5, 0.25, 3.0]);
    s.flex_shrink = *r.pick(&[1.0, 1.0, 1.0, 0.0, 0.0, 2.0, 0.5, 0.25]);
    s.align_self = if r.chance(1, 2) { g_ai(r) } else { None };
}

/// flex container fields
fn container_fields(r: &mut Rng, s: &mut Style) {
    s.display = Display::Flex;
    s.flex_direction = *r.pick(&[FlexDirection::Row, FlexDirection::Row, FlexDirection::Column, FlexDirection::RowReverse, FlexDirection::ColumnReverse]);
    s.flex_wrap = *r.pick(&[FlexWrap::NoWrap, FlexWrap::NoWrap, FlexWrap::Wrap, FlexWrap::Wrap, FlexWrap::WrapReverse]);
    s.justify_content = g_ac(r);
    s.align_content = g_ac(r);
    s.align_items = g_ai(r);
    s.gap = Size::zero();
    if r.chance(1, 2) {
        s.gap = Size { width: g_gap(r), height: g_gap(r) };
    }
}

fn child_position(r: &mut Rng, s: &mut Style) {
    if r.chance(1, 9) {
        s.position = Position::Absolute;
        s.inset = Rect { left: gen_inset(r), right: gen_inset(r), top: gen_inset(r), bottom: gen_inset(r) };
    } else if r.chance(1, 8) {
        s.inset = Rect { left: gen_inset(r), right: gen_inset(r), top: gen_inset(r), bottom: gen_inset(r) };
    }
}

fn leaf(style: Style, ctx: Option<Ctx>) -> TreeDesc {
    TreeDesc { style, ctx, children: vec![] }
}

fn g_ctx(r: &mut Rng) -> Option<Ctx> {
    match r.below(8) {
        0 => None,
        1 | 2 | 3 => Some(Ctx::Wrap(r.range(1, 30) as f32 * 4.0, r.range(1, 8) as f32 * 2.5)),
        4 => Some(Ctx::Fixed(r.range(0, 60) as f32 * 0.5, 0.0)),
        5 => Some(Ctx::Fixed(*r.pick(&[0.5, 0.25, 1.0, 0.0]), r.range(0, 40) as f32 * 0.5)),
        _ => Some(Ctx::Fixed(r.range(0, 60) as f32 * 0.5, r.range(0, 40) as f32 * 0.5)),
    }
}

/// a child subtree of the container under test
fn gen_child(r: &mut Rng, depth: usize, f: Feat) -> TreeDesc {
    let kind = r.below(16);
    let mut d = match kind {
        // leaf (any display value: a childless node is a leaf)
        0..=8 => {
            let mut s = Style::DEFAULT;
            s.display = *r.pick(&[Display::Block, Display::Flex, Display::Flex, Display::Grid]);
            box_fields(r, &mut s, false);
            leaf(s, g_ctx(r))
        }
        // nested flex container built here (baselines of nested children, percentages)
        9..=11 if depth < 2 => {
            let mut s = Style::DEFAULT;
            box_fields(r, &mut s, true);
            container_fields(r, &mut s);
            let n = r.below(4);
            let children = (0..n).map(|_| gen_child(r, depth + 1, f)).collect();
            TreeDesc { style: s, ctx: None, children }
        }
        // nested block / flex / grid subtree from the shared tree generator
        _ => {
            let mut c = GenCfg::only(&[*r.pick(&[Display::Flex, Display::Grid, Display::Block])]);
            c.max_nodes = 4;
            c.max_depth = 2;
            let mut t = gen_tree(r, &c);
            t.style.position = Position::Relative;
            t.style.inset = Rect::auto();
            if t.style.display == Display::None {
                t.style.display = Display::Block;
            }
            t
        }
    };
    item_fields(r, &mut d.style);
    if f.level >= 2 {
        child_position(r, &mut d.style);
        if r.chance(1, 14) {
            d.style.display = Display::None;
        }
    }
    d
}

fn gen_container(r: &mut Rng, f: Feat) -> TreeDesc {
    let mut s = Style::DEFAULT;
    box_fields(r, &mut s, true);
    container_fields(r, &mut s);
    item_fields(r, &mut s);
    let n = r.below(7);
    let children: Vec<TreeDesc> = (0..n).map(|_| gen_child(r, 0, f)).collect();
    TreeDesc { style: s, ctx: None, children }
}

fn flex_style() -> Style {
    let mut s = Style::DEFAULT;
    s.display = Display::Flex;
    s
}

/// fixed cases
fn fixed_cases() -> Vec<(TreeDesc, Vec<usize>, Size<AvailableSpace>, &'static str)> {
    let mut v = vec![];
    // the C04 known-finding witness: auto-width flex row under max-content, item flex-basis 0.875, flex-shrink 0.5,
    // content width 0.5 (the "floor at 1" of flex_shrink * inner_flex_basis in determine_container_main_size)
    for k in [1.0f32, 4.0] {
        let root = flex_style();
        let mut it = flex_style();
        it.flex_basis = Dimension::length(0.875 * k);
        it.flex_shrink = 0.5;
        let d = TreeDesc { style: root, ctx: None, children: vec![leaf(it, Some(Ctx::Fixed(0.5 * k, 10.0 * k)))] };
        v.push((d, vec![], Size::MAX_CONTENT, "fixed-c04-shrink-floor-at-one"));
    }
    // plain rows / columns of fixed leaves, every justify-content, definite and content sizes
    for (i, dir) in [FlexDirection::Row, FlexDirection::Column, FlexDirection::RowReverse, FlexDirection::ColumnReverse].iter().enumerate() {
        for jc in [None, Some(JustifyContent::Center), Some(JustifyContent::SpaceBetween), Some(JustifyContent::SpaceAround), Some(JustifyContent::SpaceEvenly), Some(JustifyContent::End)] {
            let mut root = flex_style();
            root.flex_direction = *dir;
            root.justify_content = jc;
            root.size = Size { width: Dimension::length(200.0), height: if i % 2 == 0 { Dimension::length(100.0) } else { Dimension::auto() } };
            root.gap = Size { width: LengthPercentage::length(5.0), height: LengthPercentage::percent(0.125) };
            let kids = (0..3)
                .map(|j| {
                    let mut s = flex_style();
                    s.flex_grow = if jc.is_none() { j as f32 } else { 0.0 };
                    leaf(s, Some(Ctx::Fixed(20.0 + 10.0 * j as f32, 10.0 + 5.0 * j as f32)))
                })
                .collect();
            v.push((TreeDesc { style: root, ctx: None, children: kids }, vec![], Size::MAX_CONTENT, "fixed-plain"));
        }
    }
    // wrapping with align-content and wrap-reverse
    for wrap in [FlexWrap::Wrap, FlexWrap::WrapReverse] {
        for ac in [None, Some(AlignContent::Center), Some(AlignContent::SpaceBetween), Some(AlignContent::SpaceAround), Some(AlignContent::SpaceEvenly), Some(AlignContent::FlexEnd)] {
            let mut root = flex_style();
            root.flex_wrap = wrap;
            root.align_content = ac;
            root.size = Size { width: Dimension::length(100.0), height: Dimension::length(120.0) };
            root.gap = Size { width: LengthPercentage::length(5.0), height: LengthPercentage::length(2.5) };
            let kids = (0..5).map(|j| leaf(flex_style(), Some(Ctx::Fixed(30.0 + 5.0 * j as f32, 10.0 + 2.5 * j as f32)))).collect();
            v.push((TreeDesc { style: root, ctx: None, children: kids }, vec![], Size { width: AvailableSpace::Definite(300.0), height: AvailableSpace::MaxContent }, "fixed-wrap"));
        }
    }
    // baseline alignment with nested children
    {
        let mut root = flex_style();
        root.align_items = Some(AlignItems::Baseline);
        root.size.width = Dimension::length(300.0);
        let mut a = flex_style();
        a.flex_direction = FlexDirection::Column;
        a.padding.top = LengthPercentage::length(10.0);
        let a = TreeDesc { style: a, ctx: None, children: vec![leaf(flex_style(), Some(Ctx::Fixed(30.0, 20.0))), leaf(flex_style(), Some(Ctx::Fixed(10.0, 5.0)))] };
        let mut b = flex_style();
        b.margin.top = LengthPercentageAuto::length(7.5);
        let b = leaf(b, Some(Ctx::Wrap(80.0, 10.0)));
        let mut c = flex_style();
        c.align_self = Some(AlignSelf::Center);
        let c = leaf(c, Some(Ctx::Fixed(10.0, 40.0)));
        v.push((TreeDesc { style: root, ctx: None, children: vec![a, b, c] }, vec![], Size::MAX_CONTENT, "fixed-baseline"));
    }
    // absolute + hidden children, auto margins, min/max-content
    {
        let mut root = flex_style();
        root.padding = Rect { left: LengthPercentage::length(5.0), right: LengthPercentage::length(10.0), top: LengthPercentage::length(2.5), bottom: LengthPercentage::length(0.0) };
        root.border = Rect { left: LengthPercentage::length(1.0), right: LengthPercentage::length(1.0), top: LengthPercentage::length(1.0), bottom: LengthPercentage::length(1.0) };
        let mut a = flex_style();
        a.position = Position::Absolute;
        a.inset.right = LengthPercentageAuto::length(5.0);
        a.inset.top = LengthPercentageAuto::percent(0.25);
        let mut h = flex_style();
        h.display = Display::None;
        let mut m = flex_style();
        m.margin.left = LengthPercentageAuto::auto();
        m.margin.top = LengthPercentageAuto::auto();
        let kids = vec![leaf(a, Some(Ctx::Fixed(10.0, 10.0))), leaf(flex_style(), Some(Ctx::Wrap(100.0, 10.0))), leaf(h, Some(Ctx::Fixed(10.0, 10.0))), leaf(m, Some(Ctx::Fixed(20.0, 10.0)))];
        for av in [Size::MAX_CONTENT, Size::MIN_CONTENT, Size { width: AvailableSpace::Definite(80.0), height: AvailableSpace::Definite(50.0) }] {
            v.push((TreeDesc { style: root.clone(), ctx: None, children: kids.clone() }, vec![], av, "fixed-abs-hidden-auto"));
        }
    }
    v
}

// ---------------------------------------------------------------------------------------------------------
// the inexact stream: every length / percentage / factor / content size of the whole tree is multiplied by a non-dyadic
// constant, so that (almost) every f32 operation on the path rounds and the order of the model's arithmetic is
// compared with the implementation's, not only its value over exact numbers

fn sc_raw(c: taffy::style::CompactLength, fl: f32, fp: f32) -> taffy::style::CompactLength {
    use taffy::style::CompactLength as CL;
    match c.tag() {
        CL::LENGTH_TAG => CL::length(c.value() * fl),
        CL::PERCENT_TAG => CL::percent(c.value() * fp),
        _ => c,
    }
}
fn sc_dim(d: Dimension, fl: f32, fp: f32) -> Dimension {
    let c = sc_raw(d.into_raw(), fl, fp);
    match c.tag() {
        taffy::style::CompactLength::LENGTH_TAG => Dimension::length(c.value()),
        taffy::style::CompactLength::PERCENT_TAG => Dimension::percent(c.value()),
        _ => d,
    }
}
fn sc_lp(d: LengthPercentage, fl: f32, fp: f32) -> LengthPercentage {
    let c = sc_raw(d.into_raw(), fl, fp);
    match c.tag() {
        taffy::style::CompactLength::LENGTH_TAG => LengthPercentage::length(c.value()),
        _ => LengthPercentage::percent(c.value()),
    }
}
fn sc_lpa(d: LengthPercentageAuto, fl: f32, fp: f32) -> LengthPercentageAuto {
    let c = sc_raw(d.into_raw(), fl, fp);
    match c.tag() {
        taffy::style::CompactLength::LENGTH_TAG => LengthPercentageAuto::length(c.value()),
        taffy::style::CompactLength::PERCENT_TAG => LengthPercentageAuto::percent(c.value()),
        _ => d,
    }
}
fn roughen(d: &mut TreeDesc, fl: f32, fp: f32, ff: f32) {
    d.map_styles(&mut |s: &mut Style, ctx: &mut Option<Ctx>| {
        s.size = s.size.map(|x| sc_dim(x, fl, fp));
        s.min_size = s.min_size.map(|x| sc_dim(x, fl, fp));
        s.max_size = s.max_size.map(|x| sc_dim(x, fl, fp));
        s.flex_basis = sc_dim(s.flex_basis, fl, fp);
        s.margin = s.margin.map(|x| sc_lpa(x, fl, fp));
        s.inset = s.inset.map(|x| sc_lpa(x, fl, fp));
        s.padding = s.padding.map(|x| sc_lp(x, fl, fp));
        s.border = s.border.map(|x| sc_lp(x, fl, fp));
        s.gap = s.gap.map(|x| sc_lp(x, fl, fp));
        s.scrollbar_width *= fl;
        s.flex_grow *= ff;
        s.flex_shrink *= ff;
        s.aspect_ratio = s.aspect_ratio.map(|a| a * fp);
        *ctx = match *ctx {
            Some(Ctx::Fixed(w, h)) => Some(Ctx::Fixed(w * fl, h * fl)),
            Some(Ctx::Wrap(w, h)) => Some(Ctx::Wrap(w * fl, h * fl)),
            None => None,
        };
    });
}

fn node_at(t: &TaffyTree<Ctx>, root: NodeId, path: &[usize]) -> NodeId {
    let mut n = root;
    for k in path {
        n = t.children(n).unwrap()[*k];
    }
    n
}
fn desc_at<'a>(d: &'a TreeDesc, path: &[usize]) -> &'a TreeDesc {
    let mut n = d;
    for k in path {
        n = &n.children[*k];
    }
    n
}

fn run_case(out: &mut Out, d: &TreeDesc, path: &[usize], avail: Size<AvailableSpace>) {
    let cdesc = desc_at(d, path);
    let res = catch(|| {
        let mut t: TaffyTree<Ctx> = TaffyTree::new();
        t.disable_rounding();
        let root = d.build(&mut t);
        let c = node_at(&t, root, path);
        let kids: Vec<u64> = t.children(c).unwrap().iter().map(|k| u64::from(*k)).collect();
        verif_trace::start();
        t.compute_layout_with_measure(root, avail, |k, a, _id, ctx, _style| measure(k, a, ctx)).unwrap();
        let ev = verif_trace::take();
        invocations(&ev, u64::from(c), &kids)
    });
    let invs = match res {
        Ok(Ok(v)) => v,
        Ok(Err(e)) => {
            out.notes.push(format!("case {}: trace reconstruction failed: {e}", out.cur_case));
            out.count("trace-error");
            return;
        }
        Err(_) => {
            let _ = verif_trace::take();
            out.count("panic");
            return;
        }
    };
    if cdesc.children.is_empty() {
        // a childless flex node is dispatched to compute_leaf_layout: no invocation of the flex algorithm
        out.count("container:childless(leaf)");
        return;
    }
    let mut head = String::new();
    head.push_str(&style_line(&cdesc.style));
    head.push_str(&format!(" {}", cdesc.children.len()));
    for ch in &cdesc.children {
        head.push(' ');
        head.push_str(&style_line(&ch.style));
    }
    out.count(&format!("invocations:{}", invs.len().min(6)));
    for inv in &invs {
        let mut req = format!("flex {} {} {}", show_input(&inv.input), head, inv.queries.len());
        for (k, i, o) in &inv.queries {
            req.push_str(&format!(" {} {} {}", k, show_input(i), show_output(o, false)));
        }
        let mut ans = format!("{} | {}", show_output(&inv.output, true), inv.sets.len());
        for (k, l) in &inv.sets {
            ans.push_str(&format!(" {} {}", k, layout_line(l)));
        }
        ans.push_str(" | q ok");
        out.qa(&req, &ans);
        out.count(&format!("mode:{}", show_mode(inv.input.run_mode)));
        out.count(&format!("sizing:{}", if inv.input.sizing_mode == SizingMode::InherentSize { "inherent" } else { "content" }));
        out.count(&format!("queries:{}", inv.queries.len().min(24)));
        out.count(&format!(
            "known:{}{}",
            if inv.input.known_dimensions.width.is_some() { "w" } else { "-" },
            if inv.input.known_dimensions.height.is_some() { "h" } else { "-" }
        ));
        out.count(&format!("avail:{}/{}", &show_av(inv.input.available_space.width)[..2], &show_av(inv.input.available_space.height)[..2]));
        // kinds of child queries: S=ComputeSize/L=PerformLayout, C=ContentSize/I=InherentSize, requested axis relative to the main axis
        let row = matches!(cdesc.style.flex_direction, FlexDirection::Row | FlexDirection::RowReverse);
        for (k, i, _) in &inv.queries {
            let ch = &cdesc.children[*k].style;
            let kind = if ch.display == Display::None {
                "hidden-child".to_string()
            } else if ch.position == Position::Absolute {
                "absolute-child".to_string()
            } else {
                match (i.run_mode, i.sizing_mode, i.axis) {
                    (RunMode::ComputeSize, SizingMode::InherentSize, _) => "intrinsic-contribution".to_string(),
                    (RunMode::ComputeSize, SizingMode::ContentSize, ax) => {
                        let main = (ax == RequestedAxis::Horizontal) == row;
                        if main {
                            let m = if row { i.available_space.width } else { i.available_space.height };
                            format!("main-size-under-{}", &show_av(m)[..3])
                        } else {
                            "hypothetical-cross".to_string()
                        }
                    }
                    _ => "perform-layout(baseline/final)".to_string(),
                }
            };
            out.count(&format!("query:{kind}"));
        }
        if inv.output.first_baselines.y.is_some() {
            out.count("out:baseline");
        }
        if inv.sets.len() >= 2 || inv.queries.len() >= 4 {
            out.nontrivial();
        }
    }
    let s = &cdesc.style;
    out.count(&format!("dir:{:?}", s.flex_direction));
    out.count(&format!("wrap:{:?}", s.flex_wrap));
    out.count(&format!("jc:{:?}", s.justify_content));
    out.count(&format!("ac:{:?}", s.align_content));
    out.count(&format!("ai:{:?}", s.align_items));
    out.count(&format!("children:{}", cdesc.children.len()));
    for ch in &cdesc.children {
        let s = &ch.style;
        out.count(&format!(
            "child:{}",
            if s.display == Display::None {
                "hidden"
            } else if s.position == Position::Absolute {
                "absolute"
            } else if ch.children.is_empty() {
                match ch.ctx {
                    Some(Ctx::Fixed(..)) => "leaf-fixed",
                    Some(Ctx::Wrap(..)) => "leaf-wrap",
                    None => "leaf-empty",
                }
            } else {
                match s.display {
                    Display::Block => "block",
                    Display::Flex => "flex",
                    Display::Grid => "grid",
                    Display::None => "hidden",
                }
            }
        ));
        if s.align_self == Some(AlignSelf::Baseline) {
            out.count("child:align-self-baseline");
        }
        if s.margin.left == LengthPercentageAuto::auto() || s.margin.top == LengthPercentageAuto::auto() {
            out.count("child:auto-margin");
        }
    }
}

/// debugging aid only: `FLEX_LEVEL=0` restricts the domain to root containers without absolute / hidden children,
/// `1` adds the parent placements, `>= 2` (default) is the whole domain
fn feat_level() -> u32 {
    std::env::var("FLEX_LEVEL").ok().and_then(|v| v.parse().ok()).unwrap_or(9)
}

pub fn run(cfg: &Cfg, out: &mut Out) -> String {
    let n = cfg.n(4000, 100_000);
    let f = Feat { level: feat_level() };
    let mut idx = 0u64;
    for (d, path, avail, label) in fixed_cases() {
        if cfg.wants(idx) {
            out.begin_case(idx, label);
            run_case(out, &d, &path, avail);
        }
        idx += 1;
    }
    for _ in 0..n {
        if cfg.wants(idx) {
            let mut r = Rng::for_case(cfg.seed, idx);
            let c = gen_container(&mut r, f);
            // placement of the container under test: root, or one level down in a block / flex / grid parent
            let (d, path, label) = match if f.level >= 1 { r.below(10) } else { 0 } {
                0..=2 => (c, vec![], "root"),
                3..=4 => {
                    let mut p = Style::DEFAULT;
                    box_fields(&mut r, &mut p, true);
                    p.display = Display::Block;
                    let mut kids = vec![];
                    if r.chance(1, 3) {
                        kids.push(gen_child(&mut r, 2, f));
                    }
                    let k = kids.len();
                    let mut c = c;
                    child_position(&mut r, &mut c.style);
                    kids.push(c);
                    if r.chance(1, 3) {
                        kids.push(gen_child(&mut r, 2, f));
                    }
                    (TreeDesc { style: p, ctx: None, children: kids }, vec![k], "in-block")
                }
                5..=7 => {
                    let mut p = Style::DEFAULT;
                    box_fields(&mut r, &mut p, true);
                    container_fields(&mut r, &mut p);
                    let mut kids = vec![];
                    if r.chance(1, 2) {
                        kids.push(gen_child(&mut r, 2, f));
                    }
                    let k = kids.len();
                    let mut c = c;
                    child_position(&mut r, &mut c.style);
                    kids.push(c);
                    if r.chance(1, 2) {
                        kids.push(gen_child(&mut r, 2, f));
                    }
                    (TreeDesc { style: p, ctx: None, children: kids }, vec![k], "in-flex")
                }
                _ => {
                    let mut cfgg = GenCfg::only(&[Display::Grid]);
                    cfgg.max_nodes = 1;
                    let mut p = gen_tree(&mut r, &cfgg).style;
                    p.display = Display::Grid;
                    p.grid_template_columns = if r.chance(1, 2) { vec![] } else { vec![fr(1.0), length(60.0)] };
                    p.grid_template_rows = if r.chance(1, 2) { vec![] } else { vec![auto()] };
                    let mut kids = vec![];
                    if r.chance(1, 2) {
                        kids.push(gen_child(&mut r, 2, f));
                    }
                    let k = kids.len();
                    let mut c = c;
                    child_position(&mut r, &mut c.style);
                    kids.push(c);
                    (TreeDesc { style: p, ctx: None, children: kids }, vec![k], "in-grid")
                }
            };
            let mut avail = gen_available(&mut r);
            let mut d = d;
            // one case in three is moved off the dyadic grid
            let rough = r.chance(1, 3);
            if rough {
                let fl = *r.pick(&[1.1f32, 0.7, 1.0 / 3.0, 3.3]);
                let fp = *r.pick(&[1.0f32, 1.1, 0.9]);
                let ff = *r.pick(&[1.0f32, 0.7, 1.3]);
                roughen(&mut d, fl, fp, ff);
                avail = avail.map(|a| match a {
                    AvailableSpace::Definite(v) => AvailableSpace::Definite(v * fl),
                    x => x,
                });
            }
            out.begin_case(idx, label);
            out.count(&format!("placement:{label}"));
            out.count(if rough { "numbers:inexact" } else { "numbers:dyadic" });
            run_case(out, &d, &path, avail);
        }
        idx += 1;
    }
    String::new()
}
