//! C15 — dirtiness bookkeeping of TaffyTree under histories of mutators and layout passes.
//! Nodes are named by creation order. After every operation both sides print the dirty flag of every node
//! ('x' removed, 'D' dirty, 'C' clean, '.' strictly below a display:none ancestor: not determined by the model).
use crate::common::*;
use crate::treegen::{measure, Ctx};
use std::cell::Cell;
use taffy::prelude::*;

struct H {
    t: TaffyTree<Ctx>,
    ids: Vec<NodeId>,
    alive: Vec<bool>,
    parent: Vec<Option<usize>>,
    kids: Vec<Vec<usize>>,
    hidden: Vec<bool>,
}

impl H {
    fn new() -> Self {
        H { t: TaffyTree::new(), ids: vec![], alive: vec![], parent: vec![], kids: vec![], hidden: vec![] }
    }
    fn style(r: &mut Rng, hidden: bool) -> Style {
        let mut s = Style::DEFAULT;
        s.display = if hidden { Display::None } else { *r.pick(&[Display::Block, Display::Flex, Display::Grid]) };
        if r.chance(1, 2) {
            s.size = Size { width: length(r.range(1, 20) as f32 * 5.0), height: auto() };
        }
        if r.chance(1, 4) {
            s.padding = Rect { left: length(2.0), right: length(2.0), top: length(1.0), bottom: length(1.0) };
        }
        s.flex_grow = *r.pick(&[0.0, 1.0]);
        s
    }
    fn below_hidden(&self, n: usize) -> bool {
        let mut cur = self.parent[n];
        let mut guard = 0;
        while let Some(p) = cur {
            if self.hidden[p] {
                return true;
            }
            cur = self.parent[p];
            guard += 1;
            if guard > 1000 {
                break;
            }
        }
        false
    }
    fn flags(&self) -> String {
        (0..self.ids.len())
            .map(|i| {
                if !self.alive[i] {
                    'x'
                } else if self.below_hidden(i) {
                    '.'
                } else if self.t.dirty(self.ids[i]).unwrap() {
                    'D'
                } else {
                    'C'
                }
            })
            .collect()
    }
    fn in_subtree(&self, root: usize, n: usize) -> bool {
        if root == n {
            return true;
        }
        self.kids[root].iter().any(|&k| self.in_subtree(k, n))
    }
    fn alive_nodes(&self) -> Vec<usize> {
        (0..self.ids.len()).filter(|&i| self.alive[i]).collect()
    }
    fn detached(&self) -> Vec<usize> {
        self.alive_nodes().into_iter().filter(|&i| self.parent[i].is_none()).collect()
    }
}

fn one_case(out: &mut Out, r: &mut Rng, len: usize) {
    let mut h = H::new();
    let calls = Cell::new(0u64);
    let avails = [
        Size { width: AvailableSpace::Definite(200.0), height: AvailableSpace::Definite(100.0) },
        Size { width: AvailableSpace::MaxContent, height: AvailableSpace::MaxContent },
        // a collapsed viewport, a fractional one and a min-content one: the repeat-pass clause must hold for every value
        Size { width: AvailableSpace::Definite(0.0), height: AvailableSpace::MaxContent },
        Size { width: AvailableSpace::Definite(0.5), height: AvailableSpace::Definite(0.0) },
        Size { width: AvailableSpace::MinContent, height: AvailableSpace::Definite(1e6) },
    ];
    let mut last_pass: Option<(usize, usize)> = None;
    let mut nontrivial = false;
    for _ in 0..len {
        let alive = h.alive_nodes();
        let choice = if alive.len() < 2 { 0 } else { r.below(16) };
        let mut this_pass = None;
        // third clause of the property, evaluated on the implementation: the nodes whose own data or child list the op changes
        let before: Vec<Option<bool>> = (0..h.ids.len()).map(|i| if h.alive[i] { Some(h.t.dirty(h.ids[i]).unwrap()) } else { None }).collect();
        let mut mutated: Vec<usize> = vec![];
        match choice {
            0 | 1 => {
                let hidden = r.chance(1, 6);
                let st = H::style(r, hidden);
                let id = if r.chance(2, 3) {
                    h.t.new_leaf_with_context(st, Ctx::Fixed(r.range(1, 10) as f32 * 3.0, r.range(1, 6) as f32 * 2.0)).unwrap()
                } else {
                    h.t.new_leaf(st).unwrap()
                };
                h.ids.push(id);
                h.alive.push(true);
                h.parent.push(None);
                h.kids.push(vec![]);
                h.hidden.push(hidden);
                out.qa(&format!("new {}", hidden as u8), &format!("ok {}", h.ids.len() - 1));
                out.count("new");
            }
            2 => {
                let n = *r.pick(&alive);
                let hidden = if r.chance(1, 3) { !h.hidden[n] } else { h.hidden[n] };
                let st = H::style(r, hidden);
                h.t.set_style(h.ids[n], st).unwrap();
                h.hidden[n] = hidden;
                mutated.push(n);
                out.qa(&format!("style {n} {}", hidden as u8), "ok");
                out.count("set_style");
            }
            3 => {
                let n = *r.pick(&alive);
                let ctx = if r.chance(1, 4) { None } else { Some(Ctx::Fixed(r.range(1, 10) as f32 * 3.0, 4.0)) };
                h.t.set_node_context(h.ids[n], ctx).unwrap();
                mutated.push(n);
                out.qa(&format!("ctx {n}"), "ok");
                out.count("set_node_context");
            }
            4 | 5 | 6 => {
                // attach a detached root c under p (p not inside c's subtree)
                let det = h.detached();
                if det.is_empty() {
                    continue;
                }
                let c = *r.pick(&det);
                let cands: Vec<usize> = alive.iter().copied().filter(|&p| !h.in_subtree(c, p)).collect();
                if cands.is_empty() {
                    continue;
                }
                let p = *r.pick(&cands);
                match r.below(3) {
                    0 => {
                        h.t.add_child(h.ids[p], h.ids[c]).unwrap();
                        h.kids[p].push(c);
                        h.parent[c] = Some(p);
                        mutated.push(p);
                        out.qa(&format!("add {p} {c}"), "ok");
                        out.count("add_child");
                    }
                    1 => {
                        let i = r.below(h.kids[p].len() + 1);
                        h.t.insert_child_at_index(h.ids[p], i, h.ids[c]).unwrap();
                        h.kids[p].insert(i, c);
                        h.parent[c] = Some(p);
                        mutated.push(p);
                        out.qa(&format!("ins {p} {i} {c}"), "ok");
                        out.count("insert_child_at_index");
                    }
                    _ => {
                        if h.kids[p].is_empty() {
                            continue;
                        }
                        let i = r.below(h.kids[p].len());
                        h.t.replace_child_at_index(h.ids[p], i, h.ids[c]).unwrap();
                        let old = h.kids[p][i];
                        h.kids[p][i] = c;
                        h.parent[c] = Some(p);
                        h.parent[old] = None;
                        mutated.push(p);
                        out.qa(&format!("repl {p} {i} {c}"), "ok");
                        out.count("replace_child_at_index");
                    }
                }
                nontrivial = true;
            }
            7 => {
                let ps: Vec<usize> = alive.iter().copied().filter(|&p| !h.kids[p].is_empty()).collect();
                if ps.is_empty() {
                    continue;
                }
                let p = *r.pick(&ps);
                let i = r.below(h.kids[p].len());
                h.t.remove_child_at_index(h.ids[p], i).unwrap();
                let c = h.kids[p].remove(i);
                h.parent[c] = None;
                mutated.push(p);
                out.qa(&format!("rmat {p} {i}"), "ok");
                out.count("remove_child_at_index");
            }
            8 => {
                let ps: Vec<usize> = alive.iter().copied().filter(|&p| !h.kids[p].is_empty()).collect();
                if ps.is_empty() {
                    continue;
                }
                let p = *r.pick(&ps);
                let a = r.below(h.kids[p].len() + 1);
                let b = a + r.below(h.kids[p].len() - a + 1);
                h.t.remove_children_range(h.ids[p], a..b).unwrap();
                let removed: Vec<usize> = h.kids[p].drain(a..b).collect();
                for c in removed {
                    h.parent[c] = None;
                }
                if a < b {
                    mutated.push(p);
                }
                out.qa(&format!("rmrange {p} {a} {b}"), "ok");
                out.count("remove_children_range");
            }
            9 => {
                // set_children: a duplicate-free list of nodes outside p's ancestor chain (may steal children of other parents)
                let p = *r.pick(&alive);
                let mut cands: Vec<usize> = alive.iter().copied().filter(|&c| c != p && !h.in_subtree(c, p)).collect();
                let k = r.below(cands.len().min(3) + 1);
                let mut cs = vec![];
                for _ in 0..k {
                    let j = r.below(cands.len());
                    cs.push(cands.remove(j));
                }
                let ids: Vec<NodeId> = cs.iter().map(|&c| h.ids[c]).collect();
                h.t.set_children(h.ids[p], &ids).unwrap();
                let old = std::mem::take(&mut h.kids[p]);
                for c in old {
                    h.parent[c] = None;
                }
                mutated.push(p);
                for &c in &cs {
                    if let Some(q) = h.parent[c] {
                        h.kids[q].retain(|x| *x != c);
                        if q != p {
                            mutated.push(q);
                        }
                    }
                    h.parent[c] = Some(p);
                }
                h.kids[p] = cs.clone();
                let list: Vec<String> = cs.iter().map(|c| c.to_string()).collect();
                out.qa(&format!("setch {p} {}", list.join(" ")), "ok");
                out.count("set_children");
                nontrivial = true;
            }
            10 => {
                let n = *r.pick(&alive);
                h.t.remove(h.ids[n]).unwrap();
                if let Some(p) = h.parent[n] {
                    h.kids[p].retain(|x| *x != n);
                    mutated.push(p);
                }
                let ks = std::mem::take(&mut h.kids[n]);
                for c in ks {
                    h.parent[c] = None;
                }
                h.parent[n] = None;
                h.alive[n] = false;
                out.qa(&format!("rm {n}"), "ok");
                out.count("remove");
                nontrivial = true;
            }
            11 => {
                let n = *r.pick(&alive);
                h.t.mark_dirty(h.ids[n]).unwrap();
                mutated.push(n);
                out.qa(&format!("dirty {n}"), "ok");
                out.count("mark_dirty");
            }
            _ => {
                // a layout pass from a parentless node; sometimes repeat the previous pass exactly
                let (root, ai) = match last_pass {
                    Some(lp) if r.chance(1, 2) && h.alive[lp.0] && h.parent[lp.0].is_none() => lp,
                    _ => {
                        let det = h.detached();
                        (*r.pick(&det), r.below(avails.len()))
                    }
                };
                let repeat = last_pass == Some((root, ai));
                calls.set(0);
                h.t.compute_layout_with_measure(h.ids[root], avails[ai], |k, a, _id, ctx, _st| {
                    calls.set(calls.get() + 1);
                    measure(k, a, ctx)
                })
                .unwrap();
                let ans = if repeat {
                    if calls.get() == 0 {
                        "pass quiet".to_string()
                    } else {
                        out.impl_violation(format!("sig:c15-second-pass-measures repeated pass on root {root} invoked the measure function {} times", calls.get()));
                        format!("pass noisy {}", calls.get())
                    }
                } else {
                    "pass".to_string()
                };
                out.qa(&format!("pass {root} {ai}"), &ans);
                out.count(if repeat { "pass:repeat" } else { "pass" });
                this_pass = Some((root, ai));
                // implementation-side oracle for pass_cleans: everything reachable without crossing display:none is clean
                for i in h.alive_nodes() {
                    if h.in_subtree(root, i) && !h.below_hidden(i) && h.t.dirty(h.ids[i]).unwrap() {
                        out.impl_violation(format!("sig:c15-pass-leaves-dirty node {i} still dirty after a pass from {root}"));
                    }
                }
                nontrivial = true;
            }
        }
        if !mutated.is_empty() {
            let mut closure = vec![false; h.ids.len()];
            for &m in &mutated {
                if !h.alive[m] || h.below_hidden(m) {
                    continue;
                }
                let mut cur = Some(m);
                while let Some(x) = cur {
                    closure[x] = true;
                    if !h.t.dirty(h.ids[x]).unwrap() {
                        out.impl_violation(format!(
                            "sig:c15-mutation-leaves-clean after the op on node {m}, node {x} ({}) is not dirty",
                            if x == m { "the mutated node" } else { "an ancestor" }
                        ));
                    }
                    cur = h.parent[x];
                }
            }
            // the property speaks about mutations of box-generating nodes only: a mutated node below display:none may or
            // may not propagate (it does when it still holds results from an earlier pass as a root of its own)
            let all_box_generating = mutated.iter().all(|&m| h.alive[m] && !h.below_hidden(m));
            for i in 0..before.len() {
                if !all_box_generating {
                    break;
                }
                if let (Some(b), true, false) = (before[i], h.alive[i], closure[i]) {
                    // a node that is neither mutated nor an ancestor keeps its status (mutated nodes below display:none may
                    // or may not change theirs: the property speaks about box-generating nodes)
                    if !mutated.contains(&i) && h.t.dirty(h.ids[i]).unwrap() != b {
                        out.impl_violation(format!("sig:c15-mutation-touches-bystander node {i} changed its dirty status ({b} before) on an op that mutates {mutated:?}"));
                    }
                }
            }
        }
        last_pass = this_pass;
        let f = h.flags();
        out.qa("flags", &f);
    }
    if nontrivial {
        out.nontrivial();
    }
}

pub fn run(cfg: &Cfg, out: &mut Out) -> String {
    let n = cfg.n(1500, 60_000);
    for idx in 0..n {
        if cfg.wants(idx) {
            let mut r = Rng::for_case(cfg.seed, idx);
            out.begin_case(idx, "history");
            let len = 4 + r.below(30);
            one_case(out, &mut r, len);
        }
    }
    String::new()
}
