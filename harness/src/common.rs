//! Shared plumbing: PRNG, request/answer writer, f32 printing.
use std::collections::{BTreeMap, HashSet};
use std::fmt::Write as _;
use std::io::Write;

/// splitmix64 — every random choice of a case derives from (seed, case index)
#[derive(Clone)]
pub struct Rng(pub u64);
impl Rng {
    pub fn for_case(seed: u64, case: u64) -> Self {
        let mut r = Rng(seed ^ case.wrapping_mul(0x9E3779B97F4A7C15) ^ 0xD1B54A32D192ED03);
        r.next();
        r.next();
        r
    }
    pub fn next(&mut self) -> u64 {
        self.0 = self.0.wrapping_add(0x9E3779B97F4A7C15);
        let mut z = self.0;
        z = (z ^ (z >> 30)).wrapping_mul(0xBF58476D1CE4E5B9);
        z = (z ^ (z >> 27)).wrapping_mul(0x94D049BB133111EB);
        z ^ (z >> 31)
    }
    pub fn below(&mut self, n: usize) -> usize {
        (self.next() % (n as u64)) as usize
    }
    pub fn range(&mut self, lo: i64, hi: i64) -> i64 {
        lo + (self.next() % ((hi - lo + 1) as u64)) as i64
    }
    pub fn chance(&mut self, num: u32, den: u32) -> bool {
        (self.next() % den as u64) < num as u64
    }
    pub fn pick<'a, T>(&mut self, xs: &'a [T]) -> &'a T {
        &xs[self.below(xs.len())]
    }
}

pub fn hx(x: f32) -> String {
    if x.is_nan() {
        "7fc00000".to_string()
    } else {
        format!("{:08x}", x.to_bits())
    }
}
/// −0.0 canonicalised to +0.0
pub fn hxz(x: f32) -> String {
    if x.is_nan() {
        "7fc00000".to_string()
    } else if x.to_bits() == 0x8000_0000 {
        "00000000".to_string()
    } else {
        format!("{:08x}", x.to_bits())
    }
}
pub fn hxo(x: Option<f32>) -> String {
    match x {
        None => "-".to_string(),
        Some(v) => hx(v),
    }
}
pub fn hxoz(x: Option<f32>) -> String {
    match x {
        None => "-".to_string(),
        Some(v) => hxz(v),
    }
}

pub struct Out {
    pub req: std::io::BufWriter<std::fs::File>,
    pub ans: std::io::BufWriter<std::fs::File>,
    pub lines: u64,
    pub cases: u64,
    pub hist: BTreeMap<String, u64>,
    pub distinct: HashSet<u64>,
    pub samples: Vec<String>,
    pub notes: Vec<String>,
    /// violations the implementation-side oracle found by itself (independent of the model)
    pub impl_violations: Vec<(u64, String)>,
    pub cur_case: u64,
    /// where `cur_case` is published (a one-line file rewritten at the start of every case): if the implementation takes the whole
    /// process down (stack overflow, abort), ./check reads it, records the case and runs the stream again without it
    cur_case_path: String,
    cur_buf: String,
    cur_nontrivial: bool,
}

fn fnv(s: &str) -> u64 {
    let mut h: u64 = 0xcbf29ce484222325;
    for b in s.bytes() {
        h ^= b as u64;
        h = h.wrapping_mul(0x100000001b3);
    }
    h
}

impl Out {
    pub fn new(dir: &str) -> Self {
        std::fs::create_dir_all(dir).unwrap();
        let req = std::io::BufWriter::new(std::fs::File::create(format!("{dir}/req.txt")).unwrap());
        let ans = std::io::BufWriter::new(std::fs::File::create(format!("{dir}/impl.txt")).unwrap());
        Out {
            req,
            ans,
            lines: 0,
            cases: 0,
            hist: BTreeMap::new(),
            distinct: HashSet::new(),
            samples: vec![],
            notes: vec![],
            impl_violations: vec![],
            cur_case: 0,
            cur_case_path: format!("{dir}/cur_case"),
            cur_buf: String::new(),
            cur_nontrivial: false,
        }
    }
    pub fn begin_case(&mut self, idx: u64, label: &str) {
        self.end_case();
        self.cur_case = idx;
        let _ = std::fs::write(&self.cur_case_path, format!("{idx}\n"));
        self.cases += 1;
        self.cur_buf.clear();
        self.cur_nontrivial = false;
        writeln!(self.req, "#case {idx} {label}").unwrap();
        writeln!(self.ans, "#case {idx} {label}").unwrap();
    }
    pub fn end_case(&mut self) {
        if !self.cur_buf.is_empty() {
            if self.cur_nontrivial {
                self.distinct.insert(fnv(&self.cur_buf));
            }
            if self.samples.len() < 3 && self.cur_nontrivial {
                let s: String = self.cur_buf.chars().take(1500).collect();
                self.samples.push(s);
            }
            self.cur_buf.clear();
        }
    }
    /// one request and the implementation's answer to it
    pub fn qa(&mut self, req: &str, ans: &str) {
        debug_assert!(!req.contains('\n') && !ans.contains('\n'));
        writeln!(self.req, "{req}").unwrap();
        writeln!(self.ans, "{ans}").unwrap();
        self.lines += 1;
        let _ = write!(self.cur_buf, "{req} => {ans}\n");
    }
    pub fn count(&mut self, key: &str) {
        *self.hist.entry(key.to_string()).or_insert(0) += 1;
    }
    pub fn nontrivial(&mut self) {
        self.cur_nontrivial = true;
    }
    pub fn impl_violation(&mut self, what: String) {
        let c = self.cur_case;
        self.impl_violations.push((c, what));
    }
    pub fn finish(mut self, dir: &str, extra: &str) {
        self.end_case();
        self.req.flush().unwrap();
        self.ans.flush().unwrap();
        let mut m = String::new();
        m.push_str("{\n");
        let _ = write!(m, "  \"cases\": {},\n  \"lines\": {},\n  \"distinct_nontrivial\": {},\n", self.cases, self.lines, self.distinct.len());
        m.push_str("  \"histogram\": {");
        let mut first = true;
        for (k, v) in &self.hist {
            if !first {
                m.push_str(", ");
            }
            first = false;
            let _ = write!(m, "{}: {}", json_str(k), v);
        }
        m.push_str("},\n  \"samples\": [");
        for (i, s) in self.samples.iter().enumerate() {
            if i > 0 {
                m.push_str(", ");
            }
            m.push_str(&json_str(s));
        }
        m.push_str("],\n  \"notes\": [");
        for (i, s) in self.notes.iter().enumerate() {
            if i > 0 {
                m.push_str(", ");
            }
            m.push_str(&json_str(s));
        }
        m.push_str("],\n  \"impl_violations\": [");
        for (i, (c, s)) in self.impl_violations.iter().enumerate() {
            if i > 0 {
                m.push_str(", ");
            }
            let _ = write!(m, "{{\"case\": {}, \"what\": {}}}", c, json_str(s));
        }
        m.push_str("]");
        if !extra.is_empty() {
            m.push_str(",\n  ");
            m.push_str(extra);
        }
        m.push_str("\n}\n");
        std::fs::write(format!("{dir}/meta.json"), m).unwrap();
    }
}

pub fn json_str(s: &str) -> String {
    let mut o = String::from("\"");
    for c in s.chars() {
        match c {
            '"' => o.push_str("\\\""),
            '\\' => o.push_str("\\\\"),
            '\n' => o.push_str("\\n"),
            '\t' => o.push_str("\\t"),
            c if (c as u32) < 0x20 => {
                let _ = write!(o, "\\u{:04x}", c as u32);
            }
            c => o.push(c),
        }
    }
    o.push('"');
    o
}

pub struct Cfg {
    pub tier: String,
    pub seed: u64,
    pub only_case: Option<u64>,
    pub cases: Option<u64>,
    /// multiplier of the quick-tier case counts (`--scale K`): ./check raises it when /repo's sources differ from the
    /// fingerprints recorded in checklib/fingerprints.json, i.e. when the code under check has changed
    pub scale: u64,
    /// case indices to leave out (`--skip K`, repeatable): cases in which the implementation killed the process in an earlier attempt
    pub skip: Vec<u64>,
}
impl Cfg {
    pub fn thorough(&self) -> bool {
        self.tier == "thorough"
    }
    /// number of generated cases for this tier unless overridden
    pub fn n(&self, quick: u64, thorough: u64) -> u64 {
        self.cases.unwrap_or(if self.thorough() { thorough } else { (quick * self.scale.max(1)).min(thorough.max(quick)) })
    }
    pub fn wants(&self, idx: u64) -> bool {
        self.only_case.map_or(true, |c| c == idx) && !self.skip.contains(&idx)
    }
}
