//! EVAL — the tie for the tree-level evaluator (lean/TaffyVerif/Model/Eval.lean): whole layouts of trees built only from
//! modelled algorithms (block and flex containers, leaves, display:none subtrees, absolutely positioned children) computed
//! by the real TaffyTree and by the Lean evaluator with the real nine-slot cache model, compared bit for bit for every node.
use crate::common::*;
use crate::stylefmt::*;
use crate::treegen::*;
use taffy::prelude::*;

fn blockify(t: &mut TreeDesc, r: &mut Rng) {
    if !t.children.is_empty() && t.style.display != Display::None {
        t.style.display = Display::Block;
    }
    if t.children.is_empty() && t.style.display != Display::None {
        t.style.display = *r.pick(&[Display::Block, Display::Flex, Display::Grid]);
    }
    for c in &mut t.children {
        blockify(c, r);
    }
}

pub fn gen_block_tree(r: &mut Rng) -> TreeDesc {
    let mut cfg = GenCfg::only(&[Display::Block]);
    cfg.max_nodes = 2 + r.below(14);
    cfg.max_depth = 1 + r.below(4);
    let mut t = gen_tree(r, &cfg);
    blockify(&mut t, r);
    t
}

/// containers become block or flex containers (every flex style field is already randomised by `gen_style`), childless
/// nodes keep any display value (they are leaves)
fn blockflexify(t: &mut TreeDesc, r: &mut Rng, flex_share: usize) {
    if !t.children.is_empty() && t.style.display != Display::None {
        t.style.display = if r.below(4) < flex_share { Display::Flex } else { Display::Block };
    }
    if t.children.is_empty() && t.style.display != Display::None {
        t.style.display = *r.pick(&[Display::Block, Display::Flex, Display::Grid]);
    }
    for c in &mut t.children {
        blockflexify(c, r, flex_share);
    }
}

/// trees of block and flex containers: all-flex, mixed, or (1 in 4) all-block as before
pub fn gen_block_flex_tree(r: &mut Rng) -> (TreeDesc, &'static str) {
    let mut cfg = GenCfg::only(&[Display::Block]);
    cfg.max_nodes = 2 + r.below(14);
    cfg.max_depth = 1 + r.below(4);
    let mut t = gen_tree(r, &cfg);
    let (share, label) = match r.below(4) {
        0 => (0, "blocktree"),
        1 => (4, "flextree"),
        _ => (2, "mixedtree"),
    };
    blockflexify(&mut t, r, share);
    (t, label)
}

pub fn run(cfg: &Cfg, out: &mut Out) -> String {
    let n = cfg.n(3000, 200_000);
    for idx in 0..n {
        if !cfg.wants(idx) {
            continue;
        }
        let mut r = Rng::for_case(cfg.seed, idx);
        let (t, label) = gen_block_flex_tree(&mut r);
        let avail = gen_available(&mut r);
        out.begin_case(idx, label);
        out.count(&format!("kind:{label}"));
        let req = format!("eval {} {} {}", av(avail.width), av(avail.height), t.line());
        match layout_fresh(&t, avail, false) {
            Ok((tree, root)) => {
                let ls = all_layouts(&tree, root, true);
                let ans: Vec<String> = ls.iter().map(layout_line).collect();
                out.qa(&req, &ans.join(" | "));
                out.count(&format!("nodes:{}", t.count().min(10)));
                if t.count() >= 3 {
                    out.nontrivial();
                }
                let mut v = vec![];
                t.preorder(&mut v);
                if v.iter().any(|n| n.style.display == Display::Flex && !n.children.is_empty()) {
                    out.count("has:flex-container");
                }
                if v.iter().any(|n| n.style.display == Display::Block && !n.children.is_empty()) {
                    out.count("has:block-container");
                }
                if v.iter().any(|n| n.style.display == Display::None) {
                    out.count("has:hidden");
                }
                if v.iter().any(|n| n.style.position == Position::Absolute) {
                    out.count("has:absolute");
                }
                if v.iter().any(|n| n.ctx.is_some()) {
                    out.count("has:measured-leaf");
                }
            }
            Err(m) => {
                out.qa(&req, "panic");
                out.impl_violation(format!("sig:eval-panic {m}"));
            }
        }
    }
    String::new()
}
