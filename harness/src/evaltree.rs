//! EVAL — the tie for the tree-level evaluator (lean/TaffyVerif/Model/Eval.lean): whole layouts of trees built only from
//! modelled algorithms (block and flex containers, leaves, display:none subtrees, absolutely positioned children) computed
//! by the real TaffyTree and by the Lean evaluator with the real nine-slot cache model, compared bit for bit for every node.
use crate::common::*;
use crate::gridfmt;
use crate::stylefmt::*;
use crate::treegen::*;
use taffy::prelude::*;

fn blockify(t: &mut TreeDesc, r: &mut Rng) {
    if !t.children.is_empty() && t.style.display != Display::None {
        t.style.display = Display::Block;
    }
    if t.children.is_empty() && t.style.display != Display::None {
        t.style.display = *r.pick(&[Display::Block, Display::Flex, Display::Grid]);
    }
    for c in &mut t.children {
        blockify(c, r);
    }
}

pub fn gen_block_tree(r: &mut Rng) -> TreeDesc {
    let mut cfg = GenCfg::only(&[Display::Block]);
    cfg.max_nodes = 2 + r.below(14);
    cfg.max_depth = 1 + r.below(4);
    let mut t = gen_tree(r, &cfg);
    blockify(&mut t, r);
    t
}

/// containers become block or flex containers (every flex style field is already randomised by `gen_style`), childless
/// nodes keep any display value (they are leaves)
fn blockflexify(t: &mut TreeDesc, r: &mut Rng, flex_share: usize) {
    if !t.children.is_empty() && t.style.display != Display::None {
        t.style.display = if r.below(4) < flex_share { Display::Flex } else { Display::Block };
    }
    if t.children.is_empty() && t.style.display != Display::None {
        t.style.display = *r.pick(&[Display::Block, Display::Flex, Display::Grid]);
    }
    for c in &mut t.children {
        blockflexify(c, r, flex_share);
    }
}

/// trees of block and flex containers: all-flex, mixed, or (1 in 4) all-block as before
pub fn gen_block_flex_tree(r: &mut Rng) -> (TreeDesc, &'static str) {
    let mut cfg = GenCfg::only(&[Display::Block]);
    cfg.max_nodes = 2 + r.below(14);
    cfg.max_depth = 1 + r.below(4);
    let mut t = gen_tree(r, &cfg);
    let (share, label) = match r.below(4) {
        0 => (0, "blocktree"),
        1 => (4, "flextree"),
        _ => (2, "mixedtree"),
    };
    blockflexify(&mut t, r, share);
    (t, label)
}

/// trees of block, flex and grid containers, leaves, display:none subtrees and absolutely positioned children
pub fn gen_grid_block_tree(r: &mut Rng) -> TreeDesc {
    let t = match r.below(3) {
        0 => {
            // the shared tree generator restricted to block and grid containers
            let mut cfg = GenCfg::only(&[Display::Block, Display::Flex, Display::Grid, Display::Grid]);
            cfg.max_nodes = 2 + r.below(14);
            cfg.max_depth = 1 + r.below(4);
            gen_tree(r, &cfg)
        }
        1 => crate::gridcorr::gen_grid_root(r),
        _ => {
            // a grid container from the GRID generator below a block or grid parent
            let c = crate::gridcorr::gen_grid_root(r);
            let mut cfg = GenCfg::only(&[Display::Block, Display::Flex, Display::Grid]);
            cfg.max_nodes = 3;
            cfg.max_depth = 1;
            let mut p = gen_tree(r, &cfg);
            p.ctx = None;
            if p.style.display == Display::None {
                p.style.display = Display::Block;
            }
            let k = r.below(p.children.len() + 1);
            p.children.insert(k, c);
            p
        }
    };
    t
}

/// preorder: `<46 style tokens> <flow> <columns template> <rows template> <auto columns> <auto rows>
/// <row.start> <row.end> <column.start> <column.end> <ctx> <nchildren>` per node
pub fn gline(t: &TreeDesc) -> String {
    let mut s = String::new();
    gline_into(t, &mut s);
    s
}
fn gline_into(t: &TreeDesc, s: &mut String) {
    if !s.is_empty() {
        s.push(' ');
    }
    let st = &t.style;
    s.push_str(&gridfmt::grid_container_line(st));
    s.push_str(&format!(
        " {} {} {} {} ",
        gridfmt::placement_tok(st.grid_row.start),
        gridfmt::placement_tok(st.grid_row.end),
        gridfmt::placement_tok(st.grid_column.start),
        gridfmt::placement_tok(st.grid_column.end)
    ));
    match t.ctx {
        None => s.push('-'),
        Some(Ctx::Fixed(w, h)) => s.push_str(&format!("f:{}:{}", hx(w), hx(h))),
        Some(Ctx::Wrap(w, h)) => s.push_str(&format!("w:{}:{}", hx(w), hx(h))),
    }
    s.push_str(&format!(" {}", t.children.len()));
    for c in &t.children {
        gline_into(c, s);
    }
}

pub fn run(cfg: &Cfg, out: &mut Out) -> String {
    let n = cfg.n(3000, 200_000);
    for idx in 0..n {
        if !cfg.wants(idx) {
            continue;
        }
        let mut r = Rng::for_case(cfg.seed, idx);
        // every third case: a tree that also has grid containers (verb `evalg`, tree format with the grid fields)
        let with_grid = idx % 3 == 2;
        let (t, label) = if with_grid { (gen_grid_block_tree(&mut r), "gridtree") } else { gen_block_flex_tree(&mut r) };
        let avail = gen_available(&mut r);
        out.begin_case(idx, label);
        out.count(&format!("kind:{label}"));
        let req = if with_grid {
            format!("evalg {} {} {}", av(avail.width), av(avail.height), gline(&t))
        } else {
            format!("eval {} {} {}", av(avail.width), av(avail.height), t.line())
        };
        match layout_fresh(&t, avail, false) {
            Ok((tree, root)) => {
                let ls = all_layouts(&tree, root, true);
                let ans: Vec<String> = ls.iter().map(layout_line).collect();
                out.qa(&req, &ans.join(" | "));
                out.count(&format!("nodes:{}", t.count().min(10)));
                if t.count() >= 3 {
                    out.nontrivial();
                }
                let mut v = vec![];
                t.preorder(&mut v);
                if v.iter().any(|n| n.style.display == Display::Flex && !n.children.is_empty()) {
                    out.count("has:flex-container");
                }
                if v.iter().any(|n| n.style.display == Display::Block && !n.children.is_empty()) {
                    out.count("has:block-container");
                }
                if v.iter().any(|n| n.style.display == Display::Grid && !n.children.is_empty()) {
                    out.count("has:grid-container");
                }
                if v.iter().any(|n| n.style.display == Display::None) {
                    out.count("has:hidden");
                }
                if v.iter().any(|n| n.style.position == Position::Absolute) {
                    out.count("has:absolute");
                }
                if v.iter().any(|n| n.ctx.is_some()) {
                    out.count("has:measured-leaf");
                }
            }
            Err(m) => {
                out.qa(&req, "panic");
                out.impl_violation(format!("sig:eval-panic {m}"));
            }
        }
    }
    String::new()
}
