//! C08 (and the grid part of C03) — grid item placement.
//!
//! Two channels per case:
//!   `place  <cols> <rows> <flow> <n> (<row.start> <row.end> <col.start> <col.end>)*`
//!        → the cfg(taffy_verif) hook `verif_place_grid_items` (estimate → occupancy matrix → place_grid_items),
//!          answer `ok <col neg exp pos> <row neg exp pos> <k> (<child> <rs> <re> <cs> <ce>)*` in origin-zero lines,
//!          placement-record order; or `panic`.
//!   `layout <same arguments>`
//!        → a whole layout through the public `TaffyTree` API observed through `detailed_layout_info`
//!          (1-based lines of the implicit grid, item order as reported), answer
//!          `ok <col neg exp pos> <row neg exp pos> <k> (<rs> <re> <cs> <ce>)* ` sorted; or `panic`.
//! placement tokens: `a` (auto) | `l<i16>` (line, 0 allowed) | `s<u16>` (span, 0 allowed).
//! The harness is compiled with overflow checks switched on for the taffy crate (see Cargo.toml), so an integer
//! overflow in the implementation is reported as `panic` exactly like in a debug build.
use crate::common::*;
use taffy::prelude::*;
use taffy::{DetailedLayoutInfo, GridAutoFlow, GridPlacement, Line};

#[derive(Clone, Copy, PartialEq, Eq, Debug)]
pub enum P {
    Auto,
    Line(i16),
    Span(u16),
}
impl P {
    fn tok(self) -> String {
        match self {
            P::Auto => "a".into(),
            P::Line(n) => format!("l{n}"),
            P::Span(n) => format!("s{n}"),
        }
    }
    fn to_taffy(self) -> GridPlacement {
        match self {
            P::Auto => GridPlacement::Auto,
            P::Line(n) => line(n),
            P::Span(n) => span(n),
        }
    }
}
/// one child: grid_row (start, end), grid_column (start, end)
pub type Child = [P; 4];

#[derive(Clone, Debug)]
pub struct Problem {
    cols: u16,
    rows: u16,
    flow: GridAutoFlow,
    children: Vec<Child>,
}

fn flow_tok(f: GridAutoFlow) -> &'static str {
    match f {
        GridAutoFlow::Row => "row",
        GridAutoFlow::Column => "col",
        GridAutoFlow::RowDense => "rowd",
        GridAutoFlow::ColumnDense => "cold",
    }
}
const FLOWS: [GridAutoFlow; 4] = [GridAutoFlow::Row, GridAutoFlow::Column, GridAutoFlow::RowDense, GridAutoFlow::ColumnDense];

fn args(p: &Problem) -> String {
    let mut s = format!("{} {} {} {}", p.cols, p.rows, flow_tok(p.flow), p.children.len());
    for c in &p.children {
        for t in c {
            s.push(' ');
            s.push_str(&t.tok());
        }
    }
    s
}

type Placed = (Vec<(usize, i16, i16, i16, i16)>, (u16, u16, u16), (u16, u16, u16));

fn run_hook(p: &Problem) -> Option<Placed> {
    let children: Vec<(Line<GridPlacement>, Line<GridPlacement>)> = p
        .children
        .iter()
        .map(|c| (Line { start: c[0].to_taffy(), end: c[1].to_taffy() }, Line { start: c[2].to_taffy(), end: c[3].to_taffy() }))
        .collect();
    let (cols, rows, flow) = (p.cols, p.rows, p.flow);
    std::panic::catch_unwind(move || taffy::compute::verif_place_grid_items(cols, rows, flow, &children)).ok()
}

/// whole layout through the public API; `(sorted 1-based areas, col counts, row counts)`
fn run_layout(p: &Problem) -> Option<(Vec<(u16, u16, u16, u16)>, (u16, u16, u16), (u16, u16, u16))> {
    let p = p.clone();
    std::panic::catch_unwind(move || {
        let mut tree: TaffyTree<()> = TaffyTree::new();
        let mut kids = vec![];
        for c in &p.children {
            let st = Style {
                grid_row: Line { start: c[0].to_taffy(), end: c[1].to_taffy() },
                grid_column: Line { start: c[2].to_taffy(), end: c[3].to_taffy() },
                size: Size { width: length(4.0), height: length(4.0) },
                ..Default::default()
            };
            kids.push(tree.new_leaf(st).unwrap());
        }
        let root_style = Style {
            display: Display::Grid,
            grid_auto_flow: p.flow,
            grid_template_columns: (0..p.cols).map(|_| length(8.0)).collect(),
            grid_template_rows: (0..p.rows).map(|_| length(8.0)).collect(),
            ..Default::default()
        };
        let root = tree.new_with_children(root_style, &kids).unwrap();
        tree.compute_layout(root, Size::MAX_CONTENT).unwrap();
        match tree.detailed_layout_info(root) {
            DetailedLayoutInfo::Grid(info) => {
                let mut items: Vec<(u16, u16, u16, u16)> = info.items.iter().map(|i| (i.row_start, i.row_end, i.column_start, i.column_end)).collect();
                items.sort();
                (
                    items,
                    (info.columns.negative_implicit_tracks, info.columns.explicit_tracks, info.columns.positive_implicit_tracks),
                    (info.rows.negative_implicit_tracks, info.rows.explicit_tracks, info.rows.positive_implicit_tracks),
                )
            }
            _ => panic!("no grid info"),
        }
    })
    .ok()
}

// ---- implementation-side oracle: the conclusion of the C08 theorems, written independently in Rust ----------------

fn oz(line: i16, explicit: u16) -> i32 {
    if line > 0 {
        line as i32 - 1
    } else {
        line as i32 + explicit as i32 + 1
    }
}
fn is_line(p: P) -> Option<i16> {
    match p {
        P::Line(n) if n != 0 => Some(n),
        _ => None,
    }
}
fn span_of(p: P) -> Option<i32> {
    match p {
        P::Span(n) => Some((n as i32).max(1)),
        _ => None,
    }
}
/// expected (start, end) of a definite axis; None when the axis is not definite
fn expected_definite(start: P, end: P, explicit: u16) -> Option<(i32, i32)> {
    match (is_line(start), is_line(end)) {
        (Some(a), Some(b)) => {
            let (a, b) = (oz(a, explicit), oz(b, explicit));
            Some(if a == b { (a, a + 1) } else { (a.min(b), a.max(b)) })
        }
        (Some(a), None) => {
            let a = oz(a, explicit);
            Some((a, a + span_of(end).unwrap_or(1)))
        }
        (None, Some(b)) => {
            let b = oz(b, explicit);
            Some((b - span_of(start).unwrap_or(1), b))
        }
        (None, None) => None,
    }
}
fn expected_span(start: P, end: P) -> i32 {
    span_of(start).or(span_of(end)).unwrap_or(1)
}

fn oracle(p: &Problem, r: &Placed) -> Result<(), String> {
    let (items, colc, rowc) = r;
    let n = p.children.len();
    if items.len() != n {
        return Err(format!("count {} items for {} children", items.len(), n));
    }
    let mut seen = vec![false; n];
    for &(idx, rs, re, cs, ce) in items {
        if idx >= n || seen[idx] {
            return Err(format!("child index {idx} repeated/out of range"));
        }
        seen[idx] = true;
        let (rs, re, cs, ce) = (rs as i32, re as i32, cs as i32, ce as i32);
        if !(rs < re && cs < ce) {
            return Err(format!("empty child {idx} area rows {rs}..{re} cols {cs}..{ce}"));
        }
        if rs < -(rowc.0 as i32) || re > (rowc.1 + rowc.2) as i32 || cs < -(colc.0 as i32) || ce > (colc.1 + colc.2) as i32 {
            return Err(format!("range child {idx} area rows {rs}..{re} cols {cs}..{ce} outside tracks"));
        }
        let c = p.children[idx];
        match expected_definite(c[0], c[1], p.rows) {
            Some(e) if e != (rs, re) => return Err(format!("explicit child {idx} rows {rs}..{re} expected {e:?}")),
            None if re - rs != expected_span(c[0], c[1]) => return Err(format!("span child {idx} rows {rs}..{re}")),
            _ => {}
        }
        match expected_definite(c[2], c[3], p.cols) {
            Some(e) if e != (cs, ce) => return Err(format!("explicit child {idx} cols {cs}..{ce} expected {e:?}")),
            None if ce - cs != expected_span(c[2], c[3]) => return Err(format!("span child {idx} cols {cs}..{ce}")),
            _ => {}
        }
    }
    for (i, a) in items.iter().enumerate() {
        let ca = p.children[a.0];
        let a_auto = expected_definite(ca[0], ca[1], p.rows).is_none() || expected_definite(ca[2], ca[3], p.cols).is_none();
        if !a_auto {
            continue;
        }
        for (j, b) in items.iter().enumerate() {
            if i != j && a.1 < b.2 && b.1 < a.2 && a.3 < b.4 && b.3 < a.4 {
                return Err(format!("overlap auto-placed child {} with child {}", a.0, b.0));
            }
        }
    }
    Ok(())
}

fn exec(out: &mut Out, p: &Problem, with_layout: bool) {
    let a = args(p);
    out.count(&format!("children:{}", p.children.len()));
    out.count(&format!("flow:{}", flow_tok(p.flow)));
    let hook = run_hook(p);
    match &hook {
        Some(r) => {
            let mut s = format!("ok {} {} {} {} {} {} {}", r.1 .0, r.1 .1, r.1 .2, r.2 .0, r.2 .1, r.2 .2, r.0.len());
            for it in &r.0 {
                s.push_str(&format!(" {} {} {} {} {}", it.0, it.1, it.2, it.3, it.4));
            }
            out.qa(&format!("place {a}"), &s);
            if let Err(e) = oracle(p, r) {
                out.impl_violation(format!("sig:c08-{} in `place {a}` => {s}", e));
            }
            if r.1 .0 > 0 || r.2 .0 > 0 {
                out.count("negative-implicit");
            }
            if r.1 .2 > 0 || r.2 .2 > 0 {
                out.count("positive-implicit");
            }
            if p.children.len() >= 2 {
                out.nontrivial();
            }
        }
        None => {
            out.qa(&format!("place {a}"), "panic");
            out.count("panic");
            out.impl_violation(format!("sig:c03-grid-panic place_grid_items panicked on `place {a}`"));
        }
    }
    // a childless node is laid out as a leaf by TaffyTree, so there is no grid to observe
    if with_layout && !p.children.is_empty() {
        let lay = run_layout(p);
        match &lay {
            Some((items, colc, rowc)) => {
                let mut s = format!("ok {} {} {} {} {} {} {}", colc.0, colc.1, colc.2, rowc.0, rowc.1, rowc.2, items.len());
                for it in items {
                    s.push_str(&format!(" {} {} {} {}", it.0, it.1, it.2, it.3));
                }
                out.qa(&format!("layout {a}"), &s);
                // cross-check of the hook against the public observation channel
                if let Some(r) = &hook {
                    let mut conv: Vec<(u16, u16, u16, u16)> = r
                        .0
                        .iter()
                        .map(|it| {
                            let rn = r.2 .0 as i32;
                            let cn = r.1 .0 as i32;
                            ((it.1 as i32 + rn + 1) as u16, (it.2 as i32 + rn + 1) as u16, (it.3 as i32 + cn + 1) as u16, (it.4 as i32 + cn + 1) as u16)
                        })
                        .collect();
                    conv.sort();
                    if conv != *items || r.1 != *colc || r.2 != *rowc {
                        out.impl_violation(format!("sig:c08-hook-vs-layout hook and detailed_layout_info disagree on `{a}`"));
                    }
                }
            }
            None => {
                out.qa(&format!("layout {a}"), "panic");
                out.impl_violation(format!("sig:c03-grid-panic grid layout panicked on `layout {a}`"));
            }
        }
    }
}

fn gen_tok(r: &mut Rng, max_line: i64, max_span: i64) -> P {
    match r.below(20) {
        0..=6 => P::Auto,
        7..=14 => P::Line(r.range(-max_line, max_line) as i16),
        _ => P::Span(r.range(0, max_span) as u16),
    }
}

fn gen_problem(r: &mut Rng, max_children: usize, max_line: i64, max_span: i64, max_explicit: usize) -> Problem {
    let n = r.below(max_children + 1);
    let flow = *r.pick(&FLOWS);
    let cols = r.below(max_explicit + 1) as u16;
    let rows = r.below(max_explicit + 1) as u16;
    // a few "shared" tokens so that several children land on the same line (collisions, last_of_type)
    let shared = [gen_tok(r, max_line, max_span), gen_tok(r, max_line, max_span)];
    let mut children = vec![];
    for _ in 0..n {
        let mut c = [P::Auto; 4];
        for t in c.iter_mut() {
            *t = if r.chance(1, 4) { *r.pick(&shared) } else { gen_tok(r, max_line, max_span) };
        }
        // bias: fully automatic children and children definite in exactly one axis are the interesting ones
        match r.below(8) {
            0 => {
                c[0] = P::Auto;
                c[1] = if r.chance(1, 2) { P::Auto } else { P::Span(r.range(0, max_span) as u16) };
            }
            1 => {
                c[2] = P::Auto;
                c[3] = if r.chance(1, 2) { P::Auto } else { P::Span(r.range(0, max_span) as u16) };
            }
            2 => c = [P::Auto, P::Auto, P::Auto, P::Auto],
            _ => {}
        }
        children.push(c);
    }
    Problem { cols, rows, flow, children }
}

fn fixed_cases() -> Vec<Problem> {
    use P::*;
    let a4 = [Auto, Auto, Auto, Auto];
    let mut v = vec![
        // defect 2: `grid-row: auto / -1` in a grid without explicit rows (estimate missed the track before the end line)
        Problem { cols: 0, rows: 0, flow: GridAutoFlow::Row, children: vec![[Auto, Line(-1), Auto, Auto]] },
        Problem { cols: 1, rows: 0, flow: GridAutoFlow::Column, children: vec![[Auto, Auto, Auto, Line(-1)], a4] },
        // defect 3: `grid-column: 0 / span 5` in a grid narrower than 5 (span estimate looked at the raw placement)
        Problem { cols: 2, rows: 1, flow: GridAutoFlow::Row, children: vec![[Auto, Auto, Line(0), Span(5)]] },
        Problem { cols: 2, rows: 1, flow: GridAutoFlow::Column, children: vec![[Line(0), Span(5), Auto, Auto], a4] },
        // defect 4: definite-secondary-axis item with negative implicit tracks in the other axis (last_of_type)
        Problem {
            cols: 1,
            rows: 1,
            flow: GridAutoFlow::Row,
            children: vec![[Line(1), Auto, Line(-4), Auto], [Line(1), Auto, Auto, Auto], [Line(1), Auto, Auto, Auto], [Line(1), Auto, Auto, Span(2)]],
        },
        Problem {
            cols: 1,
            rows: 1,
            flow: GridAutoFlow::Column,
            children: vec![[Line(-4), Auto, Line(1), Auto], [Auto, Auto, Line(1), Auto], [Auto, Auto, Line(1), Auto], [Auto, Span(2), Line(1), Auto]],
        },
        Problem {
            cols: 2,
            rows: 0,
            flow: GridAutoFlow::Row,
            children: vec![[Line(-3), Auto, Line(-5), Auto], [Line(2), Auto, Auto, Auto], [Line(2), Auto, Span(2), Auto], [Line(-2), Line(2), Auto, Auto]],
        },
        // defect 5: `span 0`
        Problem { cols: 1, rows: 1, flow: GridAutoFlow::Row, children: vec![[Span(0), Auto, Auto, Auto]] },
        Problem { cols: 0, rows: 2, flow: GridAutoFlow::RowDense, children: vec![[Line(2), Span(0), Span(0), Span(0)], [Span(0), Line(-1), Auto, Auto]] },
        // no children at all, no explicit tracks
        Problem { cols: 0, rows: 0, flow: GridAutoFlow::Row, children: vec![] },
        Problem { cols: 3, rows: 0, flow: GridAutoFlow::ColumnDense, children: vec![] },
        // start line after end line (swapped), equal lines (end dropped), line 0 as auto
        Problem { cols: 2, rows: 2, flow: GridAutoFlow::Row, children: vec![[Line(3), Line(1), Line(2), Line(2)], [Line(0), Line(0), Line(-1), Line(-3)], a4, a4, a4] },
        // sparse vs dense cursor
        Problem { cols: 3, rows: 0, flow: GridAutoFlow::Row, children: vec![[Auto, Auto, Span(2), Auto], [Auto, Auto, Span(2), Auto], a4, a4] },
        Problem { cols: 3, rows: 0, flow: GridAutoFlow::RowDense, children: vec![[Auto, Auto, Span(2), Auto], [Auto, Auto, Span(2), Auto], a4, a4] },
        // definite primary axis, indefinite secondary (phase 4, first arm), before and after the cursor
        Problem { cols: 3, rows: 0, flow: GridAutoFlow::Row, children: vec![a4, a4, [Auto, Auto, Line(1), Auto], [Auto, Span(2), Line(3), Auto], [Auto, Auto, Line(-6), Auto]] },
    ];
    // the same problems under every auto-flow
    let base = v.clone();
    for p in base {
        for f in FLOWS {
            if f != p.flow {
                v.push(Problem { flow: f, ..p.clone() });
            }
        }
    }
    v
}

pub fn run(cfg: &Cfg, out: &mut Out) -> String {
    let mut idx = 0u64;
    for p in fixed_cases() {
        if cfg.wants(idx) {
            out.begin_case(idx, "fixed");
            exec(out, &p, true);
        }
        idx += 1;
    }
    let n = cfg.n(6000, 100_000);
    for _ in 0..n {
        if cfg.wants(idx) {
            let mut r = Rng::for_case(cfg.seed, idx);
            let p = gen_problem(&mut r, 6, 6, 4, 3);
            out.begin_case(idx, "random");
            exec(out, &p, true);
        }
        idx += 1;
    }
    // larger problems: up to 12 children, lines up to ±40, spans up to 9, up to 6 explicit tracks
    let n2 = cfg.n(600, 20_000);
    for _ in 0..n2 {
        if cfg.wants(idx) {
            let mut r = Rng::for_case(cfg.seed, idx);
            let p = gen_problem(&mut r, 12, 40, 9, 6);
            out.begin_case(idx, "large");
            exec(out, &p, r.chance(1, 4));
        }
        idx += 1;
    }
    let mut exhaustive = 0u64;
    if cfg.thorough() && cfg.only_case.is_none() {
        use P::*;
        // every single child over a 12-token pool, every flow, explicit counts 0..2 per axis
        let pool1 = [Auto, Line(-3), Line(-2), Line(-1), Line(0), Line(1), Line(2), Line(3), Line(4), Span(0), Span(1), Span(3)];
        let sizes = [(0u16, 0u16), (1, 0), (2, 1)];
        for &(cols, rows) in &sizes {
            for flow in FLOWS {
                for a in pool1 {
                    for b in pool1 {
                        for c in pool1 {
                            for d in pool1 {
                                out.begin_case(idx, "exhaustive1");
                                exec(out, &Problem { cols, rows, flow, children: vec![[a, b, c, d]] }, false);
                                idx += 1;
                                exhaustive += 1;
                            }
                        }
                    }
                }
            }
        }
        // every pair of children over a 4-token pool (256 × 256), every flow, two grids
        let pool2 = [Auto, Line(-2), Line(2), Span(2)];
        let mut kids = vec![];
        for a in pool2 {
            for b in pool2 {
                for c in pool2 {
                    for d in pool2 {
                        kids.push([a, b, c, d]);
                    }
                }
            }
        }
        for &(cols, rows) in &[(0u16, 0u16), (2, 1)] {
            for flow in FLOWS {
                for x in &kids {
                    for y in &kids {
                        out.begin_case(idx, "exhaustive2");
                        exec(out, &Problem { cols, rows, flow, children: vec![*x, *y] }, false);
                        idx += 1;
                        exhaustive += 1;
                    }
                }
            }
        }
        // every triple over a 3-token pool (81^3), column flow
        let pool3 = [Auto, Line(-1), Span(2)];
        let mut kids3 = vec![];
        for a in pool3 {
            for b in pool3 {
                for c in pool3 {
                    for d in pool3 {
                        kids3.push([a, b, c, d]);
                    }
                }
            }
        }
        for flow in [GridAutoFlow::Column] {
            for x in &kids3 {
                for y in &kids3 {
                    for z in &kids3 {
                        out.begin_case(idx, "exhaustive3");
                        exec(out, &Problem { cols: 1, rows: 1, flow, children: vec![*x, *y, *z] }, false);
                        idx += 1;
                        exhaustive += 1;
                    }
                }
            }
        }
    }
    format!("\"exhaustive_problems\": {exhaustive}")
}
