//! GRID — the whole grid algorithm. Runs the real `compute_grid_layout` through `TaffyTree` on generated grid containers
//! and records, via the `taffy::verif_trace` hook, every cache-missing invocation of every grid container in the tree:
//! its `LayoutInput`, every child query it made (child index, input, output — in order), every layout it set and its
//! `LayoutOutput`.
//!
//! request : `grid <11 input tokens> <grid container style> <n> <n × grid child style>
//!                 <m> <m × (child, 11 input tokens, 11 output tokens)>`          (styles: see gridfmt.rs)
//! answer  : `<11 output tokens> | <k> <k × (child, 21 layout tokens)> | q ok`    (or `panic`)
//! The Lean side (Drv/GRID.lean) runs `GridModel.computeGridLayout` with the recorded child answers as oracle, requiring
//! that its queries are exactly the recorded ones in the recorded order.
//!
//! `GRIDCORR_LEVEL=k` (development aid) restricts the generator to the first k feature classes; default = everything.
use crate::c02::{show_av, show_mode};
use crate::common::*;
use crate::gridfmt::*;
use crate::stylefmt::*;
use crate::treegen::*;
use taffy::prelude::*;
use taffy::style::{MaxTrackSizingFunction as MaxT, MinTrackSizingFunction as MinT};
use taffy::verif_trace::{self, VerifEvent};
use taffy::{
    BoxSizing, GridAutoFlow, GridTrackRepetition, Layout, LayoutInput, LayoutOutput, NonRepeatedTrackSizingFunction as TrackFn, Point,
    RequestedAxis, SizingMode, TrackSizingFunction as TrackDef,
};

pub fn show_input(i: &LayoutInput) -> String {
    format!(
        "{} {} {} {} {} {} {} {} {} {} {}",
        show_mode(i.run_mode),
        match i.sizing_mode {
            SizingMode::InherentSize => "I",
            SizingMode::ContentSize => "C",
        },
        match i.axis {
            RequestedAxis::Horizontal => "h",
            RequestedAxis::Vertical => "v",
            RequestedAxis::Both => "b",
        },
        hxo(i.known_dimensions.width),
        hxo(i.known_dimensions.height),
        hxo(i.parent_size.width),
        hxo(i.parent_size.height),
        show_av(i.available_space.width),
        show_av(i.available_space.height),
        if i.vertical_margins_are_collapsible.start { 1 } else { 0 },
        if i.vertical_margins_are_collapsible.end { 1 } else { 0 },
    )
}

/// 11 tokens, raw bits (`z` = map −0.0 to +0.0, used for answers)
pub fn show_output(o: &LayoutOutput, z: bool) -> String {
    let f = |x: f32| if z { hxz(x) } else { hx(x) };
    let fo = |x: Option<f32>| match x {
        None => "-".to_string(),
        Some(v) => f(v),
    };
    let (tp, tn) = o.top_margin.verif_parts();
    let (bp, bn) = o.bottom_margin.verif_parts();
    format!(
        "{} {} {} {} {} {} {} {} {} {} {}",
        f(o.size.width),
        f(o.size.height),
        f(o.content_size.width),
        f(o.content_size.height),
        fo(o.first_baselines.x),
        fo(o.first_baselines.y),
        f(tp),
        f(tn),
        f(bp),
        f(bn),
        if o.margins_can_collapse_through { 1 } else { 0 }
    )
}

/// one recorded invocation of a container
pub struct Invocation {
    pub input: LayoutInput,
    /// `None`: the invocation did not return (panic)
    pub output: Option<LayoutOutput>,
    pub queries: Vec<(usize, LayoutInput, LayoutOutput)>,
    pub sets: Vec<(usize, Layout)>,
}

/// reconstruct the invocations of `node` from the flat event list (an invocation still open at the end of the list — the
/// run panicked inside it — is returned with `output: None`)
pub fn invocations(events: &[VerifEvent], node: u64, kids: &[u64]) -> Result<Vec<Invocation>, String> {
    let mut res = vec![];
    let mut stack: Vec<u64> = vec![];
    let mut open: Option<(usize, Invocation)> = None; // (stack depth of the frame, invocation)
    let idx_of = |id: u64| kids.iter().position(|k| *k == id);
    for e in events {
        match e {
            VerifEvent::Enter(id, inp) => {
                if let Some((d, _)) = open.as_ref() {
                    if stack.len() == *d + 1 && idx_of(*id).is_none() {
                        return Err("query to a non-child".into());
                    }
                }
                stack.push(*id);
                if *id == node && open.is_none() {
                    open = Some((stack.len() - 1, Invocation { input: *inp, output: None, queries: vec![], sets: vec![] }));
                }
            }
            VerifEvent::Exit(id, inp, outp) => {
                let top = stack.pop().ok_or("exit without enter")?;
                if top != *id {
                    return Err("unbalanced trace".into());
                }
                let mut close = false;
                if let Some((d, inv)) = open.as_mut() {
                    if stack.len() == *d + 1 {
                        let k = idx_of(*id).ok_or("query to a non-child")?;
                        inv.queries.push((k, *inp, *outp));
                    } else if stack.len() == *d {
                        inv.output = Some(*outp);
                        close = true;
                    }
                }
                if close {
                    res.push(open.take().unwrap().1);
                }
            }
            VerifEvent::Hit(id, inp, outp) => {
                if let Some((d, inv)) = open.as_mut() {
                    if stack.len() == *d + 1 {
                        let k = idx_of(*id).ok_or("query to a non-child")?;
                        inv.queries.push((k, *inp, *outp));
                    }
                }
            }
            VerifEvent::Hidden(id, _inp) => {
                if let Some((d, _)) = open.as_mut() {
                    if stack.len() == *d + 1 {
                        let _ = idx_of(*id).ok_or("query to a non-child")?;
                        return Err("hidden-mode query issued by a grid container".into());
                    }
                }
            }
            VerifEvent::Set(id, l) => {
                if let Some((d, inv)) = open.as_mut() {
                    if stack.len() == *d + 1 {
                        let k = idx_of(*id).ok_or("layout set on a non-child")?;
                        inv.sets.push((k, *l));
                    }
                }
            }
        }
    }
    if let Some((_, inv)) = open.take() {
        res.push(inv);
    }
    Ok(res)
}

// ---------------------------------------------------------------------------------------------------------
// generator

/// which feature classes the generator may use (development aid: GRIDCORR_LEVEL)
#[derive(Clone, Copy)]
struct Lv(u32);
impl Lv {
    fn auto_place(self) -> bool {
        self.0 >= 2
    }
    fn fr(self) -> bool {
        self.0 >= 3
    }
    fn intrinsic(self) -> bool {
        self.0 >= 4
    }
    fn spans(self) -> bool {
        self.0 >= 5
    }
    fn percent(self) -> bool {
        self.0 >= 6
    }
    fn align(self) -> bool {
        self.0 >= 7
    }
    fn abs_hidden(self) -> bool {
        self.0 >= 8
    }
    fn baseline(self) -> bool {
        self.0 >= 9
    }
    fn everything(self) -> bool {
        self.0 >= 10
    }
}
fn level() -> Lv {
    Lv(std::env::var("GRIDCORR_LEVEL").ok().and_then(|s| s.parse().ok()).unwrap_or(99))
}

const PX: [f32; 10] = [0.0, 5.0, 10.0, 20.0, 25.0, 40.0, 50.0, 100.0, 12.5, 7.5];
const FRS: [f32; 7] = [0.0, 0.25, 0.5, 1.0, 1.0, 2.0, 3.0];
const PCTS: [f32; 6] = [0.0, 0.125, 0.25, 0.5, 1.0, 0.1];

fn px(v: f32) -> TrackFn {
    TrackFn { min: MinT::length(v), max: MaxT::length(v) }
}

fn g_min(r: &mut Rng, lv: Lv) -> MinT {
    match r.below(8) {
        0 | 1 => MinT::length(*r.pick(&PX)),
        2 if lv.percent() => MinT::percent(*r.pick(&PCTS)),
        3 | 4 => MinT::auto(),
        5 => MinT::min_content(),
        6 => MinT::max_content(),
        _ => MinT::length(r.range(0, 16) as f32 * 2.5),
    }
}
fn g_max(r: &mut Rng, lv: Lv) -> MaxT {
    match r.below(12) {
        0 | 1 => MaxT::length(*r.pick(&PX)),
        2 if lv.percent() => MaxT::percent(*r.pick(&PCTS)),
        3 | 4 => MaxT::auto(),
        5 => MaxT::min_content(),
        6 => MaxT::max_content(),
        7 => MaxT::fit_content_px(*r.pick(&PX)),
        8 if lv.percent() => MaxT::fit_content_percent(*r.pick(&PCTS)),
        9 => MaxT::length(r.range(0, 30) as f32 * 2.5),
        _ => MaxT::fr(*r.pick(&FRS)),
    }
}
fn g_fn(r: &mut Rng, lv: Lv) -> TrackFn {
    let k = r.below(12);
    match k {
        0 | 1 | 2 => px(*r.pick(&PX)),
        3 | 4 if lv.fr() => TrackFn { min: MinT::auto(), max: MaxT::fr(*r.pick(&FRS)) },
        5 if lv.fr() => TrackFn { min: MinT::length(*r.pick(&PX)), max: MaxT::fr(*r.pick(&FRS)) },
        6 if lv.intrinsic() => TrackFn { min: MinT::auto(), max: MaxT::auto() },
        7 if lv.intrinsic() => match r.below(4) {
            0 => TrackFn { min: MinT::min_content(), max: MaxT::min_content() },
            1 => TrackFn { min: MinT::max_content(), max: MaxT::max_content() },
            2 => TrackFn { min: MinT::auto(), max: MaxT::fit_content_px(*r.pick(&PX)) },
            _ => TrackFn { min: MinT::auto(), max: if lv.percent() { MaxT::fit_content_percent(*r.pick(&PCTS)) } else { MaxT::auto() } },
        },
        8 if lv.percent() => {
            let v = *r.pick(&PCTS);
            TrackFn { min: MinT::percent(v), max: MaxT::percent(v) }
        }
        9 | 10 if lv.intrinsic() => TrackFn { min: g_min(r, lv), max: g_max(r, lv) },
        _ => px(r.range(0, 24) as f32 * 2.5),
    }
}
/// a function with a fixed component (valid beside an auto-repetition)
fn g_fixed_fn(r: &mut Rng, lv: Lv) -> TrackFn {
    let pos = [5.0f32, 10.0, 20.0, 25.0, 40.0, 12.5, 0.0];
    match r.below(7) {
        0 | 1 | 2 => px(*r.pick(&pos)),
        3 => TrackFn { min: MinT::length(*r.pick(&pos)), max: *r.pick(&[MaxT::auto(), MaxT::fr(1.0), MaxT::max_content()]) },
        4 => TrackFn { min: *r.pick(&[MinT::auto(), MinT::min_content()]), max: MaxT::length(*r.pick(&pos)) },
        5 if lv.percent() => TrackFn { min: MinT::percent(*r.pick(&PCTS)), max: MaxT::percent(*r.pick(&PCTS)) },
        _ => TrackFn { min: MinT::length(*r.pick(&pos)), max: MaxT::length(*r.pick(&pos)) },
    }
}
fn g_template(r: &mut Rng, lv: Lv) -> Vec<TrackDef> {
    if lv.everything() && r.chance(1, 7) {
        // a template with an auto-repetition (valid: every definition has a fixed component; invalid ones occasionally)
        let k = r.below(3);
        let mut v: Vec<TrackDef> = (0..k).map(|_| TrackDef::Single(if r.chance(1, 10) { g_fn(r, lv) } else { g_fixed_fn(r, lv) })).collect();
        let kind = if r.chance(1, 2) { GridTrackRepetition::AutoFill } else { GridTrackRepetition::AutoFit };
        let at = r.below(k + 1);
        let fs: Vec<TrackFn> = (0..1 + r.below(2)).map(|_| g_fixed_fn(r, lv)).collect();
        v.insert(at, TrackDef::Repeat(kind, fs));
        if r.chance(1, 12) {
            v.push(TrackDef::Repeat(GridTrackRepetition::AutoFill, vec![g_fixed_fn(r, lv)]));
        }
        return v;
    }
    let n = if lv.auto_place() { r.below(4) } else { 1 + r.below(3) };
    let mut v = vec![];
    for _ in 0..n {
        if lv.spans() && r.chance(1, 8) {
            let k = if r.chance(1, 16) { 0 } else { 1 + r.below(2) };
            let fs: Vec<TrackFn> = (0..k).map(|_| g_fn(r, lv)).collect();
            v.push(TrackDef::Repeat(GridTrackRepetition::Count(r.range(0, 2) as u16), fs));
        } else {
            v.push(TrackDef::Single(g_fn(r, lv)));
        }
    }
    v
}
fn g_gap(r: &mut Rng, lv: Lv) -> LengthPercentage {
    match r.below(6) {
        0 | 1 | 2 => LengthPercentage::length(0.0),
        3 if lv.percent() => LengthPercentage::percent(*r.pick(&[0.125f32, 0.25, 0.0625, 0.1])),
        _ => LengthPercentage::length(*r.pick(&[2.0f32, 2.5, 5.0, 10.0])),
    }
}
fn g_size_dim(r: &mut Rng, lv: Lv) -> Dimension {
    match r.below(10) {
        0..=3 => Dimension::auto(),
        4 if lv.percent() => Dimension::percent(*r.pick(&[0.0f32, 0.25, 0.5, 1.0, 1.5])),
        _ => Dimension::length(*r.pick(&[0.0f32, 10.0, 35.0, 60.0, 100.0, 110.0, 120.0, 200.0, 300.0, 57.5])),
    }
}
fn g_pb(r: &mut Rng, lv: Lv) -> LengthPercentage {
    match r.below(8) {
        0..=3 => LengthPercentage::length(0.0),
        4 if lv.percent() => LengthPercentage::percent(*r.pick(&[0.0f32, 0.125, 0.25])),
        _ => LengthPercentage::length(*r.pick(&[1.0f32, 2.5, 5.0, 10.0])),
    }
}
fn g_rect_pb(r: &mut Rng, lv: Lv) -> Rect<LengthPercentage> {
    Rect { left: g_pb(r, lv), right: g_pb(r, lv), top: g_pb(r, lv), bottom: g_pb(r, lv) }
}
fn g_margin(r: &mut Rng, lv: Lv) -> LengthPercentageAuto {
    match r.below(10) {
        0..=3 => LengthPercentageAuto::length(0.0),
        4 => LengthPercentageAuto::auto(),
        5 if lv.percent() => LengthPercentageAuto::percent(*r.pick(&[0.125f32, 0.25, -0.125, 0.0])),
        6 => LengthPercentageAuto::length(-(r.range(0, 16) as f32) * 2.5),
        _ => LengthPercentageAuto::length(r.range(0, 16) as f32 * 2.5),
    }
}
fn g_align_items(r: &mut Rng, lv: Lv) -> Option<AlignItems> {
    if !lv.align() {
        return None;
    }
    match r.below(12) {
        0..=4 => None,
        5 => Some(AlignItems::Start),
        6 => Some(AlignItems::End),
        7 => Some(AlignItems::FlexStart),
        8 => Some(AlignItems::FlexEnd),
        9 => Some(AlignItems::Center),
        10 => {
            if lv.baseline() {
                Some(AlignItems::Baseline)
            } else {
                Some(AlignItems::Start)
            }
        }
        _ => Some(AlignItems::Stretch),
    }
}
fn g_align_content(r: &mut Rng, lv: Lv) -> Option<AlignContent> {
    if !lv.align() {
        return None;
    }
    match r.below(14) {
        0..=4 => None,
        5 => Some(AlignContent::Start),
        6 => Some(AlignContent::End),
        7 => Some(AlignContent::FlexStart),
        8 => Some(AlignContent::FlexEnd),
        9 => Some(AlignContent::Center),
        10 => Some(AlignContent::Stretch),
        11 => Some(AlignContent::SpaceBetween),
        12 => Some(AlignContent::SpaceEvenly),
        _ => Some(AlignContent::SpaceAround),
    }
}

fn g_line(r: &mut Rng, lv: Lv) -> GridPlacement {
    let lo = if lv.spans() { -4 } else { 1 };
    GridPlacement::from_line_index(r.range(lo, 4) as i16)
}
fn g_placement(r: &mut Rng, lv: Lv) -> Line<GridPlacement> {
    if !lv.auto_place() {
        // a definite line in every axis
        return Line { start: GridPlacement::from_line_index(r.range(1, 3) as i16), end: GridPlacement::Auto };
    }
    if r.chance(2, 5) {
        return Line { start: GridPlacement::Auto, end: GridPlacement::Auto };
    }
    if !lv.spans() {
        return match r.below(3) {
            0 => Line { start: GridPlacement::Auto, end: GridPlacement::Auto },
            _ => Line { start: GridPlacement::from_line_index(r.range(1, 4) as i16), end: GridPlacement::Auto },
        };
    }
    let one = |r: &mut Rng| match r.below(5) {
        0 => GridPlacement::Auto,
        1 => {
            let lo = if r.chance(1, 12) { 0 } else { 1 };
            GridPlacement::Span(r.range(lo, 3) as u16)
        }
        _ => g_line(r, lv),
    };
    Line { start: one(r), end: one(r) }
}

fn leaf(style: Style, ctx: Option<Ctx>) -> TreeDesc {
    TreeDesc { style, ctx, children: vec![] }
}

/// the box-model part of an item's / a container's style
fn box_fields(r: &mut Rng, lv: Lv, s: &mut Style, is_container: bool) {
    s.size = Size { width: g_size_dim(r, lv), height: g_size_dim(r, lv) };
    if !is_container && r.chance(1, 2) {
        s.size = Size::auto();
    }
    if lv.intrinsic() && r.chance(1, 5) {
        s.min_size = Size { width: g_size_dim(r, lv), height: g_size_dim(r, lv) };
    }
    if lv.intrinsic() && r.chance(1, 5) {
        s.max_size = Size { width: g_size_dim(r, lv), height: g_size_dim(r, lv) };
    }
    if lv.align() {
        if r.chance(1, 10) {
            s.aspect_ratio = Some(*r.pick(&[0.5, 1.0, 2.0, 4.0]));
        }
        if r.chance(1, if is_container { 3 } else { 5 }) {
            s.padding = g_rect_pb(r, lv);
        }
        if r.chance(1, if is_container { 4 } else { 6 }) {
            s.border = g_rect_pb(r, lv);
        }
        if r.chance(1, 7) {
            s.box_sizing = BoxSizing::ContentBox;
        }
        if r.chance(1, 4) {
            s.overflow = Point { x: gen_overflow(r), y: gen_overflow(r) };
        }
        if r.chance(1, 4) {
            s.scrollbar_width = *r.pick(&[4.0, 15.0]);
        }
    }
}

/// a child subtree of the container under test
fn gen_child(r: &mut Rng, lv: Lv, depth: usize) -> TreeDesc {
    let mut d = if lv.everything() && depth < 1 && r.chance(1, 5) {
        // nested flex / block / grid subtree from the shared tree generator
        let mut c = GenCfg::only(&[*r.pick(&[Display::Flex, Display::Grid, Display::Block])]);
        c.max_nodes = 4;
        c.max_depth = 2;
        c.allow_hidden = true;
        let mut t = gen_tree(r, &c);
        t.style.position = Position::Relative;
        t.style.inset = Rect::auto();
        t
    } else if lv.everything() && depth < 1 && r.chance(1, 8) {
        // nested grid from this generator
        gen_grid_container(r, lv, depth + 1)
    } else {
        let mut s = Style::DEFAULT;
        s.display = *r.pick(&[Display::Block, Display::Flex, Display::Grid, Display::Block]);
        box_fields(r, lv, &mut s, false);
        let ctx = match r.below(6) {
            0 => None,
            1 | 2 if lv.intrinsic() => Some(Ctx::Wrap(r.range(1, 30) as f32 * 4.0, r.range(1, 8) as f32 * 2.5)),
            _ => Some(Ctx::Fixed(r.range(0, 60) as f32 * 0.5, r.range(0, 40) as f32 * 0.5)),
        };
        leaf(s, ctx)
    };
    let s = &mut d.style;
    s.grid_row = g_placement(r, lv);
    s.grid_column = g_placement(r, lv);
    if lv.align() {
        s.align_self = g_align_items(r, lv);
        s.justify_self = g_align_items(r, lv);
        if r.chance(1, 2) {
            s.margin = Rect { left: g_margin(r, lv), right: g_margin(r, lv), top: g_margin(r, lv), bottom: g_margin(r, lv) };
        }
        if r.chance(1, 16) {
            s.item_is_replaced = true;
        }
    }
    if lv.abs_hidden() {
        if r.chance(1, 8) {
            s.position = Position::Absolute;
            s.inset = Rect { left: gen_inset(r), right: gen_inset(r), top: gen_inset(r), bottom: gen_inset(r) };
        } else if r.chance(1, 10) {
            s.inset = Rect { left: gen_inset(r), right: gen_inset(r), top: gen_inset(r), bottom: gen_inset(r) };
        }
        if r.chance(1, 12) {
            s.display = Display::None;
        }
    }
    d
}

fn gen_grid_container(r: &mut Rng, lv: Lv, depth: usize) -> TreeDesc {
    let mut s = Style::DEFAULT;
    s.display = Display::Grid;
    box_fields(r, lv, &mut s, true);
    s.grid_template_columns = g_template(r, lv);
    s.grid_template_rows = g_template(r, lv);
    if lv.auto_place() && r.chance(1, 3) {
        s.grid_auto_columns = (0..1 + r.below(2)).map(|_| g_fn(r, lv)).collect();
    }
    if lv.auto_place() && r.chance(1, 3) {
        s.grid_auto_rows = (0..1 + r.below(2)).map(|_| g_fn(r, lv)).collect();
    }
    s.gap = Size { width: g_gap(r, lv), height: g_gap(r, lv) };
    if lv.auto_place() {
        s.grid_auto_flow = *r.pick(&[GridAutoFlow::Row, GridAutoFlow::Column, GridAutoFlow::RowDense, GridAutoFlow::ColumnDense]);
    }
    s.align_content = g_align_content(r, lv);
    s.justify_content = g_align_content(r, lv);
    s.align_items = g_align_items(r, lv);
    s.justify_items = g_align_items(r, lv);
    let n = if depth == 0 { 1 + r.below(6) } else { 1 + r.below(3) };
    let mut children: Vec<TreeDesc> = (0..n).map(|_| gen_child(r, lv, depth)).collect();
    if lv.baseline() && r.chance(1, 6) {
        // several baseline-aligned items in one row
        for c in children.iter_mut() {
            if r.chance(2, 3) {
                c.style.align_self = Some(AlignItems::Baseline);
                c.style.grid_row = Line { start: GridPlacement::from_line_index(1), end: GridPlacement::Auto };
            }
        }
    }
    TreeDesc { style: s, ctx: None, children }
}

/// a grid container with children of every kind except flex containers (used by evaltree.rs)
pub fn gen_grid_root(r: &mut Rng) -> TreeDesc {
    gen_grid_container(r, Lv(99), 0)
}

fn grid_style() -> Style {
    Style { display: Display::Grid, ..Style::DEFAULT }
}
fn at(col: i16, row: i16) -> (Line<GridPlacement>, Line<GridPlacement>) {
    (Line { start: line(col), end: GridPlacement::Auto }, Line { start: line(row), end: GridPlacement::Auto })
}
fn item(col: Line<GridPlacement>, row: Line<GridPlacement>, w: f32, h: f32) -> TreeDesc {
    leaf(Style { grid_column: col, grid_row: row, ..Style::DEFAULT }, Some(Ctx::Fixed(w, h)))
}
fn frf(v: f32) -> TrackFn {
    TrackFn { min: MinT::auto(), max: MaxT::fr(v) }
}

/// fixed witnesses (DESIGN.md §9 / §13.4 for grid), all on the repaired repository
fn fixed_cases() -> Vec<(TreeDesc, Size<AvailableSpace>, &'static str)> {
    let mut v = vec![];
    let auto = GridPlacement::Auto;
    // §9 item 2: `grid-row: auto / -1`
    {
        let mut s = grid_style();
        s.grid_template_rows = vec![TrackDef::Single(px(10.0)), TrackDef::Single(px(10.0))];
        let c = item(Line { start: auto, end: auto }, Line { start: auto, end: line(-1) }, 5.0, 5.0);
        v.push((TreeDesc { style: s, ctx: None, children: vec![c] }, Size::MAX_CONTENT, "fixed-auto-to-minus-one"));
    }
    // §9 item 3: `grid-column: 0 / span 5` in a narrower grid
    {
        let mut s = grid_style();
        s.grid_template_columns = vec![TrackDef::Single(px(10.0)), TrackDef::Single(px(10.0))];
        let c = item(Line { start: GridPlacement::from_line_index(0), end: span(5) }, Line { start: auto, end: auto }, 5.0, 5.0);
        v.push((TreeDesc { style: s, ctx: None, children: vec![c] }, Size::MAX_CONTENT, "fixed-line0-span5"));
    }
    // §9 item 4: definite secondary axis item in a grid with negative implicit tracks in the other axis
    {
        let mut s = grid_style();
        s.grid_template_columns = vec![TrackDef::Single(px(10.0))];
        s.grid_template_rows = vec![TrackDef::Single(px(10.0))];
        let a = item(Line { start: line(-3), end: auto }, Line { start: line(1), end: auto }, 5.0, 5.0);
        let b = item(Line { start: auto, end: auto }, Line { start: line(1), end: auto }, 5.0, 5.0);
        let c = item(Line { start: auto, end: auto }, Line { start: line(2), end: span(2) }, 5.0, 5.0);
        v.push((TreeDesc { style: s, ctx: None, children: vec![a, b, c] }, Size::MAX_CONTENT, "fixed-negative-implicit"));
    }
    // §9 item 5: `span 0`
    {
        let mut s = grid_style();
        s.grid_template_columns = vec![TrackDef::Single(TrackFn { min: MinT::auto(), max: MaxT::auto() })];
        let c = item(Line { start: span(0), end: auto }, Line { start: line(1), end: span(0) }, 5.0, 5.0);
        v.push((TreeDesc { style: s, ctx: None, children: vec![c] }, Size::MAX_CONTENT, "fixed-span0"));
    }
    // §9 item 7: repeat(2,[10px 10px]) repeat(auto-fill,[20px]) in 100px
    {
        let mut s = grid_style();
        s.size = Size { width: Dimension::length(100.0), height: Dimension::length(20.0) };
        s.grid_template_columns = vec![
            TrackDef::Repeat(GridTrackRepetition::Count(2), vec![px(10.0), px(10.0)]),
            TrackDef::Repeat(GridTrackRepetition::AutoFill, vec![px(20.0)]),
        ];
        let (c, rw) = at(1, 1);
        v.push((TreeDesc { style: s, ctx: None, children: vec![item(c, rw, 5.0, 5.0)] }, Size::MAX_CONTENT, "fixed-witness7"));
    }
    // §9 items 9/10: a hidden and an absolute child with far-away lines
    {
        let mut s = grid_style();
        s.grid_template_columns = vec![TrackDef::Single(px(10.0))];
        s.grid_auto_columns = vec![px(7.5)];
        let mut h = item(Line { start: line(5), end: auto }, Line { start: line(4), end: auto }, 5.0, 5.0);
        h.style.display = Display::None;
        let mut a = item(Line { start: line(3), end: line(-2) }, Line { start: auto, end: line(2) }, 5.0, 5.0);
        a.style.position = Position::Absolute;
        a.style.inset.left = LengthPercentageAuto::length(2.0);
        let b = item(Line { start: auto, end: auto }, Line { start: auto, end: auto }, 5.0, 5.0);
        v.push((TreeDesc { style: s, ctx: None, children: vec![h, a, b] }, Size::MAX_CONTENT, "fixed-hidden-absolute-lines"));
    }
    // §9 item 11: 0.5fr 0.6fr with a content-floored track
    {
        let mut s = grid_style();
        s.size = Size { width: Dimension::length(110.0), height: Dimension::length(20.0) };
        s.grid_template_columns = vec![TrackDef::Single(frf(0.5)), TrackDef::Single(frf(0.6))];
        let (c, rw) = at(2, 1);
        v.push((TreeDesc { style: s, ctx: None, children: vec![item(c, rw, 100.0, 5.0)] }, Size::MAX_CONTENT, "fixed-fr-underfill"));
    }
    // §13.4 f6411f1: THRESHOLD leak of distribute_space_up_to_limits
    {
        let mut s = grid_style();
        s.size = Size { width: Dimension::length(10.015625), height: Dimension::length(20.0) };
        let mm = TrackFn { min: MinT::length(0.0), max: MaxT::length(50.0) };
        s.grid_template_columns = vec![TrackDef::Single(mm), TrackDef::Single(mm), TrackDef::Single(px(10.0))];
        let (c, rw) = at(3, 1);
        v.push((TreeDesc { style: s, ctx: None, children: vec![item(c, rw, 1.0, 5.0)] }, Size::MAX_CONTENT, "fixed-threshold-leak"));
    }
    // §13.4 f9d2661: repeat(auto-fill,[0px]) in 100px
    {
        let mut s = grid_style();
        s.size = Size { width: Dimension::length(100.0), height: Dimension::length(20.0) };
        s.grid_template_columns = vec![TrackDef::Repeat(GridTrackRepetition::AutoFill, vec![px(0.0)])];
        let (c, rw) = at(1, 1);
        v.push((TreeDesc { style: s, ctx: None, children: vec![item(c, rw, 5.0, 5.0)] }, Size::MAX_CONTENT, "fixed-auto-repeat-zero-size"));
    }
    // §13.4 e83a115: auto-fit grid with no in-flow items
    {
        let mut s = grid_style();
        s.size = Size { width: Dimension::length(100.0), height: Dimension::auto() };
        s.grid_template_columns = vec![TrackDef::Repeat(GridTrackRepetition::AutoFit, vec![px(20.0)])];
        let mut a = item(Line { start: auto, end: auto }, Line { start: auto, end: auto }, 5.0, 5.0);
        a.style.position = Position::Absolute;
        v.push((TreeDesc { style: s, ctx: None, children: vec![a] }, Size::MAX_CONTENT, "fixed-auto-fit-no-items"));
    }
    // §13.4 7c9e4be: compressible replaced item with content-box sizing
    {
        let mut s = grid_style();
        s.grid_template_columns = vec![TrackDef::Single(TrackFn { min: MinT::auto(), max: MaxT::auto() })];
        let mut c = item(Line { start: auto, end: auto }, Line { start: auto, end: auto }, 80.0, 10.0);
        c.style.item_is_replaced = true;
        c.style.box_sizing = BoxSizing::ContentBox;
        c.style.padding.left = LengthPercentage::length(10.0);
        c.style.max_size.width = Dimension::length(30.0);
        v.push((TreeDesc { style: s, ctx: None, children: vec![c] }, Size { width: AvailableSpace::Definite(50.0), height: AvailableSpace::MaxContent }, "fixed-compressible-replaced"));
    }
    // percentage tracks in an indefinite container (step 7 and the column re-run) with a wrapping leaf
    {
        let mut s = grid_style();
        s.grid_template_columns = vec![TrackDef::Single(TrackFn { min: MinT::percent(0.5), max: MaxT::percent(0.5) }), TrackDef::Single(TrackFn { min: MinT::auto(), max: MaxT::auto() })];
        s.gap.width = LengthPercentage::percent(0.125);
        let a = leaf(Style::DEFAULT, Some(Ctx::Wrap(80.0, 10.0)));
        let b = leaf(Style::DEFAULT, Some(Ctx::Wrap(40.0, 5.0)));
        v.push((TreeDesc { style: s, ctx: None, children: vec![a, b] }, Size::MAX_CONTENT, "fixed-percent-rerun"));
    }
    // baseline-aligned row
    {
        let mut s = grid_style();
        s.grid_template_columns = vec![TrackDef::Single(px(40.0)), TrackDef::Single(px(40.0))];
        s.align_items = Some(AlignItems::Baseline);
        let a = leaf(Style::DEFAULT, Some(Ctx::Fixed(10.0, 20.0)));
        let mut b = leaf(Style::DEFAULT, Some(Ctx::Fixed(10.0, 7.5)));
        b.style.margin.top = LengthPercentageAuto::length(2.5);
        v.push((TreeDesc { style: s, ctx: None, children: vec![a, b] }, Size::MAX_CONTENT, "fixed-baseline-row"));
    }
    // integer overflow in the placement code (a panic in the harness build, which keeps overflow checks on for taffy):
    // the open invocation is reported as `panic`, and the model must end in its `overflow` outcome
    {
        let mut s = grid_style();
        s.grid_template_columns = vec![TrackDef::Single(px(10.0))];
        let c = item(Line { start: line(32767), end: span(2) }, Line { start: auto, end: auto }, 5.0, 5.0);
        v.push((TreeDesc { style: s, ctx: None, children: vec![c] }, Size::MAX_CONTENT, "fixed-line-overflow-panic"));
    }
    for (d, avail, label, _) in witness_trees() {
        v.push((d, avail, label));
    }
    v
}

fn node_at(t: &TaffyTree<Ctx>, root: NodeId, path: &[usize]) -> NodeId {
    let mut n = root;
    for k in path {
        n = t.children(n).unwrap()[*k];
    }
    n
}
fn desc_at<'a>(d: &'a TreeDesc, path: &[usize]) -> &'a TreeDesc {
    let mut n = d;
    for k in path {
        n = &n.children[*k];
    }
    n
}
/// paths of every grid container (display grid, at least one child, not below a `display: none` node)
fn grid_paths(d: &TreeDesc, path: &mut Vec<usize>, out: &mut Vec<Vec<usize>>) {
    if d.style.display == Display::None {
        return;
    }
    if d.style.display == Display::Grid && !d.children.is_empty() {
        out.push(path.clone());
    }
    for (i, c) in d.children.iter().enumerate() {
        path.push(i);
        grid_paths(c, path, out);
        path.pop();
    }
}

fn child_kind(ch: &TreeDesc) -> &'static str {
    let s = &ch.style;
    if s.display == Display::None {
        "hidden"
    } else if s.position == Position::Absolute {
        "absolute"
    } else if ch.children.is_empty() {
        match ch.ctx {
            Some(Ctx::Fixed(..)) => "leaf-fixed",
            Some(Ctx::Wrap(..)) => "leaf-wrap",
            None => "empty",
        }
    } else {
        match s.display {
            Display::Block => "block",
            Display::Flex => "flex",
            Display::Grid => "grid",
            Display::None => "hidden",
        }
    }
}

fn run_case(out: &mut Out, d: &TreeDesc, paths: &[Vec<usize>], avail: Size<AvailableSpace>) {
    let res = catch(|| {
        let mut t: TaffyTree<Ctx> = TaffyTree::new();
        t.disable_rounding();
        let root = d.build(&mut t);
        let nodes: Vec<(u64, Vec<u64>)> = paths
            .iter()
            .map(|p| {
                let c = node_at(&t, root, p);
                (u64::from(c), t.children(c).unwrap().iter().map(|k| u64::from(*k)).collect())
            })
            .collect();
        verif_trace::start();
        let r = catch(|| {
            t.compute_layout_with_measure(root, avail, |k, a, _id, ctx, _style| measure(k, a, ctx)).unwrap();
        });
        let ev = verif_trace::take();
        (nodes, ev, r.is_err())
    });
    let (nodes, ev, panicked) = match res {
        Ok(v) => v,
        Err(_) => {
            let _ = verif_trace::take();
            out.count("panic-outside-layout");
            return;
        }
    };
    if panicked {
        out.count("panic");
    }
    for (path, (node, kids)) in paths.iter().zip(nodes.iter()) {
        let cdesc = desc_at(d, path);
        let invs = match invocations(&ev, *node, kids) {
            Ok(v) => v,
            Err(e) => {
                out.notes.push(format!("case {}: trace reconstruction failed: {e}", out.cur_case));
                out.count("trace-error");
                continue;
            }
        };
        let mut head = String::new();
        head.push_str(&grid_container_line(&cdesc.style));
        head.push_str(&format!(" {}", cdesc.children.len()));
        for ch in &cdesc.children {
            head.push(' ');
            head.push_str(&grid_child_line(&ch.style));
        }
        out.count(&format!("invocations-per-container:{}", invs.len().min(6)));
        for inv in &invs {
            let mut req = format!("grid {} {} {}", show_input(&inv.input), head, inv.queries.len());
            for (k, i, o) in &inv.queries {
                req.push_str(&format!(" {} {} {}", k, show_input(i), show_output(o, false)));
            }
            let ans = match &inv.output {
                None => "panic".to_string(),
                Some(o) => {
                    let mut ans = format!("{} | {}", show_output(o, true), inv.sets.len());
                    for (k, l) in &inv.sets {
                        ans.push_str(&format!(" {} {}", k, layout_line(l)));
                    }
                    ans.push_str(" | q ok");
                    ans
                }
            };
            out.qa(&req, &ans);
            out.count("invocations");
            out.count(&format!("mode:{}", show_mode(inv.input.run_mode)));
            out.count(&format!("queries:{}", match inv.queries.len() {
                0 => "0",
                1..=4 => "1-4",
                5..=12 => "5-12",
                13..=30 => "13-30",
                _ => ">30",
            }));
            if inv.input.known_dimensions.width.is_none() {
                out.count("container:content-width");
            }
            if inv.input.known_dimensions.height.is_none() {
                out.count("container:content-height");
            }
            if inv.output.is_none() {
                out.count("invocation:panicked");
            }
            if inv.sets.len() >= 2 || inv.queries.len() >= 3 {
                out.nontrivial();
            }
        }
        for ch in &cdesc.children {
            out.count(&format!("child:{}", child_kind(ch)));
        }
        out.count(&format!("children:{}", cdesc.children.len().min(7)));
    }
}

pub fn run(cfg: &Cfg, out: &mut Out) -> String {
    let lv = level();
    let n = cfg.n(1200, 60_000);
    let mut idx = 0u64;
    for (d, avail, label) in fixed_cases() {
        if cfg.wants(idx) {
            out.begin_case(idx, label);
            let mut paths = vec![];
            grid_paths(&d, &mut vec![], &mut paths);
            run_case(out, &d, &paths, avail);
        }
        idx += 1;
    }
    for _ in 0..n {
        if cfg.wants(idx) {
            let mut r = Rng::for_case(cfg.seed, idx);
            let c = gen_grid_container(&mut r, lv, 0);
            // placement of the container under test: root, or one level down in a block / flex / grid parent
            let (d, label) = if !lv.everything() {
                (c, "root")
            } else {
                match r.below(8) {
                    0..=2 => (c, "root"),
                    k => {
                        let mut p = Style::DEFAULT;
                        let label = match k {
                            3 | 4 => {
                                p.display = Display::Block;
                                "in-block"
                            }
                            5 | 6 => {
                                p.display = Display::Flex;
                                p.flex_direction = *r.pick(&[FlexDirection::Row, FlexDirection::Column]);
                                p.align_items = g_align_items(&mut r, lv);
                                "in-flex"
                            }
                            _ => {
                                p.display = Display::Grid;
                                if r.chance(1, 2) {
                                    p.grid_template_columns = g_template(&mut r, lv);
                                }
                                if r.chance(1, 2) {
                                    p.grid_template_rows = g_template(&mut r, lv);
                                }
                                p.align_items = g_align_items(&mut r, lv);
                                p.justify_items = g_align_items(&mut r, lv);
                                "in-grid"
                            }
                        };
                        box_fields(&mut r, lv, &mut p, true);
                        let mut kids = vec![];
                        if r.chance(1, 3) {
                            kids.push(gen_child(&mut r, lv, 1));
                        }
                        let mut c = c;
                        c.style.flex_grow = *r.pick(&[0.0, 0.0, 1.0]);
                        c.style.flex_shrink = *r.pick(&[1.0, 1.0, 0.0]);
                        if r.chance(1, 10) {
                            c.style.position = Position::Absolute;
                            c.style.inset = Rect { left: gen_inset(&mut r), right: gen_inset(&mut r), top: gen_inset(&mut r), bottom: gen_inset(&mut r) };
                        }
                        kids.push(c);
                        if r.chance(1, 3) {
                            kids.push(gen_child(&mut r, lv, 1));
                        }
                        (TreeDesc { style: p, ctx: None, children: kids }, label)
                    }
                }
            };
            let avail = gen_available(&mut r);
            out.begin_case(idx, label);
            out.count(&format!("placement:{label}"));
            let mut paths = vec![];
            grid_paths(&d, &mut vec![], &mut paths);
            run_case(out, &d, &paths, avail);
        }
        idx += 1;
    }
    String::new()
}

// ---------------------------------------------------------------------------------------------------------
// `tvharness GRIDWITNESS`: prints the unrounded layouts of the witnesses of the suspected defects noted while
// transliterating grid/mod.rs and grid_item.rs (see the final report of agent gridm). Not part of any check.

fn show_tree(t: &TaffyTree<Ctx>, n: NodeId, depth: usize) {
    let l = t.unrounded_layout(n);
    println!("{}x={} y={} w={} h={}", "  ".repeat(depth + 1), l.location.x, l.location.y, l.size.width, l.size.height);
    for c in t.children(n).unwrap() {
        show_tree(t, c, depth + 1);
    }
}

/// witnesses of the suspected defects (also run as fixed cases of the tie, which pins the present behaviour)
fn witness_trees() -> Vec<(TreeDesc, Size<AvailableSpace>, &'static str, &'static str)> {
    let mut v = vec![];
    let auto = GridPlacement::Auto;
    let autofn = TrackFn { min: MinT::auto(), max: MaxT::auto() };
    // W1: the row re-run test of step 7 filters on `crosses_intrinsic_column` (mod.rs, second `.filter`): an item in a
    // percentage column and an auto row is skipped, so the row keeps the height measured at the provisional width
    {
        let mut s = grid_style();
        s.grid_template_columns = vec![TrackDef::Single(TrackFn { min: MinT::percent(0.5), max: MaxT::percent(0.5) })];
        let a = leaf(Style { align_self: Some(AlignItems::Start), ..Style::DEFAULT }, Some(Ctx::Wrap(80.0, 10.0)));
        let b = leaf(Style::DEFAULT, Some(Ctx::Fixed(10.0, 10.0)));
        v.push((
            TreeDesc { style: s, ctx: None, children: vec![a, b] },
            Size::MAX_CONTENT,
            "witness-row-rerun-filter",
            "W1 grid{columns: 50%; width: auto} > [text(80 wide, 10 per line; align-self: start), box 10x10]: row 1 stays 10 high, the text is 40x20 and the box sits at y=10 (with `crosses_intrinsic_row`: y=20)",
        ));
    }
    // W2: `minimum_contribution` looks at ALL tracks of the axis for "spans an auto-min track" / "spans a flexible track"
    {
        let mut s = grid_style();
        s.size.width = Dimension::length(60.0);
        s.grid_template_columns = vec![TrackDef::Single(autofn), TrackDef::Single(autofn), TrackDef::Single(frf(1.0))];
        let a = item(Line { start: line(1), end: span(2) }, Line { start: auto, end: auto }, 100.0, 10.0);
        v.push((
            TreeDesc { style: s, ctx: None, children: vec![a.clone()] },
            Size::MAX_CONTENT,
            "witness-minimum-all-tracks-fr",
            "W2 grid{columns: auto auto 1fr; width: 60} > item{column: 1 / span 2; 100 wide}: columns 30 30 0, item 60 wide (spec/browsers: 50 50 0)",
        ));
        let mut s2 = grid_style();
        s2.size.width = Dimension::length(60.0);
        s2.grid_template_columns = vec![TrackDef::Single(autofn), TrackDef::Single(autofn), TrackDef::Single(px(0.0))];
        v.push((
            TreeDesc { style: s2, ctx: None, children: vec![a] },
            Size::MAX_CONTENT,
            "witness-minimum-all-tracks-px",
            "W2' same with the unrelated third column 0px instead of 1fr: columns 50 50 0, item 100 wide",
        ));
    }
    // W3: the re-run test of step 7 refreshes the items' contribution caches inside a short-circuiting `.any(..)`: the items
    // after the first one whose min-content contribution changed keep the contributions of the first pass
    {
        let mut s = grid_style();
        s.size.height = Dimension::length(40.0);
        s.grid_template_columns = vec![TrackDef::Single(autofn), TrackDef::Single(autofn)];
        let a = leaf(Style { aspect_ratio: Some(2.0), ..Style::DEFAULT }, Some(Ctx::Fixed(10.0, 10.0)));
        v.push((
            TreeDesc { style: s, ctx: None, children: vec![a.clone(), a] },
            Size::MAX_CONTENT,
            "witness-any-short-circuit",
            "W3 grid{columns: auto auto; height: 40} > two identical items {aspect-ratio: 2; content 10x10}: the first is 80x40, the second 10x5 (without the short-circuit: both 80x40)",
        ));
    }
    v
}

pub fn witnesses() {
    for (d, avail, _, text) in witness_trees() {
        println!("{text}");
        match layout_fresh(&d, avail, false) {
            Ok((t, root)) => show_tree(&t, root, 0),
            Err(m) => println!("  panic: {m}"),
        }
    }
}
