//! C07 — flex lines: the real `resolve_flexible_lengths`, `distribute_remaining_free_space`,
//! `calculate_layout_line`, `compute_alignment_offset`, `apply_alignment_fallback` on synthetic item lists
//! (cfg(taffy_verif) hooks), chained the way `compute_preliminary` chains them, plus whole layouts through `TaffyTree`.
use crate::common::*;
use crate::treegen::catch;
use taffy::compute::verif_flexbox_hooks as hooks;
use taffy::compute::verif_flexbox_hooks::VItem;
use taffy::prelude::*;
use taffy::{AlignContent, FlexDirection, FlexWrap};

const DIRS: [FlexDirection; 4] =
    [FlexDirection::Row, FlexDirection::Column, FlexDirection::RowReverse, FlexDirection::ColumnReverse];
const MODES: [AlignContent; 9] = [
    AlignContent::Start,
    AlignContent::End,
    AlignContent::FlexStart,
    AlignContent::FlexEnd,
    AlignContent::Center,
    AlignContent::Stretch,
    AlignContent::SpaceBetween,
    AlignContent::SpaceEvenly,
    AlignContent::SpaceAround,
];

fn is_rev(d: FlexDirection) -> bool {
    matches!(d, FlexDirection::RowReverse | FlexDirection::ColumnReverse)
}
fn is_row(d: FlexDirection) -> bool {
    matches!(d, FlexDirection::Row | FlexDirection::RowReverse)
}
fn dir_s(d: FlexDirection) -> &'static str {
    match d {
        FlexDirection::Row => "r",
        FlexDirection::Column => "c",
        FlexDirection::RowReverse => "rr",
        FlexDirection::ColumnReverse => "cr",
    }
}
fn mode_s(m: AlignContent) -> &'static str {
    match m {
        AlignContent::Start => "s",
        AlignContent::End => "e",
        AlignContent::FlexStart => "fs",
        AlignContent::FlexEnd => "fe",
        AlignContent::Center => "c",
        AlignContent::Stretch => "st",
        AlignContent::SpaceBetween => "sb",
        AlignContent::SpaceEvenly => "se",
        AlignContent::SpaceAround => "sa",
    }
}
fn jc_s(m: Option<AlignContent>) -> &'static str {
    m.map_or("-", mode_s)
}
fn b(x: bool) -> &'static str {
    if x {
        "1"
    } else {
        "0"
    }
}

fn item_s(v: &VItem) -> String {
    format!(
        "{} {} {} {} {} {} {} {} {} {} {} {} {} {} {} {} {} {} {}",
        hx(v.flex_basis),
        hx(v.inner_flex_basis),
        hx(v.hypothetical_inner_main),
        hx(v.hypothetical_outer_main),
        hx(v.resolved_minimum_main_size),
        hxo(v.max_main),
        hx(v.flex_grow),
        hx(v.flex_shrink),
        hx(v.margin_start),
        hx(v.margin_end),
        b(v.margin_start_auto),
        b(v.margin_end_auto),
        hxo(v.inset_start),
        hxo(v.inset_end),
        b(v.frozen),
        hx(v.violation),
        hx(v.target_main),
        hx(v.outer_target_main),
        hx(v.offset_main)
    )
}

// ------------------------------------------------------------------------------------------------ generators

/// small dyadic lengths: every sum/difference of a handful of them is exact in f32
const LEN: [f32; 14] = [0.0, 0.0, 1.0, 2.5, 4.0, 10.0, 10.0, 20.0, 30.0, 50.0, 60.0, 100.0, 0.25, 7.75];
const FACTOR: [f32; 10] = [0.0, 0.0, 1.0, 1.0, 2.0, 3.0, 0.25, 0.5, 0.75, 1.5];
const FACTOR_GE1: [f32; 6] = [0.0, 1.0, 1.0, 2.0, 3.0, 4.0];
const GAP: [f32; 7] = [0.0, 0.0, 1.0, 2.5, 10.0, 0.5, 20.0];
const MARGIN: [f32; 8] = [0.0, 0.0, 0.0, 1.0, 5.0, 2.5, 10.0, 0.75];
const WILD: [f32; 16] = [
    0.0,
    -0.0,
    1.0,
    -1.0,
    0.1,
    1.0e-40, // subnormal
    -1.0e-40,
    f32::MIN_POSITIVE,
    f32::INFINITY,
    f32::NEG_INFINITY,
    f32::NAN,
    3.4e38,
    33.333332,
    100.0,
    -7.5,
    0.3,
];

/// the relations `determine_flex_base_size` establishes between the fields of one item
fn wf_item(r: &mut Rng, factors: &[f32], neg_margins: bool) -> VItem {
    let pb = *r.pick(&[0.0f32, 0.0, 0.0, 0.0, 2.0, 4.0]);
    let flex_basis = r.pick(&LEN).max(pb);
    let inner_flex_basis = flex_basis - pb;
    let rmin = if r.chance(1, 2) { 0.0 } else { *r.pick(&LEN) };
    let max_main = if r.chance(1, 2) { None } else { Some(*r.pick(&LEN)) };
    let hyp_min = rmin.max(pb);
    let hyp_inner = match max_main {
        Some(mx) => flex_basis.min(mx).max(hyp_min),
        None => flex_basis.max(hyp_min),
    };
    let (msa, mea) = (r.chance(1, 8), r.chance(1, 8));
    let mut ms = if msa { 0.0 } else { *r.pick(&MARGIN) };
    let mut me = if mea { 0.0 } else { *r.pick(&MARGIN) };
    if neg_margins && r.chance(1, 3) {
        ms = -ms;
    }
    if neg_margins && r.chance(1, 3) {
        me = -me;
    }
    VItem {
        flex_basis,
        inner_flex_basis,
        hypothetical_inner_main: hyp_inner,
        hypothetical_outer_main: hyp_inner + (ms + me),
        resolved_minimum_main_size: rmin,
        max_main,
        flex_grow: *r.pick(factors),
        flex_shrink: *r.pick(factors),
        margin_start: ms,
        margin_end: me,
        margin_start_auto: msa,
        margin_end_auto: mea,
        inset_start: None,
        inset_end: None,
        frozen: false,
        violation: 0.0,
        target_main: 0.0,
        outer_target_main: 0.0,
        offset_main: 0.0,
    }
}

fn wild(r: &mut Rng) -> f32 {
    if r.chance(1, 2) {
        *r.pick(&WILD)
    } else {
        *r.pick(&LEN)
    }
}
fn wild_item(r: &mut Rng) -> VItem {
    let o = |r: &mut Rng| if r.chance(1, 2) { None } else { Some(wild(r)) };
    VItem {
        flex_basis: wild(r),
        inner_flex_basis: wild(r),
        hypothetical_inner_main: wild(r),
        hypothetical_outer_main: wild(r),
        resolved_minimum_main_size: wild(r),
        max_main: o(r),
        flex_grow: wild(r),
        flex_shrink: wild(r),
        margin_start: wild(r),
        margin_end: wild(r),
        margin_start_auto: r.chance(1, 4),
        margin_end_auto: r.chance(1, 4),
        inset_start: if r.chance(3, 4) { None } else { Some(wild(r)) },
        inset_end: if r.chance(3, 4) { None } else { Some(wild(r)) },
        frozen: r.chance(1, 8),
        violation: wild(r),
        target_main: wild(r),
        outer_target_main: wild(r),
        offset_main: wild(r),
    }
}

// ------------------------------------------------------------------------------------------------ operations

fn ans_rfl(items: &[VItem]) -> String {
    items
        .iter()
        .map(|v| format!("{} {} {} {}", hxz(v.target_main), hxz(v.outer_target_main), b(v.frozen), hxz(v.violation)))
        .collect::<Vec<_>>()
        .join(" ")
}

/// `rfl`: request + answer; returns the items after the call (None on panic)
fn op_rfl(out: &mut Out, dir: FlexDirection, inner: Option<f32>, gap: f32, items: &[VItem]) -> Option<Vec<VItem>> {
    let req = format!(
        "rfl {} {} {} {} {}",
        dir_s(dir),
        hxo(inner),
        hx(gap),
        items.len(),
        items.iter().map(item_s).collect::<Vec<_>>().join(" ")
    );
    let mut v = items.to_vec();
    match catch(|| {
        hooks::resolve_flexible_lengths(&mut v, dir, inner, gap);
        v
    }) {
        Ok(v) => {
            out.qa(req.trim_end(), &ans_rfl(&v));
            Some(v)
        }
        Err(_) => {
            out.qa(req.trim_end(), "panic");
            out.impl_violation("sig:c07-panic resolve_flexible_lengths panicked".into());
            None
        }
    }
}

fn op_drfs(
    out: &mut Out,
    dir: FlexDirection,
    inner: f32,
    gap: f32,
    jc: Option<AlignContent>,
    items: &[VItem],
) -> Option<Vec<VItem>> {
    let req = format!(
        "drfs {} {} {} {} {} {}",
        dir_s(dir),
        hx(inner),
        hx(gap),
        jc_s(jc),
        items.len(),
        items.iter().map(item_s).collect::<Vec<_>>().join(" ")
    );
    let mut v = items.to_vec();
    match catch(|| {
        hooks::distribute_remaining_free_space(&mut v, dir, inner, gap, jc);
        v
    }) {
        Ok(v) => {
            let a = v
                .iter()
                .map(|c| format!("{} {} {}", hxz(c.offset_main), hxz(c.margin_start), hxz(c.margin_end)))
                .collect::<Vec<_>>()
                .join(" ");
            out.qa(req.trim_end(), &a);
            Some(v)
        }
        Err(_) => {
            out.qa(req.trim_end(), "panic");
            out.impl_violation("sig:c07-panic distribute_remaining_free_space panicked".into());
            None
        }
    }
}

fn op_pos(out: &mut Out, dir: FlexDirection, start: f32, items: &[VItem], sizes: &[f32]) -> Option<Vec<f32>> {
    let req = format!(
        "pos {} {} {} {}",
        dir_s(dir),
        hx(start),
        items.len(),
        items.iter().zip(sizes).map(|(c, s)| format!("{} {}", item_s(c), hx(*s))).collect::<Vec<_>>().join(" ")
    );
    let mut v = items.to_vec();
    match catch(|| hooks::calculate_layout_line(&mut v, sizes, dir, start)) {
        Ok(locs) => {
            out.qa(req.trim_end(), &locs.iter().map(|x| hxz(*x)).collect::<Vec<_>>().join(" "));
            Some(locs)
        }
        Err(_) => {
            out.qa(req.trim_end(), "panic");
            out.impl_violation("sig:c07-panic calculate_layout_line panicked".into());
            None
        }
    }
}

/// `a.end <= b.start + tol` for all earlier/later pairs (swapped when reversed), in f64 (exact for sums of three f32s)
fn ordered(boxes: &[(f64, f64)], reversed: bool, tol: f64) -> bool {
    for i in 0..boxes.len() {
        for j in i + 1..boxes.len() {
            let ok = if reversed { boxes[j].1 <= boxes[i].0 + tol } else { boxes[i].1 <= boxes[j].0 + tol };
            if !ok {
                return false;
            }
        }
    }
    true
}

/// implementation-side oracle for `flexibility_exhausted` (f64, tolerance 2^-18 · max(1, |inner|, |gaps| + Σ(|flex_basis| + |margins|)))
fn oracle_exhausted(out: &mut Out, inner: f32, gap: f32, before: &[VItem], after: &[VItem]) {
    let n = before.len();
    let gap_total = if n <= 1 { 0.0 } else { gap as f64 * (n - 1) as f64 };
    let w = inner as f64;
    let uff: f64 = gap_total + before.iter().map(|c| c.hypothetical_outer_main as f64).sum::<f64>();
    let growing = uff < w;
    let shrinking = uff > w;
    let factors_ok = before.iter().all(|c| {
        let f = if growing { c.flex_grow } else { c.flex_shrink };
        f == 0.0 || f >= 1.0
    });
    if !factors_ok || !(growing || shrinking) {
        return;
    }
    out.count(if growing { "rfl:oracle-growing" } else { "rfl:oracle-shrinking" });
    let total: f64 = gap_total + after.iter().map(|c| c.outer_target_main as f64).sum::<f64>();
    // scale: the larger of the inner size and Σ |outer flex base size| + |gaps| (the magnitudes that are summed)
    let mags: f64 = gap_total.abs()
        + before.iter().map(|c| c.flex_basis.abs() as f64 + c.margin_start.abs() as f64 + c.margin_end.abs() as f64).sum::<f64>();
    let tol = w.abs().max(mags).max(1.0) / 262144.0;
    let fills = (total - w).abs() <= tol;
    let at_bound = before.iter().zip(after).all(|(c, a)| {
        if growing {
            c.flex_grow <= 0.0
                || match c.max_main {
                    Some(mx) => a.target_main == mx.max(c.resolved_minimum_main_size).max(0.0),
                    None => false,
                }
        } else {
            !(c.flex_shrink * c.inner_flex_basis > 0.0) || a.target_main == c.resolved_minimum_main_size.max(0.0)
        }
    });
    if fills {
        out.count("rfl:fills");
    } else if at_bound {
        out.count("rfl:at-bound");
    }
    if !(fills || at_bound) {
        out.impl_violation(format!(
            "sig:c07-not-exhausted inner {inner} gap {gap} total {total}: neither filled nor every flexible item at its bound"
        ));
    }
}

/// one chained case: rfl → drfs → pos, as `compute_preliminary` does for one line
fn chained(out: &mut Out, r: &mut Rng, wf: bool) {
    let n = r.below(7);
    let dir = *r.pick(&DIRS);
    let ge1 = wf && r.chance(2, 3);
    let neg_margins = wf && r.chance(1, 6);
    let items: Vec<VItem> = (0..n)
        .map(|_| if wf { wf_item(r, if ge1 { &FACTOR_GE1 } else { &FACTOR }, neg_margins) } else { wild_item(r) })
        .collect();
    let gap = if wf { *r.pick(&GAP) } else { wild(r) };
    let gap_total = if n <= 1 { 0.0 } else { gap * (n - 1) as f32 };
    let hyp_sum: f32 = gap_total + items.iter().map(|c| c.hypothetical_outer_main).sum::<f32>();
    let inner: Option<f32> = match r.below(10) {
        0 => None,
        1 | 2 => Some(hyp_sum),                                     // exactly sized
        3 | 4 => Some((hyp_sum - *r.pick(&LEN)).max(0.0)),          // shrinking
        5 | 6 => Some(hyp_sum + *r.pick(&LEN)),                     // growing
        7 => Some(hyp_sum / 2.0),
        _ => Some(if wf { *r.pick(&LEN) * 3.0 } else { wild(r) }),
    };
    out.count(&format!("n:{n}"));
    out.count(if wf { "stream:well-formed" } else { "stream:wild" });
    out.count(match inner {
        None => "inner:indefinite",
        Some(w) if hyp_sum < w => "mode:growing",
        Some(w) if hyp_sum > w => "mode:shrinking",
        Some(_) => "mode:exact-or-nan",
    });
    let Some(after) = op_rfl(out, dir, inner, gap, &items) else { return };
    if n > 0 {
        out.nontrivial();
    }
    if !after.iter().all(|c| c.frozen) {
        out.impl_violation("sig:c07-unfrozen an item is not frozen on exit".into());
    }
    if wf {
        if let Some(w) = inner {
            {
                // hyp_inner == loop clamp of flex_basis is part of the theorem's hypotheses
                let consistent = items.iter().all(|c| {
                    let k = match c.max_main {
                        Some(mx) => c.flex_basis.min(mx).max(c.resolved_minimum_main_size).max(0.0),
                        None => c.flex_basis.max(c.resolved_minimum_main_size).max(0.0),
                    };
                    k == c.hypothetical_inner_main
                });
                if consistent {
                    oracle_exhausted(out, w, gap, &items, &after);
                }
            }
        }
    }
    // drfs on the result
    let jc = if r.chance(1, 10) { None } else { Some(*r.pick(&MODES)) };
    let inner_container = match inner {
        Some(w) => w,
        None => hyp_sum,
    };
    let inner_container = if r.chance(1, 6) { inner_container + *r.pick(&LEN) } else { inner_container };
    out.count(&format!("jc:{}", jc_s(jc)));
    let Some(dist) = op_drfs(out, dir, inner_container, gap, jc, &after) else { return };
    // pos: the child usually reports its target size
    let sizes: Vec<f32> =
        dist.iter().map(|c| if r.chance(1, 8) { c.target_main + *r.pick(&LEN) } else { c.target_main }).collect();
    let start = if wf { *r.pick(&MARGIN) } else { wild(r) };
    let Some(locs) = op_pos(out, dir, start, &dist, &sizes) else { return };
    // implementation-side oracle: order / no overlap under the theorem's hypotheses
    let hyp = gap >= 0.0
        && items.iter().all(|c| c.margin_start >= 0.0 && c.margin_end >= 0.0 && c.offset_main >= 0.0)
        && sizes.iter().all(|s| *s >= 0.0)
        && items.iter().all(|c| c.inset_start.is_none() && c.inset_end.is_none())
        && locs.iter().all(|l| l.is_finite());
    if hyp {
        let boxes: Vec<(f64, f64)> = dist
            .iter()
            .zip(&sizes)
            .zip(&locs)
            .map(|((c, s), l)| (*l as f64 - c.margin_start as f64, *l as f64 + *s as f64 + c.margin_end as f64))
            .collect();
        let scale = boxes.iter().fold(1.0f64, |m, b| m.max(b.0.abs()).max(b.1.abs()));
        out.count("pos:oracle-checked");
        if !ordered(&boxes, is_rev(dir), scale / 262144.0) {
            out.impl_violation("sig:c07-overlap margin boxes of a line overlap or are out of order".into());
        }
    }
}

/// independent (not chained) drfs / pos inputs
fn unchained(out: &mut Out, r: &mut Rng) {
    let n = r.below(6);
    let dir = *r.pick(&DIRS);
    let wf = r.chance(2, 3);
    let mut items: Vec<VItem> = (0..n).map(|_| if wf { wf_item(r, &FACTOR, false) } else { wild_item(r) }).collect();
    for c in items.iter_mut() {
        if wf {
            c.target_main = *r.pick(&LEN);
            c.outer_target_main = c.target_main + (c.margin_start + c.margin_end);
        }
    }
    let gap = if wf { *r.pick(&GAP) } else { wild(r) };
    let used: f32 = items.iter().map(|c| c.outer_target_main).sum::<f32>() + if n > 1 { gap * (n - 1) as f32 } else { 0.0 };
    let inner = match r.below(4) {
        0 => used,
        1 => used + *r.pick(&LEN),
        2 => used - *r.pick(&LEN),
        _ => wild(r),
    };
    let jc = if r.chance(1, 10) { None } else { Some(*r.pick(&MODES)) };
    out.count(&format!("jc:{}", jc_s(jc)));
    out.count(if inner > used { "drfs:free>0" } else if inner < used { "drfs:free<0" } else { "drfs:free=0-or-nan" });
    if let Some(dist) = op_drfs(out, dir, inner, gap, jc, &items) {
        if n > 0 {
            out.nontrivial();
        }
        let sizes: Vec<f32> = dist.iter().map(|c| if wf { c.target_main } else { wild(r) }).collect();
        let start = wild(r);
        op_pos(out, dir, start, &dist, &sizes);
    }
}

fn alignment_table(out: &mut Out, idx: &mut u64, cfg: &Cfg) {
    let frees = [0.0f32, -0.0, 10.0, -10.0, 7.5, -0.25, f32::NAN, f32::INFINITY, 1.0e-40, 33.333332];
    let gaps = [0.0f32, 2.5];
    for (fi, free) in frees.iter().enumerate() {
        if cfg.wants(*idx) {
            out.begin_case(*idx, "alignment-table");
            out.nontrivial();
            for n in 1..=4usize {
                for m in MODES {
                    for safe in [false, true] {
                        let a = hooks::apply_alignment_fallback(*free, n, m, safe);
                        out.qa(&format!("aaf {} {} {} {}", hx(*free), n, mode_s(m), b(safe)), mode_s(a));
                    }
                    for gap in gaps {
                        for rev in [false, true] {
                            for first in [false, true] {
                                let a = hooks::compute_alignment_offset(*free, n, gap, m, rev, first);
                                out.qa(
                                    &format!("cao {} {} {} {} {} {}", hx(*free), n, hx(gap), mode_s(m), b(rev), b(first)),
                                    &hxz(a),
                                );
                            }
                        }
                    }
                }
            }
            out.count(&format!("alignment-table:free#{fi}"));
        }
        *idx += 1;
    }
}

// ------------------------------------------------------------------------------------------------ whole layouts

struct WlChild {
    style: Style,
    in_flow: bool,
}

fn len_or_auto(r: &mut Rng, pool: &[f32], auto_num: u32, auto_den: u32) -> LengthPercentageAuto {
    if r.chance(auto_num, auto_den) {
        LengthPercentageAuto::auto()
    } else {
        LengthPercentageAuto::length(*r.pick(pool))
    }
}

/// flex container with leaf children that have definite flex-basis, min/max, margins; returns request/answer
fn whole_layout(out: &mut Out, r: &mut Rng, excluded: bool) {
    let dir = *r.pick(&DIRS);
    let row = is_row(dir);
    let wrap = *r.pick(&[FlexWrap::NoWrap, FlexWrap::NoWrap, FlexWrap::Wrap, FlexWrap::WrapReverse]);
    let jc = if r.chance(1, 10) { None } else { Some(*r.pick(&MODES)) };
    let gap = *r.pick(&GAP);
    let main_size = if r.chance(1, 5) { Dimension::auto() } else { Dimension::length(*r.pick(&[0.0f32, 20.0, 50.0, 100.0, 100.0, 150.0, 33.0])) };
    let pad = *r.pick(&[0.0f32, 0.0, 3.0, 10.0]);
    let bor = *r.pick(&[0.0f32, 0.0, 1.0]);
    let mut cs = Style {
        display: Display::Flex,
        flex_direction: dir,
        flex_wrap: wrap,
        justify_content: jc,
        align_items: Some(AlignItems::FlexStart),
        gap: Size { width: LengthPercentage::length(gap), height: LengthPercentage::length(gap) },
        padding: Rect::length(pad),
        border: Rect::length(bor),
        ..Default::default()
    };
    if row {
        cs.size.width = main_size;
    } else {
        cs.size.height = main_size;
    }
    let n = r.below(7);
    let ge1 = r.chance(1, 2);
    let factors: &[f32] = if ge1 { &FACTOR_GE1 } else { &FACTOR };
    let mut children = vec![];
    for _ in 0..n {
        let mut s = Style { ..Default::default() };
        s.flex_basis = Dimension::length(*r.pick(&LEN));
        s.flex_grow = *r.pick(factors);
        s.flex_shrink = *r.pick(factors);
        let mn = if r.chance(1, 2) { Dimension::auto() } else { Dimension::length(*r.pick(&LEN)) };
        let mx = if r.chance(1, 2) { Dimension::auto() } else { Dimension::length(*r.pick(&LEN)) };
        let ms = len_or_auto(r, &MARGIN, 1, 8);
        let me = len_or_auto(r, &MARGIN, 1, 8);
        if row {
            s.min_size.width = mn;
            s.max_size.width = mx;
            s.size.height = Dimension::length(10.0);
            s.margin.left = ms;
            s.margin.right = me;
        } else {
            s.min_size.height = mn;
            s.max_size.height = mx;
            s.size.width = Dimension::length(10.0);
            s.margin.top = ms;
            s.margin.bottom = me;
        }
        if r.chance(1, 5) {
            let p = LengthPercentage::length(*r.pick(&[1.0f32, 2.0, 2.0, 10.0]));
            s.padding = Rect { left: p, right: p, top: LengthPercentage::length(0.0), bottom: LengthPercentage::length(0.0) };
            if !row {
                s.padding = Rect { top: p, bottom: p, left: LengthPercentage::length(0.0), right: LengthPercentage::length(0.0) };
            }
        }
        let mut in_flow = true;
        match r.below(12) {
            0 => {
                s.display = Display::None;
                in_flow = false;
            }
            1 => {
                s.position = Position::Absolute;
                in_flow = false;
            }
            _ => {}
        }
        if excluded {
            // outside the property's quantifier: negative margins, relative insets
            if r.chance(1, 2) {
                let m = LengthPercentageAuto::length(-*r.pick(&LEN));
                if row {
                    s.margin.left = m
                } else {
                    s.margin.top = m
                }
            }
            if r.chance(1, 2) {
                let i = LengthPercentageAuto::length(*r.pick(&LEN) - 20.0);
                if row {
                    s.inset.left = i
                } else {
                    s.inset.top = i
                }
            }
        }
        children.push(WlChild { style: s, in_flow });
    }
    out.count(&format!("wl:dir:{}", dir_s(dir)));
    out.count(&format!("wl:wrap:{:?}", wrap));
    out.count(&format!("wl:jc:{}", jc_s(jc)));
    let avail = if r.chance(1, 2) { Size::MAX_CONTENT } else { Size { width: AvailableSpace::Definite(120.0), height: AvailableSpace::Definite(120.0) } };
    let res = catch(|| {
        let mut t: TaffyTree<()> = TaffyTree::new();
        t.disable_rounding();
        let ids: Vec<NodeId> = children.iter().map(|c| t.new_leaf(c.style.clone()).unwrap()).collect();
        let root = t.new_with_children(cs.clone(), &ids).unwrap();
        t.compute_layout(root, avail).unwrap();
        let rl = *t.layout(root).unwrap();
        let ls: Vec<taffy::Layout> = ids.iter().map(|i| *t.layout(*i).unwrap()).collect();
        (rl, ls)
    });
    let kind = if excluded { "wlx" } else { "wl" };
    match res {
        Err(_) => {
            out.qa(&format!("{kind} {} 00000000 0", dir_s(dir)), "panic");
            out.impl_violation("sig:c07-panic whole layout panicked".into());
        }
        Ok((rl, ls)) => {
            // observation: per in-flow child (document order): line id (distinct cross positions), main location/size/margins
            let mut crosses: Vec<u32> = vec![];
            let mut obs = vec![];
            let mut boxes_by_line: Vec<Vec<(f64, f64)>> = vec![];
            for (c, l) in children.iter().zip(&ls) {
                if !c.in_flow {
                    continue;
                }
                let (loc, size, ms, me, cross) = if row {
                    (l.location.x, l.size.width, l.margin.left, l.margin.right, l.location.y)
                } else {
                    (l.location.y, l.size.height, l.margin.top, l.margin.bottom, l.location.x)
                };
                let key = cross.to_bits();
                let line = match crosses.iter().position(|k| *k == key) {
                    Some(p) => p,
                    None => {
                        crosses.push(key);
                        boxes_by_line.push(vec![]);
                        crosses.len() - 1
                    }
                };
                boxes_by_line[line].push((loc as f64 - ms as f64, loc as f64 + size as f64 + me as f64));
                obs.push(format!("{} {} {} {} {}", line, hx(loc), hx(size), hx(ms), hx(me)));
            }
            out.count(&format!("wl:lines:{}", crosses.len().min(4)));
            let extent = if row { rl.size.width } else { rl.size.height };
            let exact_ok = boxes_by_line.iter().all(|bs| ordered(bs, is_rev(dir), 0.0));
            let tol: f32 = if exact_ok { 0.0 } else { extent.abs().max(1.0) / 262144.0 };
            let ok = boxes_by_line.iter().all(|bs| ordered(bs, is_rev(dir), tol as f64));
            out.count(if exact_ok { "wl:exact" } else { "wl:tolerance" });
            let req = format!("{kind} {} {} {} {}", dir_s(dir), hx(tol), obs.len(), obs.join(" "));
            out.qa(req.trim_end(), if ok { "ok" } else { "overlap" });
            if obs.len() >= 2 {
                out.nontrivial();
            }
            if !ok && !excluded {
                out.impl_violation("sig:c07-overlap whole layout: margin boxes of a flex line overlap or are out of order".into());
            }
            if !ok && excluded {
                out.count("wlx:overlap (outside the quantifier: negative margins / relative insets)");
            }
            // the exhaustion clause on the whole layout (single line, definite inner main size, every non-zero factor >= 1):
            // the line is filled exactly, or it overflows and every item that may shrink sits at its minimum, or it underfills
            // and every item that may grow sits at its maximum
            if !excluded && ge1 && wrap == FlexWrap::NoWrap && !main_size.is_auto() {
                let main = main_size.into_option().unwrap();
                let inner = (main - 2.0 * pad - 2.0 * bor).max(0.0) as f64;
                let mut sum = 0.0f64;
                let mut sum_lo = 0.0f64;
                let mut k = 0usize;
                let mut can_shrink_above_min = false;
                let mut can_grow_below_max = false;
                let scale = inner.abs().max(1.0);
                let mut mag = scale;
                // outside the clause as proved (C07.flexibility_exhausted): an item whose max size is below its padding + border
                let mut max_below_pb = false;
                for (c, l) in children.iter().zip(&ls) {
                    if !c.in_flow {
                        continue;
                    }
                    k += 1;
                    let st = &c.style;
                    let (size, ms, me, mn, mx, pb) = if row {
                        (l.size.width, l.margin.left, l.margin.right, st.min_size.width, st.max_size.width, l.padding.left + l.padding.right + l.border.left + l.border.right)
                    } else {
                        (l.size.height, l.margin.top, l.margin.bottom, st.min_size.height, st.max_size.height, l.padding.top + l.padding.bottom + l.border.top + l.border.bottom)
                    };
                    sum += size as f64 + ms as f64 + me as f64;
                    mag = mag.max(size.abs() as f64);
                    // the freeze loop clamps target sizes by the min size WITHOUT the padding+border floor; the floor is applied
                    // to the final size afterwards. An item that sits on that floor may have had any smaller target size.
                    let floor_lo = mn.into_option().unwrap_or(0.0).min(pb);
                    sum_lo += (if size <= pb { floor_lo } else { size }) as f64 + ms as f64 + me as f64;
                    if mx.into_option().map_or(false, |m| m < pb) {
                        max_below_pb = true;
                    }
                    let lo = mn.into_option().unwrap_or(0.0).max(pb);
                    let hi = mx.into_option().map(|m| m.max(lo));
                    let tol_i = (mag / 131072.0) as f32;
                    if st.flex_shrink >= 1.0 && size > lo + tol_i {
                        can_shrink_above_min = true;
                    }
                    if st.flex_grow >= 1.0 && hi.map_or(true, |h| size < h - tol_i) {
                        can_grow_below_max = true;
                    }
                }
                if max_below_pb {
                    out.count("wl:exhaustion:excluded-max-below-padding-border");
                } else if k >= 1 {
                    sum += gap as f64 * (k as f64 - 1.0);
                    sum_lo += gap as f64 * (k as f64 - 1.0);
                    let tol = mag * k as f64 / 65536.0;
                    let verdict = if sum_lo - tol <= inner && inner <= sum + tol {
                        "filled"
                    } else if sum_lo > inner {
                        if can_shrink_above_min { "bad" } else { "overflow-all-at-min" }
                    } else if can_grow_below_max {
                        "bad"
                    } else {
                        "underfill-all-at-max"
                    };
                    out.count(&format!("wl:exhaustion:{verdict}"));
                    if verdict == "bad" {
                        out.impl_violation(format!(
                            "sig:c07-not-exhausted whole layout: outer sizes + gaps = {sum} for an inner main size of {inner}, yet an item that may still flex is not at its bound; sizes {:?}; container {:?}; children {:?}",
                            ls.iter().map(|l| if row { (l.size.width, l.margin.left, l.margin.right) } else { (l.size.height, l.margin.top, l.margin.bottom) }).collect::<Vec<_>>(),
                            crate::hist::style_brief(&cs),
                            children.iter().map(|c| crate::hist::style_brief(&c.style)).collect::<Vec<_>>()
                        ));
                    }
                }
            }
        }
    }
}

// ------------------------------------------------------------------------------------------------ fixed cases

fn base_item(flex_basis: f32, grow: f32, shrink: f32, rmin: f32, max_main: Option<f32>) -> VItem {
    let hyp = match max_main {
        Some(mx) => flex_basis.min(mx).max(rmin).max(0.0),
        None => flex_basis.max(rmin).max(0.0),
    };
    VItem {
        flex_basis,
        inner_flex_basis: flex_basis,
        hypothetical_inner_main: hyp,
        hypothetical_outer_main: hyp,
        resolved_minimum_main_size: rmin,
        max_main,
        flex_grow: grow,
        flex_shrink: shrink,
        margin_start: 0.0,
        margin_end: 0.0,
        margin_start_auto: false,
        margin_end_auto: false,
        inset_start: None,
        inset_end: None,
        frozen: false,
        violation: 0.0,
        target_main: 0.0,
        outer_target_main: 0.0,
        offset_main: 0.0,
    }
}

fn fixed_cases() -> Vec<(&'static str, FlexDirection, Option<f32>, f32, Option<AlignContent>, Vec<VItem>)> {
    vec![
        // max violation, then min violation, then the rest fills (three iterations)
        (
            "max-then-min",
            FlexDirection::Row,
            Some(100.0),
            0.0,
            Some(AlignContent::SpaceBetween),
            vec![base_item(0.0, 1.0, 1.0, 0.0, Some(10.0)), base_item(0.0, 1.0, 1.0, 50.0, None), base_item(0.0, 1.0, 1.0, 0.0, None)],
        ),
        // every growable item hits its max: the line is not filled (second disjunct)
        (
            "all-at-max",
            FlexDirection::RowReverse,
            Some(100.0),
            2.5,
            Some(AlignContent::SpaceEvenly),
            vec![base_item(0.0, 1.0, 1.0, 0.0, Some(10.0)), base_item(50.0, 0.0, 1.0, 0.0, None)],
        ),
        // shrinking with a zero inner basis (scaled factor 0) and a min bound
        (
            "shrink-scaled",
            FlexDirection::Column,
            Some(30.0),
            0.0,
            Some(AlignContent::Center),
            vec![base_item(0.0, 0.0, 1.0, 0.0, None), base_item(40.0, 0.0, 1.0, 30.0, None), base_item(20.0, 0.0, 2.0, 0.0, None)],
        ),
        // factor sum below one: only part of the free space is handed out (outside `flexibility_exhausted`)
        (
            "sum-below-one",
            FlexDirection::Row,
            Some(100.0),
            10.0,
            Some(AlignContent::End),
            vec![base_item(10.0, 0.25, 1.0, 0.0, None), base_item(10.0, 0.25, 1.0, 0.0, None)],
        ),
        // auto margin + gap: the auto margins absorb the free space (gap is not re-added between items)
        (
            "auto-margin-gap",
            FlexDirection::Row,
            Some(100.0),
            10.0,
            Some(AlignContent::Center),
            vec![base_item(20.0, 0.0, 0.0, 0.0, None), {
                let mut c = base_item(20.0, 0.0, 0.0, 0.0, None);
                c.margin_start_auto = true;
                c
            }],
        ),
        // negative free space with every justify-content value is exercised by the random stream; one here
        (
            "negative-free-space-around",
            FlexDirection::ColumnReverse,
            Some(10.0),
            1.0,
            Some(AlignContent::SpaceAround),
            vec![base_item(20.0, 0.0, 0.0, 0.0, None), base_item(20.0, 0.0, 0.0, 0.0, None), base_item(5.0, 0.0, 0.0, 0.0, None)],
        ),
        ("empty-line", FlexDirection::Row, Some(10.0), 1.0, None, vec![]),
        // thorough-tier witness (seed 1, case 220196): inner size 0 while the bases are ~100, so the rounding error of the
        // sums (4e-6) must be judged against the summed magnitudes, not against the inner size
        ("rounding-witness-inner-zero", FlexDirection::RowReverse, Some(0.0), 0.0, Some(AlignContent::SpaceAround), {
            let mk = |fb: f32, hi: f32, mx: Option<f32>, g: f32, s: f32, ms: f32, me: f32, mea: bool| {
                let mut c = base_item(fb, g, s, 0.0, mx);
                c.hypothetical_inner_main = hi;
                c.hypothetical_outer_main = hi + (ms + me);
                c.margin_start = ms;
                c.margin_end = me;
                c.margin_end_auto = mea;
                c
            };
            vec![
                mk(2.5, 2.5, Some(100.0), 4.0, 2.0, 0.75, 2.5, false),
                mk(30.0, 7.75, Some(7.75), 2.0, 4.0, -0.0, 0.0, true),
                mk(2.5, 2.5, Some(100.0), 4.0, 1.0, -0.0, -10.0, false),
                mk(100.0, 100.0, None, 1.0, 2.0, 0.75, 2.5, false),
            ]
        }),
    ]
}

pub fn run(cfg: &Cfg, out: &mut Out) -> String {
    let mut idx = 0u64;
    for (label, dir, inner, gap, jc, items) in fixed_cases() {
        if cfg.wants(idx) {
            out.begin_case(idx, label);
            out.nontrivial();
            if let Some(after) = op_rfl(out, dir, inner, gap, &items) {
                if let Some(w) = inner {
                    oracle_exhausted(out, w, gap, &items, &after);
                }
                if let Some(dist) = op_drfs(out, dir, inner.unwrap_or(0.0), gap, jc, &after) {
                    let sizes: Vec<f32> = dist.iter().map(|c| c.target_main).collect();
                    op_pos(out, dir, 0.0, &dist, &sizes);
                }
            }
        }
        idx += 1;
    }
    alignment_table(out, &mut idx, cfg);
    let n_chain = cfg.n(6000, 400_000);
    for _ in 0..n_chain {
        if cfg.wants(idx) {
            let mut r = Rng::for_case(cfg.seed, idx);
            let wf = r.chance(4, 5);
            out.begin_case(idx, if wf { "chain-wf" } else { "chain-wild" });
            chained(out, &mut r, wf);
        }
        idx += 1;
    }
    let n_un = cfg.n(1500, 100_000);
    for _ in 0..n_un {
        if cfg.wants(idx) {
            let mut r = Rng::for_case(cfg.seed, idx);
            out.begin_case(idx, "unchained");
            unchained(out, &mut r);
        }
        idx += 1;
    }
    let n_wl = cfg.n(3000, 200_000);
    for k in 0..n_wl {
        if cfg.wants(idx) {
            let mut r = Rng::for_case(cfg.seed, idx);
            let excluded = k % 10 == 9;
            out.begin_case(idx, if excluded { "whole-layout-excluded" } else { "whole-layout" });
            whole_layout(out, &mut r, excluded);
        }
        idx += 1;
    }
    out.notes.push(
        "wl/wlx lines carry whole-layout observations (public TaffyTree API, rounding off); their answer is the order/no-overlap \
         predicate evaluated in Rust, the model side evaluates the same predicate in Lean over exact rationals"
            .into(),
    );
    out.notes.push("wlx = inputs outside the property's quantifier (negative margins, relative insets): run, compared, not monitored".into());
    String::new()
}
